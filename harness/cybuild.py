"""Build farm: compile small modules with the *staged* compiler + gcc, run cases in child processes."""
import concurrent.futures as cf
import hashlib
import json
import os
import signal
import subprocess
import sys
import sysconfig

import lib

PYINC = sysconfig.get_paths()["include"]
EXT_SUFFIX = sysconfig.get_config_var("EXT_SUFFIX")

_COMPILE_SNIPPET = r"""
import sys, json
spec = json.loads(sys.argv[1])
from Cython.Compiler.Main import compile as cy_compile, CompilationOptions
from Cython.Compiler import Options
import Cython.Compiler.Code as C
assert C.__file__.endswith('.py'), C.__file__
for k, v in spec.get('global_options', {}).items():
    setattr(Options, k, v)
opts = CompilationOptions(language_level=spec.get('language_level', 3), compiler_directives=spec.get('directives', {}),
                          cplus=spec.get('cplus', False), **spec.get('options', {}))
res = cy_compile(spec['src'], opts)
sys.exit(0 if res.num_errors == 0 else 3)
"""


class BuildError(Exception):
    def __init__(self, stage, log):
        super().__init__("%s failed" % stage)
        self.stage = stage
        self.log = log


def build_module(ctx, name, source, ext=".pyx", directives=None, cflags=(), cplus=False, options=None,
                 language_level=3, global_options=None, opt="-O0", extra_files=None, cc=None, ldflags=()):
    """Returns path of the built extension module (inside ctx.scratch)."""
    key = hashlib.sha256(json.dumps([name, source, ext, directives, list(cflags), cplus, options, language_level,
                                     global_options, opt, extra_files, cc, list(ldflags)], sort_keys=True, default=repr).encode()).hexdigest()[:16]
    d = os.path.join(ctx.scratch, "b", name + "_" + key)
    so = os.path.join(d, name + EXT_SUFFIX)
    if os.path.exists(so):
        return so
    os.makedirs(d, exist_ok=True)
    srcp = os.path.join(d, name + ext)
    with open(srcp, "w") as f:
        f.write(source)
    for fn, txt in (extra_files or {}).items():
        with open(os.path.join(d, fn), "w") as f:
            f.write(txt)
    spec = {"src": srcp, "directives": directives or {}, "cplus": cplus, "options": options or {},
            "language_level": language_level, "global_options": global_options or {}}
    env = lib._clean_env({"PYTHONPATH": ctx.stage})
    p = subprocess.run([lib.PYTHON, "-c", _COMPILE_SNIPPET, json.dumps(spec)], cwd=d, env=env,
                       stdout=subprocess.PIPE, stderr=subprocess.STDOUT, text=True,
                       timeout=float(os.environ.get("VERIF_CYTHON_TIMEOUT", "1500")))   # generous: an overloaded machine must not turn into exit 2
    if p.returncode != 0:
        raise BuildError("cython", p.stdout[-3000:])
    csrc = os.path.join(d, name + (".cpp" if cplus else ".c"))
    comp = cc or ("g++" if cplus else "gcc")
    cmd = [comp, opt, "-shared", "-fPIC", "-w", "-I" + PYINC, "-I" + d] + list(cflags) + [csrc, "-o", so] + list(ldflags)
    p = subprocess.run(cmd, cwd=d, stdout=subprocess.PIPE, stderr=subprocess.STDOUT, text=True, timeout=900)
    if p.returncode != 0:
        raise BuildError("cc", p.stdout[-3000:])
    return so


def build_many(ctx, specs, workers=16):
    """specs: list of dicts of build_module kwargs (with 'name','source').  Returns list of so paths or BuildError."""
    def one(s):
        try:
            return build_module(ctx, **s)
        except BuildError as e:
            return e
    with cf.ThreadPoolExecutor(max_workers=workers) as ex:
        return list(ex.map(one, specs))


_RUNNER = r"""
import sys, os, importlib.util, math, faulthandler
inf = float('inf'); nan = float('nan')
so, modname = sys.argv[1], sys.argv[2]
import signal
_alarm = int(sys.argv[3]) if len(sys.argv) > 3 else 0
signal.signal(signal.SIGALRM, signal.SIG_DFL)
spec = importlib.util.spec_from_file_location(modname, so)
mod = importlib.util.module_from_spec(spec)
sys.modules[modname] = mod
spec.loader.exec_module(mod)
def canon(v):
    if isinstance(v, float):
        return 'float:' + (v.hex() if v == v and v not in (inf, -inf) else repr(v))
    if isinstance(v, complex):
        return 'complex:' + canon(v.real) + ',' + canon(v.imag)
    if isinstance(v, (tuple, list)):
        return type(v).__name__ + ':[' + ';'.join(canon(x) for x in v) + ']'
    return type(v).__name__ + ':' + repr(v)
env = {'inf': inf, 'nan': nan, 'mod': mod}
extra = getattr(mod, '_verif_env', None)
if extra: env.update(extra())
out = sys.stdout
for line in sys.stdin:
    line = line.rstrip('\n')
    if not line:
        continue
    fname, _, argsrc = line.partition('\t')
    if _alarm: signal.alarm(_alarm)
    try:
        args = eval(argsrc, env) if argsrc else ()
        if not isinstance(args, tuple): args = (args,)
        r = getattr(mod, fname)(*args)
        out.write('ok ' + canon(r) + '\n')
    except BaseException as e:
        out.write('err ' + type(e).__name__ + '\n')
    if _alarm: signal.alarm(0)
    out.flush()
"""


def run_cases(ctx, so, cases, timeout_per_case=10.0, modname=None, env_extra=None):
    """cases: list of (funcname, args_source).  Returns list of outcome strings
    ('ok type:repr' | 'err Exc' | 'crash SIGNAME' | 'timeout')."""
    modname = modname or os.path.basename(so).split(".")[0]
    runner = os.path.join(ctx.scratch, "runner.py")
    if not os.path.exists(runner):
        with open(runner, "w") as f:
            f.write(_RUNNER)
    results = []
    i = 0
    env = lib._clean_env({"PYTHONPATH": ctx.stage})
    if env_extra:
        env.update(env_extra)
    while i < len(cases):
        chunk = cases[i:]
        data = "".join("%s\t%s\n" % (f, a) for f, a in chunk)
        try:
            p = subprocess.run([lib.PYTHON, runner, so, modname, str(int(timeout_per_case))], input=data, stdout=subprocess.PIPE,
                               stderr=subprocess.PIPE, text=True, env=env,
                               timeout=max(60.0, timeout_per_case + 0.01 * len(chunk) + 30))
            out = p.stdout.split("\n")
            rc = p.returncode
            err = p.stderr
        except subprocess.TimeoutExpired as e:
            out = (e.stdout.decode() if isinstance(e.stdout, bytes) else (e.stdout or "")).split("\n")
            rc = "timeout"
            err = ""
        if out and out[-1] == "":
            out.pop()
        got = [l for l in out if l.startswith(("ok ", "err "))]
        results.extend(got[:len(chunk)])
        i += len(got)
        if len(got) >= len(chunk):
            break
        # the case after the last completed one killed the child
        if rc == "timeout":
            results.append("timeout")
        elif isinstance(rc, int) and rc < 0:
            try:
                nm = signal.Signals(-rc).name
                results.append("timeout" if nm == "SIGALRM" else "crash " + nm)
            except ValueError:
                results.append("crash %d" % rc)
        else:
            if not got and i == 0 and "Error" in err:
                raise lib.Infra("runner failed to start: " + err[-800:])
            results.append("crash exit%s" % rc)
        i += 1
    return results

"""Common machinery for every property check (DESIGN.md section 2).

One process per `./check Cxx` invocation.  The working tree of /repo is staged
(pure-Python sources only, no stale compiled extension modules) into a scratch
directory outside /repo and /verif and put first on sys.path, so the
implementation under test is what the source says *now*.
"""
import contextlib
import fcntl
import hashlib
import json
import os
import random
import re
import shutil
import subprocess
import sys
import tempfile
import time

VERIF = os.path.dirname(os.path.dirname(os.path.abspath(__file__)))
REPO = os.environ.get("VERIF_REPO", "/repo")
LEAN_DIR = os.path.join(VERIF, "lean")
CYDRV = os.path.join(LEAN_DIR, ".lake", "build", "bin", "cydrv")
PYTHON = "/venv/bin/python"
PYINC = None
ALLOWED_AXIOMS = {"propext", "Classical.choice", "Quot.sound"}
FORBIDDEN = re.compile(r"\b(sorry|admit|native_decide|bv_decide|implemented_by|unsafe)\b|^\s*axiom\s", re.M)


class Infra(Exception):
    """Infrastructure failure: exit 2, never a verdict."""


def _clean_env(extra=None):
    env = dict(os.environ)
    env.pop("PYTHONPATH", None)
    env["PYTHONDONTWRITEBYTECODE"] = "1"
    if extra:
        env.update(extra)
    return env


def run(cmd, timeout=600, cwd=None, env=None, input=None):
    p = subprocess.run(cmd, stdout=subprocess.PIPE, stderr=subprocess.PIPE, cwd=cwd,
                       env=env or _clean_env(), input=input, timeout=timeout, text=isinstance(input, str) or input is None)
    return p


# --------------------------------------------------------------------------
# staging


def stage_repo(scratch):
    """Copy /repo/Cython without git-ignored files (stale .so, generated .c)."""
    stage = os.path.join(scratch, "stage")
    os.makedirs(stage, exist_ok=True)
    ign = subprocess.run(["git", "-C", REPO, "ls-files", "-o", "-i", "--exclude-standard", "--directory", "Cython"],
                         stdout=subprocess.PIPE, text=True).stdout.split("\n")
    exf = os.path.join(scratch, "rsync.exclude")
    with open(exf, "w") as f:
        for line in ign:
            if line.strip():
                f.write("/" + line.strip() + "\n")
        f.write("*.so\n__pycache__\n*.pyc\n")
    p = subprocess.run(["rsync", "-a", "--exclude-from", exf, os.path.join(REPO, "Cython"), stage + "/"],
                       stdout=subprocess.PIPE, stderr=subprocess.PIPE, text=True)
    if p.returncode != 0:
        raise Infra("staging failed: " + p.stderr[-500:])
    return stage


def tree_hash(stage):
    h = hashlib.sha256()
    for root, dirs, files in os.walk(os.path.join(stage, "Cython")):
        dirs.sort()
        for fn in sorted(files):
            p = os.path.join(root, fn)
            h.update(p[len(stage):].encode())
            with open(p, "rb") as f:
                h.update(hashlib.sha256(f.read()).digest())
    return h.hexdigest()


# --------------------------------------------------------------------------
# Lean side


def lean_build():
    """Build the library and the driver under a lock (no-op if up to date)."""
    lock = os.path.join(LEAN_DIR, ".build.lock")
    with open(lock, "w") as lf:
        fcntl.flock(lf, fcntl.LOCK_EX)
        t0 = time.time()
        p = subprocess.run(["lake", "build", "CyVerif", "cydrv"], cwd=LEAN_DIR, stdout=subprocess.PIPE,
                           stderr=subprocess.STDOUT, text=True, env=_clean_env())
        fcntl.flock(lf, fcntl.LOCK_UN)
    return p.returncode == 0, p.stdout, time.time() - t0


def lean_run_file(path, timeout=900):
    p = subprocess.run(["lake", "env", "lean", path], cwd=LEAN_DIR, stdout=subprocess.PIPE, stderr=subprocess.STDOUT,
                       text=True, env=_clean_env(), timeout=timeout)
    return p.returncode, p.stdout


def strip_lean_comments(text):
    out = []
    i = 0
    depth = 0
    n = len(text)
    while i < n:
        if text.startswith("/-", i):
            depth += 1
            i += 2
        elif depth and text.startswith("-/", i):
            depth -= 1
            i += 2
        elif depth:
            i += 1
        elif text.startswith("--", i):
            j = text.find("\n", i)
            i = n if j < 0 else j
        else:
            out.append(text[i])
            i += 1
    return "".join(out)


def lean_source_scan():
    """Forbidden tokens anywhere in lean/ (comments stripped)."""
    hits = []
    for root, dirs, files in os.walk(LEAN_DIR):
        if ".lake" in root:
            continue
        for fn in files:
            if fn.endswith(".lean"):
                p = os.path.join(root, fn)
                txt = strip_lean_comments(open(p).read())
                # strings may legitimately contain words; strip string literals
                txt = re.sub(r'"(\\.|[^"\\])*"', '""', txt)
                for m in FORBIDDEN.finditer(txt):
                    hits.append("%s: %s" % (os.path.relpath(p, VERIF), m.group(0).strip()))
    return hits


def theorem_audit(prop_id, scratch):
    """Every theorem listed for the property exists and is axiom-clean.
    Returns list of obligation dicts {name, kind, ok, axioms|error}."""
    pj = os.path.join(LEAN_DIR, "props", prop_id + ".json")
    if not os.path.exists(pj):
        return []
    entry = json.load(open(pj))
    mods = entry["modules"]
    thms = entry["theorems"]
    src = "".join("import %s\n" % m for m in mods)
    for t in thms:
        src += "#print axioms %s\n" % t["name"]
    path = os.path.join(scratch, "Audit_%s.lean" % prop_id)
    open(path, "w").write(src)
    rc, out = lean_run_file(path)
    res = []
    # parse: "'name' depends on axioms: [a, b]" or "'name' does not depend on any axioms"
    found = {}
    for m in re.finditer(r"'([^']+)' depends on axioms: \[([^\]]*)\]", out):
        found[m.group(1)] = set(x.strip() for x in m.group(2).replace("\n", " ").split(",") if x.strip())
    for m in re.finditer(r"'([^']+)' does not depend on any axioms", out):
        found[m.group(1)] = set()
    for t in thms:
        nm = t["name"]
        if nm in found:
            bad = found[nm] - ALLOWED_AXIOMS
            res.append({"name": nm, "kind": t.get("kind", "full"), "ok": not bad, "axioms": sorted(found[nm]),
                        "what": t.get("what", "")})
        else:
            err = [l for l in out.split("\n") if nm in l or "error" in l][:3]
            res.append({"name": nm, "kind": t.get("kind", "full"), "ok": False, "error": " | ".join(err)[:400],
                        "what": t.get("what", "")})
    return res


def leanchecker(prop_id):
    """Thorough tier: re-check the compiled Props module with the independent checker."""
    pj = os.path.join(LEAN_DIR, "props", prop_id + ".json")
    if not os.path.exists(pj):
        return []
    mods = json.load(open(pj))["modules"]
    p = subprocess.run(["lake", "env", "leanchecker"] + mods, cwd=LEAN_DIR, stdout=subprocess.PIPE,
                       stderr=subprocess.STDOUT, text=True, env=_clean_env(), timeout=3000)
    return [{"name": "leanchecker " + " ".join(mods), "kind": "recheck", "ok": p.returncode == 0,
             "what": "independent re-check of the compiled .olean files" + ("" if p.returncode == 0 else ": " + p.stdout[-300:])}]


class Driver:
    """Batch interface to the compiled Lean model driver (line protocol)."""

    def __init__(self):
        self._wait()

    @staticmethod
    def _wait(limit=600):
        # another check's `lake build` may be relinking the driver right now: wait for it instead of failing
        t0 = time.time()
        while not os.path.exists(CYDRV):
            if time.time() - t0 > limit:
                raise Infra("cydrv not built")
            time.sleep(2)

    def batch(self, lines, timeout=1200):
        self._wait()
        data = "\n".join(lines) + "\n"
        p = subprocess.run([CYDRV], input=data, stdout=subprocess.PIPE, stderr=subprocess.PIPE, text=True,
                           timeout=timeout, env=_clean_env())
        out = p.stdout.split("\n")
        if out and out[-1] == "":
            out.pop()
        if p.returncode != 0 or len(out) != len(lines):
            raise Infra("cydrv failed rc=%s got %d lines for %d: %s" % (p.returncode, len(out), len(lines), p.stderr[-300:]))
        return out


# --------------------------------------------------------------------------
# known findings


def load_known_findings():
    path = os.path.join(VERIF, "known_findings.txt")
    known = {}
    if os.path.exists(path):
        for line in open(path):
            line = line.strip()
            m = re.match(r"finding:\s+property=(\S+)\s+key=(\S+)\s*(.*)", line)
            if m:
                known[(m.group(1), m.group(2))] = m.group(3)
    return known


# --------------------------------------------------------------------------
# context handed to each property module


class Ctx:
    def __init__(self, prop, tier, seed, scratch, stage):
        self.prop = prop
        self.tier = tier
        self.seed = seed
        self.rng = random.Random(seed * 1000003 + int(prop[1:]))
        self.scratch = scratch
        self.stage = stage
        self.repo = REPO
        self.drv = Driver()
        self.evaluations = 0
        self.distinct = set()
        self.samples = []
        self.dist = {}
        self.violations = []      # impl != oracle (property fails on the real code)
        self.tie_breaks = []      # model != impl (correspondence broken)
        self.obligations = []     # regenerated-parameter obligations etc.
        self.notes = {}
        self.explanation = ""
        self.rule = ""
        self.assumptions = []
        self.extra_trusted = []
        self.budget_scale = 1.0
        self._t0 = time.time()

    @property
    def quick(self):
        return self.tier == "quick"

    def n(self, quick, thorough):
        return int((quick if self.quick else thorough) * self.budget_scale)

    def count(self, key=None, k=1):
        self.evaluations += k
        if key is not None:
            self.dist[key] = self.dist.get(key, 0) + k

    def seen(self, case, nontrivial=True):
        """Record a distinct case (hashable canonical form)."""
        if nontrivial:
            if len(self.distinct) < 5_000_000:
                self.distinct.add(hash(case))

    def sample(self, x, cap=8):
        if len(self.samples) < cap:
            self.samples.append(x)

    def violation(self, key, what, replay):
        """Property fails on the real code for a concrete input."""
        what = what if len(what) <= 400 else what[:400] + "…"
        # keep the first occurrences per key (a frequent listed finding must not crowd out another key)
        self._vcount = getattr(self, "_vcount", {})
        self._vcount[key] = self._vcount.get(key, 0) + 1
        if self._vcount[key] <= 2 and len(self._vcount) <= 2000:
            self.violations.append({"key": key, "what": what, "replay": replay})

    def tie_break(self, name, what, replay):
        what = what if len(what) <= 400 else what[:400] + "…"
        if len(self.tie_breaks) < 200:
            self.tie_breaks.append({"name": name, "what": what, "replay": replay})

    def lean_obligation(self, name, lean_source, what=""):
        """Kernel-check a generated Lean file (regenerated parameters `G`): ok iff it elaborates
        without error and without `sorry`."""
        path = os.path.join(self.scratch, "Gen_%s_%d.lean" % (self.prop, len(self.obligations)))
        with open(path, "w") as f:
            f.write(lean_source)
        rc, out = lean_run_file(path)
        ok = rc == 0 and "error" not in out and "sorry" not in out
        self.obligations.append({"name": name, "kind": "regenerated", "ok": ok,
                                 "what": what if ok else (what + " :: " + out[-600:])})
        return ok

    def obligation(self, name, ok, detail=""):
        self.obligations.append({"name": name, "kind": "regenerated", "ok": bool(ok), "what": detail})

    def elapsed(self):
        return time.time() - self._t0


# --------------------------------------------------------------------------
# evidence / verdict


def finish(ctx, audit, scan_hits, wall, build_log=""):
    known = load_known_findings()
    ev_dir = os.path.join(VERIF, "evidence")
    rp_dir = os.path.join(ev_dir, "replay")
    os.makedirs(rp_dir, exist_ok=True)
    # remove old replays of this property
    for fn in os.listdir(rp_dir):
        if fn.startswith(ctx.prop + "-"):
            os.unlink(os.path.join(rp_dir, fn))
    lines = []
    nrep = [0]

    def write_replay(obj):
        nrep[0] += 1
        rel = "evidence/replay/%s-%d.json" % (ctx.prop, nrep[0])
        obj = dict(obj)
        obj["property"] = ctx.prop
        obj["seed"] = ctx.seed
        obj["tier"] = ctx.tier
        obj["command"] = "./check %s --tier %s --replay %s" % (ctx.prop, ctx.tier, rel)
        with open(os.path.join(VERIF, rel), "w") as f:
            json.dump(obj, f, indent=1, default=repr)
        return rel

    unlisted = 0
    known_seen = []
    seen_keys = set()
    for v in ctx.violations:
        k = (ctx.prop, v["key"])
        if k in known:
            if k not in seen_keys:
                seen_keys.add(k)
                known_seen.append(v["key"])
                lines.append("KNOWN-FINDING: property=%s key=%s %s" % (ctx.prop, v["key"], v["what"]))
            continue
        if k in seen_keys:
            continue
        seen_keys.add(k)
        unlisted += 1
        rel = write_replay({"kind": "impl-violates", "key": v["key"], "what": v["what"], "case": v["replay"]})
        lines.append("VIOLATION property=%s replay=%s" % (ctx.prop, rel))

    obligations = list(audit) + list(ctx.obligations)
    if scan_hits:
        obligations.append({"name": "lean-source-scan", "kind": "scan", "ok": False, "what": "; ".join(scan_hits[:5])})
    else:
        obligations.append({"name": "lean-source-scan", "kind": "scan", "ok": True,
                            "what": "no sorry/admit/native_decide/bv_decide/implemented_by/unsafe/axiom in lean/"})
    failed = [o for o in obligations if not o["ok"]]
    broken = 0
    if unlisted == 0:
        # a broken proof obligation or correspondence with no concrete failing input
        # (known findings do not explain a broken tie: they agree with the model by construction)
        if failed:
            broken += 1
            rel = write_replay({"kind": "obligation-failed", "obligations": failed,
                                "note": "no concrete failing input was found by the search; the named theorems/obligations no longer check"})
            lines.append("VIOLATION property=%s replay=%s no-failing-input-found" % (ctx.prop, rel))
        elif ctx.tie_breaks:
            broken += 1
            rel = write_replay({"kind": "model-impl-disagree", "correspondence": ctx.tie_breaks[:20],
                                "note": "model and implementation disagree; the oracle search found no input on which the property itself fails"})
            lines.append("VIOLATION property=%s replay=%s no-failing-input-found" % (ctx.prop, rel))

    full = [o for o in audit if o.get("kind") == "full"]
    ev = {
        "property_id": ctx.prop,
        "tier": ctx.tier,
        "seed": ctx.seed,
        "level": "proof",
        "coverage": {
            "obligations": len(obligations),
            "discharged": len(obligations) - len(failed),
            "checker_cmd": "cd lean && lake build CyVerif && lake env lean <scratch>/Audit_%s.lean  (#print axioms on every theorem of lean/props.json[%s]); thorough: lake env leanchecker" % (ctx.prop, ctx.prop),
            "trusted_base": [
                "Lean 4.33.0 kernel; axioms allowed: propext, Classical.choice, Quot.sound (checked by #print axioms each run)",
                "hand-written Lean model of the anchored code (modelled, not verified); tied by the differential correspondence below",
                "harness generators/canonicalisation, compiled Lean driver cydrv (Lean code generator)",
                "CPython 3.12.1 and gcc 12.2 as reference semantics / C compiler",
            ] + ctx.extra_trusted,
            "theorems": [{k: o.get(k) for k in ("name", "kind", "ok", "axioms", "what", "error") if k in o} for o in obligations],
            "full_strength_proved": bool(full) and all(o["ok"] for o in full),
            "evaluations": ctx.evaluations,
            "distinct_nontrivial": len(ctx.distinct),
            "rule": ctx.rule,
            "samples": ctx.samples,
            "input_distribution": ctx.dist,
            "correspondence_disagreements": len(ctx.tie_breaks),
            "correspondence_disagreement_samples": [{"name": t["name"], "what": t["what"]} for t in ctx.tie_breaks[:5]],
            "known_findings_seen": known_seen,
            "explanation": ctx.explanation,
            "notes": ctx.notes,
        },
        "assumptions": ctx.assumptions,
        "wall_s": round(wall, 2),
        "violations": unlisted + broken,
    }
    with open(os.path.join(ev_dir, ctx.prop + ".json"), "w") as f:
        json.dump(ev, f, indent=1, default=repr)
    for l in lines:
        print(l)
    return 1 if (unlisted or broken) else 0

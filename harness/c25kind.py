"""C25 leg C — function KIND x adversarial MODULE COMPOSITION for the code-object bit fields.

Each generated module has exactly one function (of the kind under test: def, lambda, method, closure,
generator, coroutine, async generator, cpdef) whose counts of positional-only / positional / keyword-only
parameters are at a bit-width boundary (2,3,4,7,8,15,16,31,32), while every other function of the module
(one of each other kind) has a single parameter.  The widths of `__Pyx_PyCode_New_function_description`
in the generated C are therefore decided by that one function alone.
Three-way: compiled module (inspect.signature, __code__ fields) / CPython running the same source (spec-derived
for cpdef) / Lean model CyVerif.C25Bits (declared widths, pack/unpack of every count written into the C file).
"""
import json
import os
import re
import subprocess

import cybuild
import lib

KINDS = ['def', 'lambda', 'method', 'closure', 'generator', 'coroutine', 'asyncgen', 'cpdef']
BOUNDS = [2, 3, 4, 7, 8, 15, 16, 31, 32]

_DUMP = r'''
import importlib.util, inspect, json, sys
path, modname = sys.argv[1], sys.argv[2]
if path.endswith('.py'):
    import types
    m = types.ModuleType(modname)
    exec(compile(open(path).read(), path, 'exec'), m.__dict__)
else:
    spec = importlib.util.spec_from_file_location(modname, path)
    m = importlib.util.module_from_spec(spec)
    spec.loader.exec_module(m)
out = {}
for name, f in m.TARGETS().items():
    c = getattr(f, '__code__', None)
    try:
        sig = str(inspect.signature(f))
    except Exception as e:
        sig = 'error ' + type(e).__name__
    n = 0 if c is None else c.co_argcount + c.co_kwonlyargcount + bool(c.co_flags & 4) + bool(c.co_flags & 8)
    out[name] = {'sig': sig,
                 'code': None if c is None else [c.co_argcount, c.co_posonlyargcount, c.co_kwonlyargcount,
                                                 list(c.co_varnames[:n]), c.co_flags & 0x2AC]}
print(json.dumps(out))
'''


def params(npo, nno, nkw, first=None):
    ps = ([first] if first else []) + ['p%d' % i for i in range(npo)]
    s = ', '.join(ps)
    if npo:
        s += ', /'
    if nno:
        s += (', ' if s else '') + ', '.join('a%d' % i for i in range(nno))
    if nkw:
        s += (', ' if s else '') + '*, ' + ', '.join('k%d' % i for i in range(nkw))
    return s


def fn_source(kind, name, npo, nno, nkw):
    if kind == 'def':
        return "def %s(%s):\n    return 0\n" % (name, params(npo, nno, nkw))
    if kind == 'lambda':
        return "%s = lambda %s: 0\n" % (name, params(npo, nno, nkw))
    if kind == 'method':
        return "class K_%s:\n    def m(%s):\n        return 0\n%s = K_%s.m\n" % (name, params(npo, nno, nkw, 'self'), name, name)
    if kind == 'closure':
        return "def outer_%s(z=1):\n    def inner(%s):\n        return z\n    return inner\n%s = outer_%s()\n" % (
            name, params(npo, nno, nkw), name, name)
    if kind == 'generator':
        return "def %s(%s):\n    yield 0\n" % (name, params(npo, nno, nkw))
    if kind == 'coroutine':
        return "async def %s(%s):\n    return 0\n" % (name, params(npo, nno, nkw))
    if kind == 'asyncgen':
        return "async def %s(%s):\n    yield 0\n" % (name, params(npo, nno, nkw))
    if kind == 'cpdef':
        return "cpdef %s(%s):\n    return 0\n" % (name, ', '.join('a%d' % i for i in range(npo + nno)))
    raise ValueError(kind)


def expected(kind, npo, nno, nkw):
    """spec-derived oracle (used for cpdef, which CPython cannot run)"""
    names = ['a%d' % i for i in range(npo + nno)]
    return {'sig': '(' + ', '.join(names) + ')', 'code': [npo + nno, 0, 0, names, 0]}


def make_module(kind, n, dims):
    """(source, ext, counts of every code object per field) ; `dims` subset of {'po','no','kw'} put at the boundary n"""
    pyx = kind == 'cpdef'
    others = [k for k in KINDS if k != kind and (pyx or k != 'cpdef')]
    src = []
    targets = []
    for k in others:
        nm = 'small_' + k
        src.append(fn_source(k, nm, 0, 0 if k == 'method' else 1, 0))   # every small function has exactly one positional parameter
        targets.append(nm)
    npo = n if 'po' in dims and kind != 'cpdef' else 0
    nno = n if 'no' in dims or kind == 'cpdef' else 0
    nkw = n if 'kw' in dims and kind != 'cpdef' else 0
    src.append(fn_source(kind, 'big', npo, nno, nkw))
    targets.append('big')
    src.append("def TARGETS():\n    return {%s}\n" % ', '.join("'%s': %s" % (t, t) for t in targets))
    return '\n'.join(src), ('.pyx' if pyx else '.py'), (npo, nno, nkw)


def parse_c(cfile):
    """declared widths and every descr initialiser of the generated C file"""
    txt = open(cfile, encoding='utf-8', errors='replace').read()
    m = re.search(r"typedef struct \{\s*unsigned int argcount : (\d+);\s*unsigned int num_posonly_args : (\d+);\s*"
                  r"unsigned int num_kwonly_args : (\d+);", txt)
    if not m:
        return None, []
    widths = tuple(int(x) for x in m.groups())
    descrs = [tuple(int(x) for x in d) for d in
              re.findall(r"const __Pyx_PyCode_New_function_description descr = \{(\d+), (\d+), (\d+),", txt)]
    return widths, descrs


def observe(ctx, path, modname):
    sp = os.path.join(ctx.scratch, "c25kind_dump.py")
    if not os.path.exists(sp):
        with open(sp, "w") as f:
            f.write(_DUMP)
    p = subprocess.run([lib.PYTHON, sp, path, modname], stdout=subprocess.PIPE, stderr=subprocess.PIPE, text=True,
                       env=lib._clean_env({"PYTHONPATH": ctx.stage}), timeout=300)
    if p.returncode != 0:
        return None, p.stderr[-300:]
    return json.loads(p.stdout), ''


def run_kinds(ctx):
    rng = ctx.rng
    plan = []
    rp = getattr(ctx, 'replay_case', None)
    if rp and rp.get('case', {}).get('kind_module'):
        k = rp['case']['kind_module']
        plan.append((k['kind'], k['n'], tuple(k['dims'])))
    elif ctx.quick:
        for kind in KINDS:      # one module per kind; the boundary and the dimension set vary with the seed
            plan.append((kind, rng.choice(BOUNDS), tuple(rng.choice([('po', 'no', 'kw'), ('po',), ('no',), ('kw',), ('po', 'kw')]))))
    else:
        for kind in KINDS:
            for n in BOUNDS:
                plan.append((kind, n, ('po', 'no', 'kw')))
            for dims in (('po',), ('no',), ('kw',)):
                plan.append((kind, rng.choice(BOUNDS), dims))
    specs, metas = [], []
    for i, (kind, n, dims) in enumerate(plan):
        src, ext, counts = make_module(kind, n, dims)
        name = 'c25k%d' % i
        specs.append(dict(name=name, source=src, ext=ext, directives={'binding': True}))
        metas.append((kind, n, dims, src, ext, counts, name))
    built = cybuild.build_many(ctx, specs)
    lines, owners = [], []
    for (kind, n, dims, src, ext, counts, name), so in zip(metas, built):
        case = {'kind_module': {'kind': kind, 'n': n, 'dims': list(dims)}, 'source': src[:1500]}
        tag = '%s/n=%d/%s' % (kind, n, '+'.join(dims))
        ctx.count('kind/' + kind)
        ctx.seen(('kindmod', kind, n, dims), nontrivial=True)
        if isinstance(so, cybuild.BuildError):
            ctx.violation('kind-build-fails-' + kind, ('module with the largest counts on a %s does not build: %s' % (tag, so.log[-150:]))[:300], case)
            continue
        # --- G/V: the generated C: declared widths vs the counts written into it
        widths, descrs = parse_c(os.path.join(os.path.dirname(so), name + '.c'))
        if widths is None or not descrs:
            ctx.tie_break('bit-field struct of the generated C', 'declaration or descr initialisers not found (%s)' % tag, case)
        else:
            fits = all(d[j] < 2 ** widths[j] for d in descrs for j in range(3))
            ctx.obligation('every code-object count fits its declared bit field (%s)' % tag, fits,
                           'widths %r, counts %r' % (widths, descrs[:12]))
            for j, fld in enumerate(('argcount', 'num_posonly_args', 'num_kwonly_args')):
                col = [d[j] for d in descrs]
                lines.append('C25Bits width %s' % ','.join(map(str, col)))
                owners.append(('width', tag, fld, widths[j], col, case))
                for c in sorted(set(col)):
                    lines.append('C25Bits pack %d %d' % (widths[j], c))
                    owners.append(('pack', tag, fld, widths[j], c, case))
        # --- D-c: compiled vs CPython
        got, err = observe(ctx, so, name)
        if ext == '.py':
            srcp = os.path.join(os.path.dirname(so), name + '.py')
            want, werr = observe(ctx, srcp, name)
            if want is None:
                raise lib.Infra('oracle run failed: ' + werr)
        else:
            want = {'big': expected(kind, *counts)}
        if got is None:
            ctx.violation('kind-import-fails-' + kind, ('compiled module (%s) does not import: %s' % (tag, err[-160:]))[:300], case)
            continue
        for fname, w in want.items():
            g = got.get(fname)
            ctx.sample({'module': tag, 'function': fname, 'impl': str(g)[:160], 'oracle': str(w)[:160]})
            if g is None or g['sig'] != w['sig']:
                ctx.violation('kind-signature-' + (kind if fname == 'big' else 'other'),
                              ('%s: inspect.signature(%s) impl=%s oracle=%s' % (tag, fname, g and g['sig'][:90], w['sig'][:90]))[:300], case)
            elif g['code'] is not None and w['code'] is not None and g['code'] != w['code']:
                ctx.violation('kind-code-fields-' + (kind if fname == 'big' else 'other'),
                              ('%s: %s.__code__ (argcount, posonly, kwonly, varnames, flags) impl=%s oracle=%s'
                               % (tag, fname, str(g['code'])[:100], str(w['code'])[:100]))[:300], case)
    outs = ctx.drv.batch(lines) if lines else []
    for (what, tag, fld, w, c, case), o in zip(owners, outs):
        if what == 'width':
            oracle = max([1] + c).bit_length()
            if 'ok %d' % w != 'ok %d' % oracle:
                ctx.violation('codeobj-bitfield-width', ('%s: field %s declared %d bits, counts %r need %d' % (tag, fld, w, c[:10], oracle))[:300], case)
            if o != 'ok %d' % w:
                ctx.tie_break('generated C bit-field width vs CyVerif.C25Bits.widthOf', '%s %s: C %d model %s' % (tag, fld, w, o), case)
        else:
            if o != 'ok %d' % c:
                # the model says the C field cannot hold this count: the compiled code object is wrong
                ctx.violation('codeobj-bitfield-truncates', ('%s: %s=%d is stored in a %d-bit field as %s' % (tag, fld, c, w, o[3:]))[:300], case)

"""C16 — typed memoryview indexing and slicing match buffer semantics.

Three-way on every case:
  implementation  compiled modules (staged compiler + gcc) taking `int[:]`, `int[:, :]`, `int[:, :, :]`,
                  `int[::1]` … memoryviews of NumPy arrays (contiguous, strided, reversed, transposed):
                    rt   Python-level `mv[index]` on the Cython memoryview object
                         (memoryview.__getitem__ -> _unellipsify -> memview_slice -> slice_memviewslice / pybuffer_index)
                    dyn  compiled `a[s:e:t, …]` with run-time Py_ssize_t bounds
                         (generate_buffer_slice_code -> ToughSlice / SliceIndex / SimpleSlice templates)
                    ct   generated functions with constant index expressions (same generator path, constant folding)
  model           Lean `CyVerif.C16.getitem` / `ctGetitem` (driver), given shape/strides/items, returns
                  shape/strides/suboffsets/data-offset or an exception name; the element list is derived
                  from the offsets by the harness
  oracle          NumPy basic indexing (shape, strides, tolist()); builtin `memoryview` for 1-D and for the
                  cases NumPy treats differently on purpose (None at run time)
plus the reference model itself (`PySlice`, `specGetitem`) against CPython / NumPy.
"""
import ast
import itertools
import json
import re

import numpy as np

import cybuild
import lib

HUGE = 2 ** 63 - 1
NHUGE = -2 ** 63
BEYOND = 10 ** 30

# ----------------------------------------------------------------------------------------------
# items:  ('i', n) | ('s', a, b, c) | ('E',) | ('N',) | ('X',)


def tok(it):
    k = it[0]
    if k == 'i':
        return "i%d" % it[1]
    if k == 's':
        return "s" + ":".join("_" if v is None else str(v) for v in it[1:])
    return k


def src(it):
    k = it[0]
    if k == 'i':
        return str(it[1])
    if k == 's':
        return "S(%s,%s,%s)" % it[1:]
    return {'E': 'E', 'N': 'None', 'X': '1.5'}[k]


def pyobj(it):
    k = it[0]
    if k == 'i':
        return it[1]
    if k == 's':
        return slice(*it[1:])
    return {'E': Ellipsis, 'N': None, 'X': 1.5}[k]


def index_src(kind, items):
    if kind == 'O':
        return src(items[0])
    return "(" + "".join(src(i) + "," for i in items) + ")"


def index_obj(kind, items):
    return pyobj(items[0]) if kind == 'O' else tuple(pyobj(i) for i in items)


def pyx_expr(items):
    """source of the subscript in a .pyx file"""
    out = []
    for it in items:
        if it[0] == 'i':
            out.append(str(it[1]))
        elif it[0] == 's':
            a, b, c = it[1:]
            s = ("" if a is None else str(a)) + ":" + ("" if b is None else str(b))
            if c is not None:
                s += ":" + str(c)
            out.append(s)
        elif it[0] == 'E':
            out.append("...")
        elif it[0] == 'N':
            out.append("None")
    return ", ".join(out)


# ----------------------------------------------------------------------------------------------
# arrays: spec = (base_shape, view_source) ; a = arange(prod).reshape(base_shape)<view_source>


LAYOUTS = ('C', 'S', 'R', 'T', 'M')


def make_spec(shape, layout, rng=None):
    nd = len(shape)
    if layout == 'C':
        return (tuple(shape), "")
    if layout == 'S':     # every dimension strided (step 2, offset 1)
        return (tuple(2 * n + 1 for n in shape), "[" + ",".join("1:%d:2" % (1 + 2 * n) for n in shape) + "]")
    if layout == 'R':     # every dimension reversed
        return (tuple(shape), "[" + ",".join("::-1" for _ in shape) + "]")
    if layout == 'T':     # transposed (Fortran order)
        return (tuple(reversed(shape)), ".T")
    # mixed, seeded
    base, ix = [], []
    for n in shape:
        c = rng.choice(('f', 's', 'r', 'o', 'q'))
        if c == 'f':
            base.append(n); ix.append(":")
        elif c == 's':
            base.append(2 * n + 1); ix.append("1:%d:2" % (1 + 2 * n))
        elif c == 'r':
            base.append(n); ix.append("::-1")
        elif c == 'o':
            base.append(n + 3); ix.append("2:%d" % (2 + n))
        else:
            base.append(3 * n + 2); ix.append("%d::-3" % (3 * n - 1) if n else "0:0:-3")
    return (tuple(base), "[" + ",".join(ix) + "]")


def build(spec):
    base_shape, view = spec
    n = 1
    for s in base_shape:
        n *= s
    base = np.arange(n, dtype=np.intc).reshape(base_shape)
    a = eval("base" + view, {"base": base})
    off0 = a.__array_interface__['data'][0] - base.__array_interface__['data'][0] if a.size else 0
    return base, a, off0


def spec_src(spec):
    return "(%r, %r)" % (spec[0], spec[1])


# ----------------------------------------------------------------------------------------------
# outcomes (canonical python values):  ('v', shape, strides, nested) | ('s', value) | ('err', name) | ('ub', kind) ...


def nested(flat, nbytes, shape, strides, off):
    def rec(d, o):
        if d == len(shape):
            if 0 <= o < nbytes and o % 4 == 0:
                return int(flat[o // 4])
            return "oob%d" % o
        return [rec(d + 1, o + k * strides[d]) for k in range(shape[d])]
    return rec(0, off)


def model_outcome(line, base, a, off0, dims=None):
    """turn a driver output line into a canonical outcome using the base buffer"""
    flat = base.reshape(-1)
    if a.size == 0:
        base = a            # an element read from an empty view is outside the view: nbytes = 0 makes every element `oob`
    parts = line.split(" ")
    if parts[0] == "err":
        return ('err', parts[1])
    if parts[0] == "ub":
        return ('ub', parts[1])
    if parts[0] != "ok":
        return ('bad', line)
    if parts[1] == "self":
        shp, strd = dims if dims is not None else (a.shape, a.strides)
        return ('v', tuple(shp), tuple(strd), nested(flat, base.nbytes, shp, strd, off0))
    if parts[1] == "scalar":
        p = json.loads(parts[2])
        if len(p) != 1:
            return ('bad', line)
        o = off0 + p[0]
        return ('s', int(flat[o // 4]) if 0 <= o < base.nbytes and o % 4 == 0 else "oob%d" % o)
    shape, strides, subs, data = (json.loads(x) for x in parts[2:6])
    if len(data) != 1:
        return ('bad', line)
    return ('v', tuple(shape), tuple(strides), nested(flat, base.nbytes, shape, strides, off0 + data[0]))


def spec_outcome(line, base, a, off0, scalar_if_0d=True):
    flat = base.reshape(-1)
    parts = line.split(" ")
    if parts[0] == "err":
        return ('err', parts[1])
    if parts[0] != "ok":
        return ('bad', line)
    shape, strides = json.loads(parts[2]), json.loads(parts[3])
    off = int(parts[4])
    return ('v', tuple(shape), tuple(strides), nested(flat, base.nbytes, shape, strides, off0 + off))


def numpy_outcome(a, ix):
    try:
        r = a[ix]
    except Exception as e:
        return ('err', type(e).__name__)
    if isinstance(r, np.ndarray):
        return ('v', tuple(r.shape), tuple(r.strides), r.tolist())
    return ('s', int(r))


def pymv_outcome(a, ix):
    try:
        r = memoryview(a)[ix]
    except Exception as e:
        return ('err', type(e).__name__)
    if isinstance(r, memoryview):
        return ('v', tuple(r.shape), tuple(r.strides), r.tolist())
    return ('s', int(r))


def impl_outcome(x):
    """decode what the child returned for one case"""
    if isinstance(x, str):
        return ('err', x[4:]) if x.startswith("err ") else ('bad', x)
    if x[0] == 's':
        return ('s', x[1])
    if len(x) > 4 and any(o >= 0 for o in x[4]):
        return ('v', tuple(x[1]), tuple(x[2]), x[3], tuple(x[4]))
    return ('v', tuple(x[1]), tuple(x[2]), x[3])


def same_vals(m, i):
    """model element list vs implementation element list; an element the model places outside the base buffer
    (`oob…`) is an out-of-bounds read in the implementation: any value matches"""
    if isinstance(m, str) and m.startswith("oob"):
        return isinstance(i, int)
    if isinstance(m, list):
        return isinstance(i, list) and len(m) == len(i) and all(same_vals(p, q) for p, q in zip(m, i))
    return m == i


def same_model(m, i):
    if m[0] == 'v' and i[0] == 'v':
        return m[1] == i[1] and m[2] == i[2] and same_vals(m[3], i[3])
    if m[0] == 's' and i[0] == 's':
        return same_vals(m[1], i[1])
    return same(m, i)


def same(x, y, oracle_numpy=False):
    """outcome equality; a 0-d view is a scalar.  Against NumPy the strides are compared on dimensions of extent > 1 of
    non-empty results only: NumPy resets the step of an empty slice to 1 and exports normalised strides for arrays
    that are trivially contiguous (size 0, extent 1), so those strides carry no information."""
    if x[0] == 'v' and y[0] == 's' and x[1] == ():
        return x[3] == y[1]
    if x[0] == 's' and y[0] == 'v' and y[1] == ():
        return y[3] == x[1]
    if x[0] != y[0]:
        return False
    if x[0] != 'v':
        return x == y
    if x[1] != y[1] or x[3] != y[3]:
        return False
    if oracle_numpy:
        if any(n == 0 for n in x[1]):
            return True
        return all(s == t or n <= 1 for s, t, n in zip(x[2], y[2], x[1]))
    return x[2] == y[2]


# ----------------------------------------------------------------------------------------------
# classes of inputs with a known deviation (keys of known_findings.txt); computed from the input only


def c_clamps(variant, n, s, e, st):
    """transliteration of the bounds part of __pyx_memoryview_slice_memviewslice (for classification only)"""
    variant = variant.split("+")[0]
    neg_fix = variant in ("neg", "fix")
    step = 1 if st is None else st
    neg = st is not None and st < 0
    if s is not None:
        if s < 0:
            s += n
            if s < 0:
                s = -1 if (neg and neg_fix) else 0
        elif s >= n:
            s = n - 1 if neg else n
    else:
        s = n - 1 if neg else 0
    if e is not None:
        if e < 0:
            e += n
            if e < 0:
                e = -1 if (neg and neg_fix) else 0
        elif e > n:
            e = n
    else:
        e = -1 if neg else n
    return s, e, step


def item_classes(variant, n, it):
    variant = variant.split("+")[0]
    out = []
    if it[0] == 's':
        s, e, st = it[1:]
        if any(v is not None and not (NHUGE <= v <= HUGE) for v in (s, e, st)):
            return ["bound-exceeds-ssize_t"]
        if st == 0:
            return []
        if st is not None and st < 0 and variant in ("cur", "ceil"):
            if s is not None and s < -n:
                out.append("neg-step-start-below-minus-len")
            if e is not None and e < -n:
                out.append("neg-step-stop-below-minus-len")
        if variant in ("cur", "neg"):
            cs, ce, step = c_clamps(variant, n, s, e, st)
            d = ce - cs
            if d != 0 and (d < 0) != (step < 0) and abs(d) < abs(step):
                out.append("ceil-empty-slice-yields-one")
    elif it[0] == 'i':
        if not (NHUGE <= it[1] <= HUGE):
            out.append("index-exceeds-ssize_t")
    return out


def case_class(variant, path, shape, kind, items):
    """first known-deviation class of a case, or None"""
    nd = len(shape)
    consuming = [it for it in items if it[0] in 'isX']
    nell = sum(1 for it in items if it[0] == 'E')
    if path == 'rt':
        if any(it[0] == 'X' for it in items):
            return "rt-bad-index-type"        # TypeError like builtin memoryview (NumPy: IndexError)
        if any(it[0] == 'N' for it in items):
            return "rt-none"                  # not supported at run time, TypeError like builtin memoryview
        if nell > 1:
            return "rt-multiple-ellipsis"
        if len(consuming) > nd:
            return "rt-too-many-indices"
    else:
        if nell > 1:
            return "ct-multiple-ellipsis"
    # align consuming items with dimensions (single ellipsis / trailing fill)
    dims = list(shape)
    if nell:
        p = next(i for i, it in enumerate(items) if it[0] == 'E')
        pre = [it for it in items[:p] if it[0] in 'is']
        post = [it for it in items[p + 1:] if it[0] in 'is']
        pairs = list(zip(dims, pre)) + list(zip(dims[len(dims) - len(post):], post))
    else:
        pairs = list(zip(dims, [it for it in items if it[0] in 'is']))
    for n, it in pairs:
        cl = item_classes(variant, n, it)
        if cl:
            return cl[0]
    return None


# ----------------------------------------------------------------------------------------------
# the compiled harness modules


RT_MODULE = '''
cimport cython
from cython cimport view
from libc.stdlib cimport malloc, free
import json
import numpy as np

def _verif_env():
    return {"S": slice, "E": Ellipsis, "np": np}

def _mk(spec):
    n = 1
    for s in spec[0]:
        n *= s
    base = np.arange(n, dtype=np.intc).reshape(spec[0])
    return eval("base" + spec[1], {"base": base})

def _canon(r):
    if isinstance(r, int):
        return ["s", r]
    cdef object v = memoryview(r)    # untyped on purpose: tolist() of a 0-d view is a scalar
    return ["v", list(v.shape), list(v.strides), v.tolist(), list(v.suboffsets)]

def obj1(int[:] a):
    return a
def obj2(int[:, :] a):
    return a
def obj3(int[:, :, :] a):
    return a
def objc1(int[::1] a):
    return a
def objc2(int[:, ::1] a):
    return a
def objf2(int[::1, :] a):
    return a

def objm(a):
    """a plain Cython `memoryview` object (not a _memoryviewslice): memview_slice takes the slice_copy branch"""
    return view.memoryview(a, 0x1C, False)

cdef class Rows:
    """PIL-style 2-D buffer: a table of row pointers (dimension 0 indirect, suboffset 0), rows of C ints"""
    cdef int **rows
    cdef int *block
    cdef Py_ssize_t n, m
    cdef Py_ssize_t shape[2]
    cdef Py_ssize_t strides[2]
    cdef Py_ssize_t suboffsets[2]
    def __cinit__(self, Py_ssize_t n, Py_ssize_t m):
        cdef Py_ssize_t i
        self.n = n; self.m = m
        self.block = <int*>malloc((n*m+1)*sizeof(int))
        self.rows = <int**>malloc((n+1)*sizeof(int*))
        for i in range(n*m): self.block[i] = i
        for i in range(n): self.rows[i] = self.block + i*m
    def __dealloc__(self):
        free(self.block); free(self.rows)
    def __getbuffer__(self, Py_buffer *buf, int flags):
        self.shape[0] = self.n; self.shape[1] = self.m
        self.strides[0] = sizeof(int*); self.strides[1] = sizeof(int)
        self.suboffsets[0] = 0; self.suboffsets[1] = -1
        buf.buf = <char*>self.rows; buf.obj = self; buf.len = self.n*self.m*sizeof(int)
        buf.itemsize = sizeof(int); buf.readonly = 0; buf.ndim = 2; buf.format = "i"
        buf.shape = self.shape; buf.strides = self.strides; buf.suboffsets = self.suboffsets; buf.internal = NULL
    def __releasebuffer__(self, Py_buffer *buf):
        pass

def objind(Rows r):
    cdef int[::view.indirect, :] v = r
    return v

def ind_batch(n, m, idxs):
    mv = objind(Rows(n, m))
    out = [_canon(mv)]
    for ix in idxs:
        try:
            out.append(_canon(mv[ix]))
        except Exception as e:
            out.append("err " + type(e).__name__)
    return json.dumps(out)

def rt_batch(spec, how, idxs):
    a = _mk(spec)
    mv = globals()[how](a)
    out = [_canon(mv)]
    for ix in idxs:
        try:
            out.append(_canon(mv[ix]))
        except Exception as e:
            out.append("err " + type(e).__name__)
    return json.dumps(out)

def rt_sub(spec, how, first, idxs):
    """slice of a slice: the second operation starts from a _memoryviewslice with offsets/strides of its own"""
    a = _mk(spec)
    mv = globals()[how](a)[first]
    out = [_canon(mv)]
    for ix in idxs:
        try:
            out.append(_canon(mv[ix]))
        except Exception as e:
            out.append("err " + type(e).__name__)
    return json.dumps(out)

def dyn_batch(spec, fname, vname, argl):
    a = _mk(spec)
    f = globals()[fname]
    out = [_canon(globals()[vname](a))]
    for args in argl:
        try:
            out.append(_canon(f(a, *args)))
        except Exception as e:
            out.append("err " + type(e).__name__)
    return json.dumps(out)
'''

# dyn functions.  params: one letter per Py_ssize_t parameter (C name `v<letter>`); expr uses `$<letter>`.

DYN = []


def _nd(ty):
    return ty.count(",") + 1


def _dyn(name, ty, params, expr, build_items, deco="", wrap=1, bounds=1, obj=False):
    DYN.append({"name": name, "ty": ty, "params": params, "expr": re.sub(r"\$(\w)", r"v\1", expr), "items": build_items,
                "deco": deco, "nd": _nd(ty), "wrap": wrap, "bounds": bounds, "obj": obj})


def _S(a, b, c):
    return ('s', a, b, c)


for _ty, _pre in (("int[:]", "d"), ("int[::1]", "c")):
    _dyn(_pre + "111", _ty, "set", "a[$s:$e:$t]", lambda s, e, t: [_S(s, e, t)])
    _dyn(_pre + "110", _ty, "se", "a[$s:$e]", lambda s, e: [_S(s, e, None)])
    _dyn(_pre + "101", _ty, "st", "a[$s::$t]", lambda s, t: [_S(s, None, t)])
    _dyn(_pre + "011", _ty, "et", "a[:$e:$t]", lambda e, t: [_S(None, e, t)])
    _dyn(_pre + "100", _ty, "s", "a[$s:]", lambda s: [_S(s, None, None)])
    _dyn(_pre + "010", _ty, "e", "a[:$e]", lambda e: [_S(None, e, None)])
    _dyn(_pre + "001", _ty, "t", "a[::$t]", lambda t: [_S(None, None, t)])
    _dyn(_pre + "000", _ty, "", "a[:]", lambda: [_S(None, None, None)])
    _dyn(_pre + "elem", _ty, "i", "a[$i]", lambda i: [('i', i)])
_dyn("dobj", "int[:]", "set", "a[$s:$e:$t]", lambda s, e, t: [_S(s, e, t)], obj=True)
_dyn("delemw", "int[:]", "i", "a[$i]", lambda i: [('i', i)], deco="@cython.wraparound(False)\n", wrap=0)
_dyn("delemb", "int[:]", "i", "a[$i]", lambda i: [('i', i)], deco="@cython.boundscheck(False)\n", bounds=0)
# 2-D
_dyn("e2ss", "int[:, :]", "abcdef", "a[$a:$b:$c, $d:$e:$f]", lambda a, b, c, d, e, f: [_S(a, b, c), _S(d, e, f)])
_dyn("e2is", "int[:, :]", "iset", "a[$i, $s:$e:$t]", lambda i, s, e, t: [('i', i), _S(s, e, t)])
_dyn("e2si", "int[:, :]", "seti", "a[$s:$e:$t, $i]", lambda s, e, t, i: [_S(s, e, t), ('i', i)])
_dyn("e2s", "int[:, :]", "set", "a[$s:$e:$t]", lambda s, e, t: [_S(s, e, t)])
_dyn("e2i", "int[:, :]", "i", "a[$i]", lambda i: [('i', i)])
_dyn("e2ei", "int[:, :]", "i", "a[..., $i]", lambda i: [('E',), ('i', i)])
_dyn("e2ii", "int[:, :]", "ij", "a[$i, $j]", lambda i, j: [('i', i), ('i', j)])
_dyn("e2nsi", "int[:, :]", "seti", "a[None, $s:$e:$t, $i]", lambda s, e, t, i: [('N',), _S(s, e, t), ('i', i)])
_dyn("e2sn", "int[:, :]", "set", "a[$s:$e:$t, None]", lambda s, e, t: [_S(s, e, t), ('N',)])
_dyn("e2isw", "int[:, :]", "iset", "a[$i, $s:$e:$t]", lambda i, s, e, t: [('i', i), _S(s, e, t)],
     deco="@cython.wraparound(False)\n", wrap=0)
_dyn("e2isb", "int[:, :]", "iset", "a[$i, $s:$e:$t]", lambda i, s, e, t: [('i', i), _S(s, e, t)],
     deco="@cython.boundscheck(False)\n", bounds=0)
_dyn("e2iiw", "int[:, :]", "ij", "a[$i, $j]", lambda i, j: [('i', i), ('i', j)], deco="@cython.wraparound(False)\n", wrap=0)
_dyn("c2ss", "int[:, ::1]", "abcdef", "a[$a:$b:$c, $d:$e:$f]", lambda a, b, c, d, e, f: [_S(a, b, c), _S(d, e, f)])
_dyn("f2is", "int[::1, :]", "iset", "a[$i, $s:$e:$t]", lambda i, s, e, t: [('i', i), _S(s, e, t)])
# 3-D
_dyn("e3sss", "int[:, :, :]", "abcdefghk", "a[$a:$b:$c, $d:$e:$f, $g:$h:$k]",
     lambda a, b, c, d, e, f, g, h, k: [_S(a, b, c), _S(d, e, f), _S(g, h, k)])
_dyn("e3isj", "int[:, :, :]", "isetj", "a[$i, $s:$e:$t, $j]", lambda i, s, e, t, j: [('i', i), _S(s, e, t), ('i', j)])
_dyn("e3es", "int[:, :, :]", "set", "a[..., $s:$e:$t]", lambda s, e, t: [('E',), _S(s, e, t)])
_dyn("e3ie", "int[:, :, :]", "i", "a[$i, ...]", lambda i: [('i', i), ('E',)])
_dyn("e3sei", "int[:, :, :]", "seti", "a[$s:$e:$t, ..., $i]", lambda s, e, t, i: [_S(s, e, t), ('E',), ('i', i)])
_dyn("e3iii", "int[:, :, :]", "ijk", "a[$i, $j, $k]", lambda i, j, k: [('i', i), ('i', j), ('i', k)])
_dyn("e3sis", "int[:, :, :]", "abcidef", "a[$a:$b:$c, $i, $d:$e:$f]",
     lambda a, b, c, i, d, e, f: [_S(a, b, c), ('i', i), _S(d, e, f)])
_dyn("e3ins", "int[:, :, :]", "iset", "a[$i, None, $s:$e:$t]", lambda i, s, e, t: [('i', i), ('N',), _S(s, e, t)])


def dyn_source():
    out = []
    for d in DYN:
        sig = "".join((", v%s" if d["obj"] else ", Py_ssize_t v%s") % p for p in d["params"])
        out.append("%sdef %s(%s a%s):\n    return %s\n" % (d["deco"], d["name"], d["ty"], sig, d["expr"]))
    return "\n".join(out)


DYN_BY_NAME = {d["name"]: d for d in DYN}


# ----------------------------------------------------------------------------------------------
# generators


def bound_values(n, with_huge=True):
    v = list(range(-2 * n - 2, 2 * n + 3)) + [None]
    if with_huge:
        v += [HUGE, NHUGE]
    return v


STEPS = [-3, -2, -1, 1, 2, 3, None, 0]


def rand_bound(rng, n, huge=True):
    r = rng.random()
    if r < 0.14:
        return None
    if huge and r < 0.20:
        return rng.choice((HUGE, NHUGE, HUGE - 1, NHUGE + 1))
    return rng.randint(-2 * n - 2, 2 * n + 2)


def rand_step(rng, zero=0.03):
    r = rng.random()
    if r < zero:
        return 0
    if r < 0.2:
        return None
    return rng.choice((-3, -2, -1, 1, 2, 3))


def rand_slice(rng, n, huge=True, zero=0.03):
    return ('s', rand_bound(rng, n, huge), rand_bound(rng, n, huge), rand_step(rng, zero))


def rand_index(rng, n, out_of_range=0.12):
    if rng.random() < out_of_range or n == 0:
        return ('i', rng.choice((n, n + 1, -n - 1, -n - 2, 2 * n + 1, -2 * n - 1)))
    return ('i', rng.randint(-n, n - 1))


def rand_items(rng, shape, path):
    """one index expression for an array of this shape (single ellipsis, count <= ndim; None only for ct)"""
    nd = len(shape)
    k = rng.randint(0 if path == 'ct' else 1, nd) if nd > 1 else 1
    use_ell = rng.random() < 0.3
    pos = rng.randint(0, k) if use_ell else None
    items = []
    dimi = 0
    pre = k if pos is None else pos
    dims_for = list(range(pre)) + list(range(nd - (k - pre), nd))
    for j in range(k):
        n = shape[dims_for[j]]
        if rng.random() < 0.35:
            items.append(rand_index(rng, n))
        else:
            items.append(rand_slice(rng, n))
    if use_ell:
        items.insert(pos, ('E',))
    if path == 'ct':
        for _ in range(rng.choice((0, 0, 0, 1, 1, 2))):
            items.insert(rng.randint(0, len(items)), ('N',))
    if not items:
        items = [('E',)]
    if path == 'ct' and zero_dim_ellipsis(items, nd):
        items = [it for it in items if it[0] != 'E']      # see CRASH_WITNESS
    return items


def zero_dim_ellipsis(items, nd):
    """`a[..., i, j]` with every dimension indexed and no None: the compiler crashes (finding ct-ellipsis-0d-compiler-crash)"""
    return any(it[0] == 'E' for it in items) and not any(it[0] in 'sN' for it in items) and sum(1 for it in items if it[0] == 'i') == nd


# ----------------------------------------------------------------------------------------------


class Runner:
    def __init__(self, ctx):
        self.ctx = ctx
        self.variant = "cur"
        self.rt_so = None
        self.tag = ""         # "-O2" for the optimised build
        self.nviol = 0

    # -- model / spec lines.  `dims` = (shape, strides) as the implementation sees the buffer
    def dims_tokens(self, dims):
        shape, strides = dims
        nd = len(shape)
        return [str(nd)] + [str(x) for x in shape] + [str(x) for x in strides] + ["-1"] * nd

    def rt_line(self, dims, kind, items, variant=None):
        return " ".join(["C16", "rt", variant or self.variant] + self.dims_tokens(dims) + [kind] + [tok(i) for i in items])

    def ct_line(self, dims, items, wrap=1, bounds=1, variant=None):
        return " ".join(["C16", "ct", variant or self.variant, str(wrap), str(bounds)] + self.dims_tokens(dims) + [tok(i) for i in items])

    def spec_line(self, dims, kind, items):
        return " ".join(["C16", "spec"] + self.dims_tokens(dims) + [kind] + [tok(i) for i in items])

    # -- evaluation of a group of cases that share one array
    def judge(self, path, spec, kind, items, impl, model_line, spec_line, base, a, off0, meta, dims=None):
        ctx = self.ctx
        shape = tuple(a.shape)
        ix = index_obj(kind, items)
        cls = case_class(self.variant, path, shape, kind, items)
        model = model_outcome(model_line, base, a, off0, dims)
        # oracle
        no_oracle = False
        if cls in ("rt-none", "rt-bad-index-type"):
            oracle = ('err', 'TypeError')      # builtin memoryview: "invalid slice key" / bad index type
            onp = False
        else:
            oracle = numpy_outcome(a, ix)
            onp = True
            if cls in ("rt-multiple-ellipsis", "ct-multiple-ellipsis"):
                no_oracle = True               # not an operation NumPy / memoryview define: model vs implementation only
            d = meta.get("directives")
            if d and d[0] == 0 and any(it[0] == 'i' and it[1] < 0 for it in items):
                no_oracle = True               # wraparound(False) with a negative index: outside the user's contract
        ctx.count("%s%s/%dd/%s" % (path, self.tag, a.ndim, cls or (oracle[0] if oracle[0] != 'err' else 'err-' + oracle[1])))
        nontrivial = oracle[0] != 'err' and (oracle[0] == 's' or all(n > 0 for n in oracle[1]))
        ctx.seen((path, self.tag, spec, kind, tuple(items), meta.get("fn")), nontrivial=nontrivial)
        replay = {"path": path, "spec": [list(spec[0]), spec[1]], "kind": kind, "items": [list(i) for i in items],
                  "meta": {k: v for k, v in meta.items() if k != "so"},
                  "impl": repr(impl), "model": model_line, "oracle": repr(oracle), "variant": self.variant}
        what = "%s%s %s[%s] shape=%s strides=%s" % (path, self.tag, meta.get("fn", "mv"), index_src(kind, items), shape, tuple(a.strides))
        # reference model vs oracle (proved domain: single ellipsis, not too many, no bad types)
        if spec_line is not None and onp and not no_oracle:
            sp = spec_outcome(spec_line, base, a, off0)
            if not same(sp, oracle, oracle_numpy=True):
                ctx.tie_break("PySpec specGetitem vs NumPy", what + ": spec %r numpy %r" % (sp, oracle), replay)
        ok_oracle = no_oracle or same(impl, oracle, oracle_numpy=onp)
        if ok_oracle and onp and not no_oracle and a.ndim == 1 and kind == 'O' and items[0][0] in 'is' and \
                all(v is None or NHUGE <= v <= HUGE for v in items[0][1:]):
            # second oracle for one dimension: builtin memoryview (keeps stride*step on empty results, like the C code)
            o2 = pymv_outcome(a, ix)
            if not same(impl, o2):
                ok_oracle = False
                oracle = o2
        ok_model = model[0] == 'ub' or same_model(model, impl)
        if not ok_oracle:
            if cls in ("bound-exceeds-ssize_t", "index-exceeds-ssize_t"):
                cls = ("rt-" if path == 'rt' else "compiled-") + cls
            key = cls if (cls and ok_model) else ((cls + ":unmodelled") if cls else "%s-%s" % (path, "slice" if any(i[0] == 's' for i in items) else "index"))
            ctx.violation(key, what + ": got %s, NumPy/memoryview %s" % (short(impl), short(oracle)), replay)
            self.nviol += 1
        if not ok_model:
            ctx.tie_break("D-c %s vs CyVerif.C16 (%s)" % (path, self.variant), what + ": model %s impl %s" % (short(model), short(impl)), replay)
        if len(ctx.samples) < 8 and nontrivial and ctx.rng.random() < 0.001:
            ctx.sample({"case": what, "impl": short(impl), "model": model_line, "oracle": short(oracle)})

    def run_rt_groups(self, groups, sub=False):
        """groups: list of (spec, how, first_or_None, [(kind, items)])"""
        ctx = self.ctx
        cases = []
        for spec, how, first, idxs in groups:
            src_list = "[" + ",".join(index_src(k, its) for k, its in idxs) + "]"
            if first is None:
                cases.append(("rt_batch", "(%s, %r, %s)" % (spec_src(spec), how, src_list)))
            else:
                cases.append(("rt_sub", "(%s, %r, %s, %s)" % (spec_src(spec), how, index_src(*first), src_list)))
        outs = cybuild.run_cases(ctx, self.rt_so, cases, timeout_per_case=120)
        lines = []
        prepared = []
        for (spec, how, first, idxs), out in zip(groups, outs):
            base, a, off0 = build(spec)
            if first is not None:
                a = a[index_obj(*first)]
                off0 = a.__array_interface__['data'][0] - base.__array_interface__['data'][0] if a.size else 0
            res = decode_batch(out, len(idxs) + 1)
            dims = view_dims(res, a)
            if first is not None and res is not None:
                # the starting view of a second-level operation must itself be right, else the group says nothing
                want = ('v', tuple(a.shape), tuple(a.strides), a.tolist())
                if not same(res[0], want, oracle_numpy=True):
                    ctx.violation("rt-slice", "rt %s[%s] on %s: got %s, NumPy %s" % (how, index_src(*first), spec_src(spec), short(res[0]), short(want)),
                                  {"path": "rt", "spec": [list(spec[0]), spec[1]], "kind": first[0], "items": [list(i) for i in first[1]],
                                   "meta": {"fn": how, "first": None}})
                    res = None
                    idxs = []
            prepared.append((base, a, off0, res, idxs, dims))
            for kind, items in idxs:
                lines.append(self.rt_line(dims, kind, items))
                lines.append(self.spec_line(dims, kind, items))
        mout = ctx.drv.batch(lines) if lines else []
        k = 0
        for (spec, how, first, _), out, (base, a, off0, res, idxs, dims) in zip(groups, outs, prepared):
            for j, (kind, items) in enumerate(idxs):
                meta = {"fn": how, "first": None if first is None else [first[0], [list(i) for i in first[1]]]}
                impl = res[j + 1] if res is not None else ('crash', out)
                self.judge('rt', spec, kind, items, impl, mout[k], mout[k + 1], base, a, off0, meta, dims)
                k += 2

    def run_dyn_groups(self, groups):
        """groups: list of (spec, fname, [args tuples])"""
        ctx = self.ctx
        cases = []
        for spec, fname, argl in groups:
            cases.append(("dyn_batch", "(%s, %r, %r, %r)" % (spec_src(spec), fname, RT_VIEW_FN[DYN_BY_NAME[fname]["ty"]], [tuple(x) for x in argl])))
        outs = cybuild.run_cases(ctx, self.rt_so, cases, timeout_per_case=120)
        lines = []
        prepared = []
        for (spec, fname, argl), out in zip(groups, outs):
            base, a, off0 = build(spec)
            res = decode_batch(out, len(argl) + 1)
            dims = view_dims(res, a)
            prepared.append((base, a, off0, res))
            d = DYN_BY_NAME[fname]
            for args in argl:
                items = d["items"](*args)
                lines.append(self.ct_line(dims, items, d["wrap"], d["bounds"]))
                lines.append(self.spec_line(dims, 'T', items))
        mout = ctx.drv.batch(lines) if lines else []
        k = 0
        for (spec, fname, argl), out, (base, a, off0, res) in zip(groups, outs, prepared):
            d = DYN_BY_NAME[fname]
            for j, args in enumerate(argl):
                items = d["items"](*args)
                impl = res[j + 1] if res is not None else ('crash', out)
                special = (d["wrap"], d["bounds"]) != (1, 1)
                self.judge('dyn', spec, 'T', items, impl, mout[k], None if special else mout[k + 1], base, a, off0,
                           {"fn": fname, "args": list(args), "directives": [d["wrap"], d["bounds"]]})
                k += 2


def view_dims(res, a):
    """(shape, strides) of the indexed buffer as the implementation reports it (first element of a batch result);
    falls back to the buffer protocol view of the NumPy array"""
    if res is not None and res[0][0] == 'v':
        return (res[0][1], res[0][2])
    mv = memoryview(a)
    return (tuple(mv.shape), tuple(mv.strides))


def decode_batch(out, n):
    if not out.startswith("ok str:"):
        return None
    try:
        lst = json.loads(ast.literal_eval(out[len("ok str:"):]))
    except Exception:
        return None
    if len(lst) != n:
        return None
    return [impl_outcome(x) for x in lst]


def short(o):
    s = repr(o)
    return s if len(s) < 160 else s[:157] + "..."


# ----------------------------------------------------------------------------------------------
# constant-index (compile-time) modules


CT_HEAD = '''
cimport cython
import json
import numpy as np

def _verif_env():
    return {"np": np}

def _mk(spec):
    n = 1
    for s in spec[0]:
        n *= s
    base = np.arange(n, dtype=np.intc).reshape(spec[0])
    return eval("base" + spec[1], {"base": base})

def _canon(r):
    if isinstance(r, int):
        return ["s", r]
    cdef object v = memoryview(r)    # untyped on purpose: tolist() of a 0-d view is a scalar
    return ["v", list(v.shape), list(v.strides), v.tolist(), list(v.suboffsets)]

def ct_batch(fname, vname, specs):
    f = globals()[fname]
    g = globals()[vname]
    out = []
    for spec in specs:
        a = _mk(spec)
        out.append(_canon(g(a)))
        try:
            out.append(_canon(f(a)))
        except Exception as e:
            out.append("err " + type(e).__name__)
    return json.dumps(out)

def objd1(int[:] a):
    return a
def objd2(int[:, :] a):
    return a
def objd3(int[:, :, :] a):
    return a
def objc1(int[::1] a):
    return a
def objc2(int[:, ::1] a):
    return a
def objc3(int[:, :, ::1] a):
    return a
'''

VIEW_FN = {"int[:]": "objd1", "int[:, :]": "objd2", "int[:, :, :]": "objd3", "int[::1]": "objc1", "int[:, ::1]": "objc2",
           "int[:, :, ::1]": "objc3", "int[::1, :]": "objf2"}
RT_VIEW_FN = dict(VIEW_FN, **{"int[:]": "obj1", "int[:, :]": "obj2", "int[:, :, :]": "obj3"})

CT_TYPES = {1: ["int[:]", "int[::1]"], 2: ["int[:, :]", "int[:, ::1]"], 3: ["int[:, :, :]", "int[:, :, ::1]"]}


def ct_function(name, ty, items, wrap=1, bounds=1):
    deco = ""
    if not wrap:
        deco += "@cython.wraparound(False)\n"
    if not bounds:
        deco += "@cython.boundscheck(False)\n"
    return "%sdef %s(%s a):\n    return a[%s]\n" % (deco, name, ty, pyx_expr(items))


def gen_ct_functions(ctx, count, start_id=0):
    """seeded constant index expressions; each with the shapes it will be applied to"""
    rng = ctx.rng
    fns = []
    for i in range(count):
        nd = rng.choice((1, 1, 2, 2, 3))
        shape = tuple(rng.randint(0, 6) for _ in range(nd))
        items = rand_items(rng, shape, 'ct')
        # constants beyond ssize_t are not generated (C literal); zero step constant is kept (run-time ValueError)
        contiguous = rng.random() < 0.25
        ty = CT_TYPES[nd][1 if contiguous else 0]
        wrap = 0 if rng.random() < 0.08 else 1
        fns.append({"name": "f%d" % (start_id + i), "ty": ty, "nd": nd, "items": items, "wrap": wrap, "bounds": 1,
                    "contig": contiguous, "shape0": shape})
    return fns


def boundary_ct_functions():
    """hand-picked constant expressions: witnesses of section 5, templates SimpleSlice/SliceIndex/ToughSlice, newaxis"""
    L = []

    def add(ty, items, wrap=1):
        L.append({"name": "b%d" % len(L), "ty": ty, "nd": ty.count(":") - ty.count("::") if "::" in ty else ty.count(":"),
                  "items": items, "wrap": wrap, "bounds": 1, "contig": "::1" in ty, "shape0": None})
    for it in ([_S(3, -100, -1)], [_S(-100, None, -1)], [_S(3, 2, 3)], [_S(10, 10, -2)], [_S(1, 0, 3)], [_S(None, None, 0)],
               [_S(None, None, None)], [_S(None, None, -1)], [_S(HUGE, None, None)], [_S(None, NHUGE, -1)], [_S(NHUGE, HUGE, 2)],
               [_S(-1, None, None)], [_S(None, -1, None)], [_S(-7, 7, None)], [_S(7, -7, -1)], [('E',)], [('i', 0)], [('i', -1)],
               [('i', 6)], [('i', -7)], [('N',), _S(None, None, 2), ('N',)], [('E',), ('N',)], [_S(5, None, -2)], [_S(None, 0, -3)]):
        add("int[:]", it)
    add("int[::1]", [_S(1, None, None)])
    add("int[::1]", [_S(None, None, 2)])
    add("int[::1]", [_S(None, None, -1)])
    add("int[:]", [('i', -1)], wrap=0)
    for it in ([('i', 1)], [('i', -1), _S(None, None, None)], [_S(None, None, None), ('i', -1)], [('E',), ('i', 0)], [('i', 0), ('E',)],
               [_S(None, None, -1), _S(None, None, -1)], [_S(1, None, None), _S(None, -1, 2)], [('N',), ('i', 0)], [('i', 1), ('i', 2)],
               [('E',), ('E',)], [('i', 5), _S(None, None, 0)], [_S(None, None, 0), ('i', 5)], [('E',), _S(3, -100, -1)],
               [_S(-100, None, -1), ('E',)], []):
        if it:
            add("int[:, :]", it)
    add("int[:, ::1]", [('i', 1)])
    add("int[:, ::1]", [_S(None, None, 2), _S(None, None, None)])
    add("int[:, :]", [('i', -1), _S(None, None, 2)], wrap=0)
    for it in ([('i', 0)], [('E',), ('i', -1)], [('i', 1), ('E',), ('i', 1)], [_S(None, None, 2), ('i', 0), _S(None, None, -1)],
               [('i', 1), ('i', 1), ('i', 1)], [('N',), ('i', 0), ('N',), _S(1, None, None)], [('E',), _S(None, None, -2)],
               [_S(None, 1, None), _S(None, 1, None), _S(None, 1, None)]):
        add("int[:, :, :]", it)
    return L


def shapes_for(ctx, fn, k):
    rng = ctx.rng
    out = []
    nd = fn["nd"]
    if fn["shape0"] is not None:
        out.append(fn["shape0"])
    while len(out) < k:
        out.append(tuple(rng.randint(0, 6) for _ in range(nd)))
    specs = []
    for sh in out:
        if fn["contig"]:
            specs.append(make_spec(sh, 'C'))
        else:
            specs.append(make_spec(sh, rng.choice(LAYOUTS), rng))
    return specs


# ----------------------------------------------------------------------------------------------


def witness_variant(r):
    """which repairs the implementation under test contains, decided on the section-5 witnesses
    (slice arithmetic: a[3:-100:-1], a[-100::-1], a[3:2:3], a[10:10:-2]; too many indices: mv[0:1, 0:1] on 1-D)"""
    spec = make_spec((5,), 'C')
    idxs = [('O', [_S(3, -100, -1)]), ('O', [_S(-100, None, -1)]), ('O', [_S(3, 2, 3)]), ('O', [_S(10, 10, -2)]),
            ('T', [_S(0, 1, None), _S(0, 1, None)])]
    outs = cybuild.run_cases(r.ctx, r.rt_so, [("rt_batch", "(%s, 'obj1', [%s])" % (spec_src(spec), ",".join(index_src(k, i) for k, i in idxs)))])
    res = decode_batch(outs[0], len(idxs) + 1)
    if res is None:
        return "cur", outs[0]
    res = res[1:]
    want = [[3, 2, 1, 0], [], [], []]
    got = [x[3] if x[0] == 'v' else x for x in res]
    neg = got[0] == want[0] and got[1] == want[1]
    ceil = got[2] == want[2] and got[3] == want[3]
    tm = res[4] == ('err', 'IndexError')
    return {(False, False): "cur", (True, False): "neg", (False, True): "ceil", (True, True): "fix"}[(neg, ceil)] + ("+tm" if tm else ""), got


def check_pyspec(ctx):
    """PySlice reference model against CPython: slice.indices, len(range(*…)), list slicing, unpack+adjust"""
    lines, exp = [], []
    rng = ctx.rng
    cases = []
    for n in range(0, 7):
        vals = bound_values(n) + [BEYOND, -BEYOND]
        for a in vals:
            for b in vals:
                for c in STEPS + [HUGE, NHUGE, -HUGE, BEYOND, -BEYOND]:
                    if ctx.quick and n > 3 and rng.random() < 0.85:
                        continue
                    cases.append((n, a, b, c))
    for _ in range(ctx.n(2000, 40000)):
        n = rng.choice((rng.randint(0, 50), rng.randint(0, 2 ** 40), HUGE))
        def bv():
            r = rng.random()
            if r < 0.1:
                return None
            if r < 0.5:
                return rng.randint(-2 * min(n, 10 ** 6) - 2, 2 * min(n, 10 ** 6) + 2)
            return rng.randint(-2 ** 70, 2 ** 70)
        c = rng.choice((None, 0, 1, -1, 2, -2, 3, -3, rng.randint(-2 ** 66, 2 ** 66), HUGE, NHUGE))
        cases.append((n, bv(), bv(), c))
    f = lambda v: "_" if v is None else str(v)
    for n, a, b, c in cases:
        lines.append("C16 py indices %d %s %s %s" % (n, f(a), f(b), f(c)))
        try:
            s, e, st = slice(a, b, c).indices(n)
            ln = len(range(s, e, st))
            sel = list(range(s, e, st)) if ln <= 64 else None
            exp.append((s, e, st, ln, sel))
        except ValueError:
            exp.append("err ValueError")
    mout = ctx.drv.batch(lines)
    bad = 0
    for (n, a, b, c), line, ex in zip(cases, mout, exp):
        ctx.count("pyspec/indices")
        if isinstance(ex, str):
            ok = line == ex
        else:
            p = line.split(" ")
            ok = p[0] == "ok" and (int(p[1]), int(p[2]), int(p[3]), int(p[4])) == ex[:4] and (ex[4] is None or (p[5] != '-' and json.loads(p[5]) == ex[4]))
            if ok and n <= 8 and ex[4] is not None:
                ok = list(range(n))[a:b:c] == ex[4]     # list slicing itself (PySlice_Unpack + AdjustIndices in CPython)
        if not ok and bad < 5:
            bad += 1
            ctx.tie_break("PySpec PySlice.indices vs CPython slice.indices", "n=%s slice(%s,%s,%s): model %s CPython %r" % (n, a, b, c, line[:200], ex),
                          {"n": n, "slice": [a, b, c]})
    # unpack + adjust with saturation (M = PY_SSIZE_T_MAX), against list slicing for small n
    lines, exp2 = [], []
    for n, a, b, c in cases:
        if n <= 8 and (c is None or -HUGE <= c <= HUGE):
            lines.append("C16 py unpack %d %s %s %s" % (n, f(a), f(b), f(c)))
            try:
                exp2.append(list(range(n))[a:b:c])
            except ValueError:
                exp2.append("err ValueError")
    mout = ctx.drv.batch(lines)
    bad = 0
    for line, ex in zip(mout, exp2):
        ctx.count("pyspec/unpack")
        ok = (line == ex) if isinstance(ex, str) else (line.startswith("ok ") and json.loads(line.split(" ")[5]) == ex)
        if not ok and bad < 5:
            bad += 1
            ctx.tie_break("PySpec unpackAdjust vs CPython list slicing", "model %s CPython %r" % (line[:200], ex), {"line": line})
    # index
    lines, exp3 = [], []
    for n in range(0, 8):
        for i in list(range(-2 * n - 3, 2 * n + 4)) + [HUGE, NHUGE, BEYOND, -BEYOND]:
            lines.append("C16 py index %d %d" % (n, i))
            try:
                exp3.append("ok %d" % list(range(n))[i])
            except IndexError:
                exp3.append("err IndexError")
    for line, ex, l in zip(ctx.drv.batch(lines), exp3, lines):
        ctx.count("pyspec/index")
        if line != ex:
            ctx.tie_break("PySpec index vs CPython list indexing", "%s: model %s CPython %s" % (l, line, ex), {"line": l})


def run(ctx):
    ctx.rule = ("arrays: NumPy intc arrays of 1-3 dims, every extent 0..6, layouts C-contiguous / every dim strided (step 2, offset) / "
                "reversed / transposed / seeded mixed; operations: rt = Python-level mv[index] on the Cython memoryview object, dyn = compiled "
                "a[s:e:t,...] with run-time Py_ssize_t bounds (incl. wraparound/boundscheck=False variants, contiguous-typed views), ct = generated "
                "functions with constant index expressions; 1-D: EVERY start/stop in [-2n-2,2n+2] U {None, 2^63-1, -2^63} x steps {-3..3, None} "
                "(0 -> ValueError) for n=0..6 on rt and dyn; 2-D/3-D: seeded combinations of indices (in and out of range), slices, one Ellipsis, "
                "None (ct), chained subscripts a[x][y](, [z]) in one compiled expression (the compile-time merge view[x][y] => view[x, y] must preserve sequential application), plus slices of slices, plain memoryview objects and a PIL-style indirect 2-D buffer; classes with a documented deviation (too many indices, several Ellipsis, ints beyond ssize_t, None "
                "at run time) are generated separately. non-trivial = oracle result is an element or a non-empty view; distinct by (path, array spec, index)")
    ctx.explanation = ("Theorems cover, for ALL extents/strides/start/stop/step (unbounded integers): the per-dimension slice arithmetic of "
                       "slice_memviewslice (= PySlice_AdjustIndices; full strength only for the repaired variant, _partial + counterexamples for the code "
                       "as it is), the index path, the dimension accounting of _unellipsify for one Ellipsis and not too many items, and the composition "
                       "over all dimensions with the address map of the resulting view (direct dimensions).  NOT covered by a theorem, only by the "
                       "differential run: that the C text / generated code computes what the model says (the tie), indirect (suboffset >= 0) dimensions "
                       "(the suboffset_dim bookkeeping is modelled and tied on a PIL-style 2-D exporter, no theorem), the compile-time `unellipsify` and "
                       "element-access dispatch, Py_ssize_t overflow of stride*step (excluded by hypothesis: the model flags it as ub), "
                       "acquisition of the buffer, reference counting, and the compile-time dispatch for expressions outside the generated families.")
    ctx.assumptions = ["LP64: Py_ssize_t is 64-bit two's complement (probed: HUGE = 2^63-1 round-trips)",
                       "products stride*step and start*stride stay inside Py_ssize_t (true for every buffer that fits in memory with |step| <= extent; flagged `ub overflow` by the model otherwise)"]
    ctx.extra_trusted = ["NumPy 2.x basic indexing and builtin memoryview as the meaning of 'buffer semantics' (NumPy resets the stride of an EMPTY dimension; strides are compared on non-empty dimensions)"]
    r = Runner(ctx)
    import time
    t0 = time.time()
    tm = {}
    check_pyspec(ctx)
    tm["pyspec"] = round(time.time() - t0, 1); t0 = time.time()

    # ---- build: one rt/dyn module, several ct modules
    rt_src = RT_MODULE + "\n" + dyn_source()
    bfns = boundary_ct_functions()
    nmods = ctx.n(4, 24)
    per = ctx.n(70, 140)
    ct_mods = [bfns]
    fid = 0
    for m in range(nmods):
        ct_mods.append(gen_ct_functions(ctx, per, fid))
        fid += per
    rp = ctx.replay_case["case"] if getattr(ctx, "replay_case", None) and "case" in ctx.replay_case else None
    if rp is not None and rp.get("path") == "ct":
        m = rp["meta"]
        ct_mods = [[{"name": m["fn"], "ty": m["ty"], "nd": len(rp["spec"][0]), "items": [tuple(i) for i in rp["items"]],
                     "wrap": m["directives"][0], "bounds": m["directives"][1], "contig": "::1" in m["ty"], "shape0": None}]]
    elif rp is not None:
        ct_mods = []
    # chained subscripts a[x][y](, [z]) in one expression (merged_indices may or may not merge them)
    chain_mods = [boundary_chain_functions()]
    gid = 0
    for m in range(ctx.n(2, 8)):
        chain_mods.append(gen_chain_functions(ctx, ctx.n(50, 100), gid))
        gid += ctx.n(50, 100)
    if rp is not None and rp.get("path") == "chain":
        m = rp["meta"]
        chain_mods = [[{"name": m["fn"], "ty": m["ty"], "nd": len(rp["spec"][0]), "subs": [[tuple(i) for i in x] for x in rp["subs"]],
                        "contig": "::1" in m["ty"], "shape0": None, "wrap": 1, "bounds": 1}]]
    elif rp is not None:
        chain_mods = []
    specs = [{"name": "c16rt", "source": rt_src}]
    for k, fns in enumerate(ct_mods):
        specs.append({"name": "c16ct%d" % k, "source": CT_HEAD + "\n" + "\n".join(ct_function(f["name"], f["ty"], f["items"], f["wrap"], f["bounds"]) for f in fns)})
    chain_specs = [{"name": "c16ch%d" % k, "source": CT_HEAD + "\n" + "\n".join(chain_function(f["name"], f["ty"], f["subs"]) for f in fns)}
                   for k, fns in enumerate(chain_mods)]
    wit_specs = crash_witness_specs()
    built_all = cybuild.build_many(ctx, specs + chain_specs + [{"name": w["modname"], "source": w["source"]} for w in wit_specs])
    built = built_all[:len(specs)]
    chain_built = built_all[len(specs):len(specs) + len(chain_specs)]
    wit_built = built_all[len(specs) + len(chain_specs):]
    tm["build"] = round(time.time() - t0, 1); t0 = time.time()
    if isinstance(built[0], cybuild.BuildError):
        ctx.tie_break("D-c build of the rt/dyn harness module", built[0].stage + ": " + built[0].log[-600:], {"module": "c16rt"})
        return
    r.rt_so = built[0]
    r.variant, wit = witness_variant(r)
    ctx.notes["variant_in_effect"] = r.variant
    ctx.notes["witnesses a[3:-100:-1], a[-100::-1], a[3:2:3], a[10:10:-2] on arange(5)"] = repr(wit)
    ctx.notes["theorems_applicable"] = ("full-strength (slice_dim_fixed, memview_slice_fixed, getitem_fixed_*, buffer_slice_code_fixed)" if r.variant.startswith("fix") else
                                        "partial (…_current_partial) + counterexamples; full statement is false for this code")

    if rp is not None and rp.get("path") == "chain":
        run_chain_modules(ctx, r, chain_mods, chain_built, chain_specs, [(tuple(rp["spec"][0]), rp["spec"][1])])
        return
    if rp is not None:
        replay(ctx, r, rp, built)
        return

    rng = ctx.rng
    # ---- 0. corpus: section-5 witnesses and minimised past failures, replayed first
    import glob
    import os
    ncorp = 0
    for fn_ in sorted(glob.glob(os.path.join(lib.VERIF, "corpus", "C16", "*.json"))):
        try:
            cc = json.load(open(fn_))["cases"]
        except Exception as e:
            raise lib.Infra("unreadable corpus file %s: %s" % (fn_, e))
        g_rt, g_dyn, g_ind = [], [], []
        for c in cc:
            its = [tuple(i) for i in c["items"]]
            meta = c.get("meta", {})
            if c.get("path") == "rt":
                first = meta.get("first")
                if first:
                    first = (first[0], [tuple(i) for i in first[1]])
                sp = (tuple(c["spec"][0]), c["spec"][1])
                g_rt.append((sp, meta.get("fn", "obj%d" % len(sp[0])), first, [(c["kind"], its)]))
            elif c.get("path") == "dyn":
                g_dyn.append(((tuple(c["spec"][0]), c["spec"][1]), meta["fn"], [tuple(meta["args"])]))
            elif c.get("path") == "ind":
                g_ind.append((c["n"], c["m"], [(c["kind"], its)]))
            else:
                continue
            ncorp += 1
        if g_rt:
            r.run_rt_groups(g_rt)
        if g_dyn:
            r.run_dyn_groups(g_dyn)
        if g_ind:
            run_indirect_groups(ctx, r, g_ind)
    ctx.notes["corpus_cases_replayed"] = ncorp
    tm["0-corpus"] = round(time.time() - t0, 1); t0 = time.time()
    # ---- A. exhaustive 1-D (rt + dyn)
    section_a(ctx, r, ['C', 'S', 'R'] if not ctx.quick else ['C', 'S'], thin=ctx.quick)

    tm["A-1d-exhaustive"] = round(time.time() - t0, 1); t0 = time.time()
    if not ctx.quick:
        # the same module at -O2 (undefined behaviour that -O0 hides tends to show here): exhaustive 1-D again
        try:
            so2 = cybuild.build_module(ctx, "c16rt", rt_src, opt="-O2")
        except cybuild.BuildError as e:
            ctx.tie_break("D-c -O2 build of the rt/dyn harness module", e.stage + ": " + e.log[-600:], {"module": "c16rt -O2"})
        else:
            r2 = Runner(ctx)
            r2.rt_so, r2.variant = so2, r.variant
            r2.tag = "-O2"
            section_a(ctx, r2, ['C', 'R'], thin=False)
            r.nviol += r2.nviol
        tm["A-1d-exhaustive-O2"] = round(time.time() - t0, 1); t0 = time.time()
    # ---- B. 2-D / 3-D seeded (rt + dyn), slices of slices
    groups_rt, groups_dyn = [], []
    narr = ctx.n(60, 600)
    per_arr = ctx.n(60, 120)
    for _ in range(narr):
        nd = rng.choice((2, 2, 3))
        shape = tuple(rng.randint(0, 6) for _ in range(nd))
        lay = rng.choice(LAYOUTS)
        spec = make_spec(shape, lay, rng)
        idxs = []
        for _ in range(per_arr):
            items = rand_items(rng, shape, 'rt')
            kind = 'O' if len(items) == 1 and rng.random() < 0.5 else 'T'
            idxs.append((kind, items))
        how = {2: "obj2", 3: "obj3"}[nd]
        if nd == 2 and lay == 'C' and rng.random() < 0.5:
            how = "objc2"
        if nd == 2 and lay == 'T' and rng.random() < 0.5:
            how = "objf2"
        if rng.random() < 0.2:
            how = "objm"
        first = None
        if rng.random() < 0.4:
            # second-level slicing: start from a slice (same ndim, non-trivial offset/strides)
            _, a0, _ = build(spec)
            for _try in range(20):
                f_items = [('s', rng.choice((None, 0, 1)), rng.choice((None, -1, 5)), rng.choice((None, 1, 2, -1, -2))) for _ in range(nd)]
                if case_class(r.variant, 'rt', a0.shape, 'T', f_items) is None:
                    break
            else:
                f_items = [('s', None, None, None)] * nd
            first = ('T', f_items)
            shape2 = a0[index_obj(*first)].shape
            idxs = []
            for _ in range(per_arr):
                items = rand_items(rng, shape2, 'rt')
                idxs.append(('T', items))
        groups_rt.append((spec, how, first, idxs))
        # dyn functions of this ndim
        cands = [d for d in DYN if d["nd"] == nd and not d["obj"]]
        for d in rng.sample(cands, min(len(cands), 4)):
            if "::1" in d["ty"]:
                want = 'T' if d["ty"].startswith("int[::1") else 'C'
                if lay != want:
                    continue
            argl = []
            for _ in range(per_arr // 3):
                items = None
                # draw argument values per parameter role using the items builder on random draws
                args = draw_dyn_args(rng, d, shape)
                if args is not None:
                    argl.append(args)
            if argl:
                groups_dyn.append((spec, d["name"], argl))
    r.run_rt_groups(groups_rt)
    r.run_dyn_groups(groups_dyn)

    tm["B-nd"] = round(time.time() - t0, 1); t0 = time.time()
    # ---- C. classes with a documented deviation (run time)
    groups_rt = []
    for shape in ((5,), (3, 4), (2, 3, 4)):
        nd = len(shape)
        spec = make_spec(shape, 'C')
        idxs = [('T', [_S(0, 1, None)] * (nd + 1)), ('T', [('i', 0)] * (nd + 1)), ('T', [('E',)] + [('i', 0)] * (nd + 1)),
                ('T', [('E',), ('E',)]), ('T', [('i', 0), ('E',), ('E',)]),
                ('O', [('N',)]), ('T', [('N',), _S(None, None, None)]), ('T', [('E',), ('N',)]), ('O', [('X',)]), ('T', [('X',), ('i', 0)]),
                ('O', [_S(BEYOND, None, None)]), ('O', [_S(None, -BEYOND, -1)]), ('O', [_S(None, None, BEYOND)]),
                ('O', [('i', BEYOND)]), ('O', [('i', -BEYOND)]), ('T', [('i', BEYOND)] + [('i', 0)] * (nd - 1))]
        groups_rt.append((spec, {1: "obj1", 2: "obj2", 3: "obj3"}[nd], None, idxs))
    r.run_rt_groups(groups_rt)
    spec = make_spec((5,), 'C')
    r.run_dyn_groups([(spec, "dobj", [(BEYOND, 3, 1), (0, -BEYOND, -1), (1, 4, 1), (4, -100, -1), (-100, 2, -1), (3, 2, 3)])])

    tm["C-classes"] = round(time.time() - t0, 1); t0 = time.time()
    # ---- D. constant index expressions
    for k, fns in enumerate(ct_mods):
        so = built[1 + k]
        if isinstance(so, cybuild.BuildError):
            ctx.tie_break("D-c build of constant-index module %d" % k, so.stage + ": " + so.log[-800:], {"module": specs[1 + k]["source"][-3000:]})
            continue
        run_ct_module(ctx, r, so, fns, ctx.n(3, 5))
    # ---- E. `a[..., i]` with every dimension indexed (0-d result): the compiler crashes at the pinned commit
    tm["D-const"] = round(time.time() - t0, 1); t0 = time.time()
    # ---- G. chained subscripts
    run_chain_modules(ctx, r, chain_mods, chain_built, chain_specs, None)
    tm["G-chain"] = round(time.time() - t0, 1); t0 = time.time()
    # ---- F. indirect (suboffset >= 0) dimension: the suboffset_dim bookkeeping of slice_memviewslice
    run_indirect(ctx, r)
    tm["F-indirect"] = round(time.time() - t0, 1); t0 = time.time()
    crash_witness(ctx, r, wit_specs, wit_built)
    tm["E-crash-witness"] = round(time.time() - t0, 1)
    ctx.notes["phase_seconds"] = tm
    ctx.notes["full_strength_statement_for_the_code_as_it_exists"] = (
        "proved" if r.variant.startswith("fix") else "FALSE (counterexample theorems, replayed as known findings); theorems of kind full-after-repair apply once both repairs are in")
    ctx.notes["violations_seen_total"] = r.nviol


def section_a(ctx, r, layouts_1d, thin):
    """every start/stop in [-2n-2, 2n+2] U {None, +-huge} x every step, n = 0..6, on the run-time and the compiled path"""
    rng = ctx.rng
    groups_rt, groups_dyn = [], []
    for n in range(0, 7):
        for lay in layouts_1d:
            spec = make_spec((n,), lay)
            vals = bound_values(n)
            idxs = []
            dyn_args = {}
            for a, b, c in itertools.product(vals, vals, STEPS):
                if thin and lay != 'C' and rng.random() < 0.8:
                    continue
                idxs.append(('O', [_S(a, b, c)]))
                nm = ("c" if lay == 'C' and rng.random() < 0.3 else "d") + ("1" if a is not None else "0") + ("1" if b is not None else "0") + ("1" if c is not None else "0")
                dyn_args.setdefault(nm, []).append(tuple(v for v in (a, b, c) if v is not None))
            for i in list(range(-2 * n - 2, 2 * n + 3)) + [HUGE, NHUGE]:
                idxs.append(('O', [('i', i)]))
                idxs.append(('T', [('i', i)]))
                dyn_args.setdefault("delem", []).append((i,))
                dyn_args.setdefault("delemw", []).append((i,))
                if -n <= i < n:
                    dyn_args.setdefault("delemb", []).append((i,))
            idxs += [('O', [('E',)]), ('T', [('E',)]), ('T', []), ('T', [('E',), _S(None, None, -1)]), ('T', [_S(1, None, 2), ('E',)])]
            how = "objc1" if lay == 'C' and n % 2 else ("objm" if lay == 'S' and n % 2 else "obj1")
            groups_rt.append((spec, how, None, idxs))
            for nm, argl in dyn_args.items():
                groups_dyn.append((spec, nm, argl))
    r.run_rt_groups(groups_rt)
    r.run_dyn_groups(groups_dyn)


def draw_dyn_args(rng, d, shape):
    """argument tuple for a dyn function; values drawn against the extent of the dimension each parameter indexes"""
    # find, for every parameter position, the dimension it refers to by probing the items builder with markers
    params = d["params"]
    n = len(params)
    probe = d["items"](*range(1000, 1000 + n))
    role = {}
    dimi = 0
    nd = len(shape)
    consuming = [it for it in probe if it[0] in 'is']
    has_e = any(it[0] == 'E' for it in probe)
    dim_of = []
    if has_e:
        p = next(i for i, it in enumerate(probe) if it[0] == 'E')
        pre = [it for it in probe[:p] if it[0] in 'is']
        post = [it for it in probe[p + 1:] if it[0] in 'is']
        dim_of = list(range(len(pre))) + list(range(nd - len(post), nd))
    else:
        dim_of = list(range(len(consuming)))
    for it, dm in zip(consuming, dim_of):
        if it[0] == 'i':
            role[it[1] - 1000] = ('i', dm)
        else:
            for pos, v in zip(('a', 'b', 'c'), it[1:]):
                if v is not None:
                    role[v - 1000] = (pos, dm)
    args = []
    for j in range(n):
        kind, dm = role[j]
        ext = shape[dm]
        if kind == 'i':
            if not d["bounds"]:
                if ext == 0:
                    return None
                args.append(rng.randint(-ext if d["wrap"] else 0, ext - 1))
            else:
                args.append(rand_index(rng, ext)[1])
        elif kind in ('a', 'b'):
            v = rand_bound(rng, ext)
            args.append(0 if v is None else v)
        else:
            v = rand_step(rng)
            args.append(1 if v is None else v)
    return tuple(args)


def run_ct_module(ctx, r, so, fns, k):
    cases, metas = [], []
    for fn in fns:
        specs = shapes_for(ctx, fn, k)
        cases.append(("ct_batch", "(%r, %r, [%s])" % (fn["name"], VIEW_FN[fn["ty"]], ",".join(spec_src(s) for s in specs))))
        metas.append(specs)
    outs = cybuild.run_cases(ctx, so, cases, timeout_per_case=120)
    lines, prepared = [], []
    for fn, specs, out in zip(fns, metas, outs):
        res = decode_batch(out, 2 * len(specs))
        for j, spec in enumerate(specs):
            base, a, off0 = build(spec)
            dims = view_dims(None if res is None else [res[2 * j]], a)
            impl = res[2 * j + 1] if res is not None else ('crash', out)
            prepared.append((base, a, off0, impl))
            lines.append(r.ct_line(dims, fn["items"], fn["wrap"], fn["bounds"]))
            lines.append(r.spec_line(dims, 'T', fn["items"]))
    mout = ctx.drv.batch(lines) if lines else []
    k2 = 0
    pi = 0
    for fn, specs in zip(fns, metas):
        for j, spec in enumerate(specs):
            base, a, off0, impl = prepared[pi]
            pi += 1
            special = (fn["wrap"], fn["bounds"]) != (1, 1)
            r.judge('ct', spec, 'T', fn["items"], impl, mout[k2], None if special else mout[k2 + 1], base, a, off0,
                    {"fn": fn["name"], "ty": fn["ty"], "directives": [fn["wrap"], fn["bounds"]], "source": ct_function(fn["name"], fn["ty"], fn["items"], fn["wrap"], fn["bounds"])})
            k2 += 2


def replay(ctx, r, rp, built):
    if rp["path"] == "ind":
        run_indirect_groups(ctx, r, [(rp["n"], rp["m"], [(rp["kind"], [tuple(i) for i in rp["items"]])])])
        return
    spec = (tuple(rp["spec"][0]), rp["spec"][1])
    items = [tuple(i) for i in rp["items"]]
    meta = rp.get("meta", {})
    if rp["path"] == "rt":
        first = meta.get("first")
        if first:
            first = (first[0], [tuple(i) for i in first[1]])
        r.run_rt_groups([(spec, meta.get("fn", "obj%d" % len(spec[0])), first, [(rp["kind"], items)])])
    elif rp["path"] == "dyn":
        r.run_dyn_groups([(spec, meta["fn"], [tuple(meta["args"])])])

    else:
        so = built[1]
        fn = {"name": meta["fn"], "ty": meta["ty"], "nd": len(spec[0]), "items": items, "wrap": meta["directives"][0],
              "bounds": meta["directives"][1], "contig": "::1" in meta["ty"], "shape0": None}
        crash_witness(ctx, r, [{"fn": fn, "shape": None, "spec": spec}], [so])   # runs it, or reports the failed build


def run_ct_module_one(ctx, r, so, fn, spec):
    out = cybuild.run_cases(ctx, so, [("ct_batch", "(%r, %r, [%s])" % (fn["name"], VIEW_FN[fn["ty"]], spec_src(spec)))])[0]
    res = decode_batch(out, 2)
    base, a, off0 = build(spec)
    dims = view_dims(None if res is None else [res[0]], a)
    mout = ctx.drv.batch([r.ct_line(dims, fn["items"], fn["wrap"], fn["bounds"]), r.spec_line(dims, 'T', fn["items"])])
    r.judge('ct', spec, 'T', fn["items"], res[1] if res else ('crash', out), mout[0], mout[1], base, a, off0,
            {"fn": fn["name"], "ty": fn["ty"], "directives": [fn["wrap"], fn["bounds"]],
             "source": ct_function(fn["name"], fn["ty"], fn["items"], fn["wrap"], fn["bounds"])})


def crash_witness_specs():
    out = []
    for k, (ty, items, shape) in enumerate((("int[:]", [('E',), ('i', 0)], (5,)), ("int[:, :]", [('i', 1), ('E',), ('i', -1)], (3, 4)))):
        fn = {"name": "w%d" % k, "ty": ty, "nd": len(shape), "items": items, "wrap": 1, "bounds": 1, "contig": False, "shape0": None}
        out.append({"modname": "c16w%d" % k, "source": CT_HEAD + "\n" + ct_function(fn["name"], ty, items), "fn": fn, "shape": shape})
    return out


def crash_witness(ctx, r, wit_specs, wit_built):
    for w, so in zip(wit_specs, wit_built):
        fn, shape = w["fn"], w["shape"]
        ty, items = fn["ty"], fn["items"]
        spec = w.get("spec") or make_spec(shape, 'C')
        if isinstance(so, cybuild.BuildError):
            e = so
            base, a, off0 = build(spec)
            mv = memoryview(a)
            dims = (tuple(mv.shape), tuple(mv.strides))
            mout = ctx.drv.batch([r.ct_line(dims, items), r.spec_line(dims, 'T', items)])
            crashed = "Compiler crash" in e.log
            impl = ('err', 'CompilerCrash' if crashed else 'CompileError')
            ctx.count("ct/%dd/ct-ellipsis-0d-compiler-crash" % len(spec[0]))
            oracle = numpy_outcome(a, index_obj('T', items))
            model = model_outcome(mout[0], base, a, off0, dims)
            replay = {"path": "ct", "spec": [list(spec[0]), spec[1]], "kind": "T", "items": [list(i) for i in items],
                      "meta": {"fn": fn["name"], "ty": ty, "directives": [1, 1], "source": ct_function(fn["name"], ty, items)},
                      "impl": repr(impl), "model": mout[0], "oracle": repr(oracle)}
            ctx.violation("ct-ellipsis-0d-compiler-crash" if model == impl else "ct-ellipsis-0d:unmodelled",
                          "def %s(%s a): return a[%s] does not compile (%s); NumPy gives %s" % (fn["name"], ty, pyx_expr(items), e.log.strip().split("\n")[-1][:120], short(oracle)), replay)
            if model != impl:
                ctx.tie_break("D-c ct vs CyVerif.C16 (%s)" % r.variant, "a[%s]: model %s impl %s" % (pyx_expr(items), mout[0], impl), replay)
            continue
        run_ct_module_one(ctx, r, so, fn, spec)


# ----------------------------------------------------------------------------------------------
# indirect (PIL-style) buffers: dimension 0 is a table of row pointers (suboffset 0), dimension 1 direct


def indirect_outcome(line, n, m):
    """evaluate a model result on the Rows(n, m) exporter: follow the pointer path / suboffsets like PyBuffer consumers do"""
    parts = line.split(" ")
    if parts[0] == "err":
        return ('err', parts[1])
    if parts[0] == "ub":
        return ('ub', parts[1])
    if parts[0] != "ok":
        return ('bad', line)

    def deref(ptr):
        lvl, r, off = ptr
        if lvl != 0 or off % 8 or not (0 <= off // 8 < n):
            return None
        return (1, off // 8, 0)

    def start(path):
        ptr = (0, 0, path[0])
        for sub in path[1:]:
            ptr = deref(ptr)
            if ptr is None:
                return None
            ptr = (1, ptr[1], sub)
        return ptr

    def value(ptr):
        if ptr is None or ptr[0] != 1 or ptr[2] % 4 or not (0 <= ptr[2] // 4 < m):
            return "oob"
        return ptr[1] * m + ptr[2] // 4

    if parts[1] == "self":
        shape, strides, subs, data = [n, m], [8, 4], [0, -1], [0]
    elif parts[1] == "scalar":
        return ('s', value(start(json.loads(parts[2]))))
    else:
        shape, strides, subs, data = (json.loads(x) for x in parts[2:6])

    def rec(d, ptr):
        if d == len(shape):
            return value(ptr)
        out = []
        for k in range(shape[d]):
            q = None if ptr is None else (ptr[0], ptr[1], ptr[2] + k * strides[d])
            if q is not None and subs[d] >= 0:
                q = deref(q)
                if q is not None:
                    q = (1, q[1], subs[d])
            out.append(rec(d + 1, q))
        return out
    r = ('v', tuple(shape), tuple(strides), rec(0, start(data)))
    if any(o >= 0 for o in subs):
        r = r + (tuple(subs),)
    return r


def same_ind(m, i):
    if m[0] == 'v' and i[0] == 'v':
        return m[1] == i[1] and m[2] == i[2] and m[4:] == i[4:] and same_vals(m[3], i[3])
    if m[0] == 's' and i[0] == 's':
        return same_vals(m[1], i[1])
    if m[0] == 'v' and i[0] == 's' and m[1] == ():
        return same_vals(m[3], i[1])
    return m == i


def run_indirect(ctx, r, groups=None):
    rng = ctx.rng
    if groups is None:
        groups = indirect_groups(ctx, r)
    run_indirect_groups(ctx, r, groups)


def indirect_groups(ctx, r):
    rng = ctx.rng
    groups = []
    sizes = [(n, m) for n in range(0, 5) for m in range(0, 5)]
    if ctx.quick:
        sizes = [(0, 3), (3, 0), (1, 1), (3, 4), (4, 2)] + rng.sample(sizes, 4)
    for n, m in sizes:
        idxs = [('O', [('E',)]), ('T', []), ('O', [('i', 0)]), ('O', [('i', -1)]), ('O', [('i', n)]), ('T', [('i', 0), ('i', 0)]),
                ('T', [_S(None, None, -1), ('i', m - 1)]), ('T', [_S(None, None, None), _S(None, None, -1)]),
                ('T', [('i', n - 1), _S(None, None, 2)]), ('T', [('E',), ('i', 0)]), ('T', [_S(1, None, None)])]
        for _ in range(ctx.n(60, 400)):
            items = rand_items(rng, (n, m), 'rt')
            idxs.append(('O' if len(items) == 1 and rng.random() < 0.5 else 'T', items))
        # a case in a known-defect class reads outside the pointer table here (a wild pointer dereference would take the
        # whole batch down); those classes are exercised on direct buffers
        idxs = [(k, its) for k, its in idxs if case_class(r.variant, 'rt', (n, m), k, its) is None]
        groups.append((n, m, idxs))
    return groups


def run_indirect_groups(ctx, r, groups):
    cases = [("ind_batch", "(%d, %d, [%s])" % (n, m, ",".join(index_src(k, i) for k, i in idxs))) for n, m, idxs in groups]
    outs = cybuild.run_cases(ctx, r.rt_so, cases, timeout_per_case=120)
    lines = []
    for n, m, idxs in groups:
        for kind, items in idxs:
            lines.append(" ".join(["C16", "rt", r.variant, "2", str(n), str(m), "8", "4", "0", "-1", kind] + [tok(i) for i in items]))
    mout = ctx.drv.batch(lines)
    k = 0
    for (n, m, idxs), out in zip(groups, outs):
        res = decode_batch(out, len(idxs) + 1)
        a = np.arange(n * m, dtype=np.intc).reshape(n, m)
        for j, (kind, items) in enumerate(idxs):
            impl = res[j + 1] if res is not None else ('crash', out)
            model = indirect_outcome(mout[k], n, m)
            k += 1
            cls = case_class(r.variant, 'rt', (n, m), kind, items)
            oracle = numpy_outcome(a, index_obj(kind, items))
            ctx.count("indirect/2d/%s" % (cls or (oracle[0] if oracle[0] != 'err' else 'err-' + oracle[1])))
            ctx.seen(('ind', n, m, kind, tuple(items)), nontrivial=oracle[0] != 'err')
            what = "indirect Rows(%d,%d)[%s]" % (n, m, index_src(kind, items))
            replay = {"path": "ind", "n": n, "m": m, "kind": kind, "items": [list(i) for i in items], "impl": repr(impl), "model": mout[k - 1]}
            # oracle: same elements and shape as the direct array with the same contents (strides/suboffsets are layout-specific)
            io = impl[:2] + ((),) + impl[3:4] if impl[0] == 'v' else impl
            oo = oracle[:2] + ((),) + oracle[3:4] if oracle[0] == 'v' else oracle
            ok_model = model[0] == 'ub' or same_ind(model, impl)
            if not same(io, oo):
                key = cls if (cls and ok_model) else ((cls + ":unmodelled") if cls else "indirect-" + ("slice" if any(i[0] == 's' for i in items) else "index"))
                ctx.violation(key, what + ": got %s, NumPy on the same contents %s" % (short(impl), short(oracle)), replay)
            if not ok_model:
                ctx.tie_break("D-c indirect rt vs CyVerif.C16 (%s)" % r.variant, what + ": model %s impl %s" % (short(model), short(impl)), replay)


# ----------------------------------------------------------------------------------------------
# chained subscripts in one expression: a[x][y], a[x][y][z].  The compiler may rewrite view[x][y] => view[x, y]
# (MemoryViewSliceNode.merged_indices) -- an optimisation that must preserve the meaning "apply x, then y to the result".
# Model = the Lean `ct` op applied sequentially; oracle = NumPy applying the subscripts one after the other.


def chain_function(name, ty, subs):
    return "def %s(%s a):\n    return a%s\n" % (name, ty, "".join("[%s]" % (pyx_expr(x) if x else ":") for x in subs))


def static_ndim(nd, items):
    """number of dimensions of a[items] for an nd-dimensional a (items well-formed)"""
    return nd - sum(1 for it in items if it[0] == 'i') + sum(1 for it in items if it[0] == 'N')


def stage_shape(shape, items):
    """shape of the intermediate view (NumPy on zeros); an out-of-range index keeps the dimensionality with extents 3"""
    try:
        return tuple(np.zeros(shape, dtype=np.intc)[index_obj('T', items)].shape)
    except Exception:
        return tuple(3 for _ in range(static_ndim(len(shape), items)))


def gen_chain_functions(ctx, count, start_id=0):
    rng = ctx.rng
    fns = []
    while len(fns) < count:
        nd = rng.choice((1, 1, 2, 2, 3))
        shape = tuple(rng.randint(0, 6) for _ in range(nd))
        nsub = 3 if rng.random() < 0.25 else 2
        subs, cur, ok = [], shape, True
        for j in range(nsub):
            items = None
            for _try in range(30):
                cand = chain_items(rng, cur)
                if j < nsub - 1 and static_ndim(len(cur), cand) < 1:
                    continue            # an intermediate result must still be a view
                if static_ndim(len(cur), cand) > 5:
                    continue            # BUF_MAX_NDIMS is 8
                items = cand
                break
            if items is None:
                ok = False
                break
            subs.append(items)
            cur = stage_shape(cur, items)
        if not ok:
            continue
        contiguous = rng.random() < 0.2
        fns.append({"name": "g%d" % (start_id + len(fns)), "ty": CT_TYPES[nd][1 if contiguous else 0], "nd": nd, "subs": subs,
                    "contig": contiguous, "shape0": shape, "wrap": 1, "bounds": 1})
    return fns


def chain_items(rng, shape):
    """one subscript for a view of this shape: ints (mostly in range), full and partial slices, None, one Ellipsis"""
    nd = len(shape)
    k = rng.randint(0, nd)
    use_ell = rng.random() < 0.25
    pos = rng.randint(0, k) if use_ell else None
    pre = k if pos is None else pos
    dims_for = list(range(pre)) + list(range(nd - (k - pre), nd))
    items = []
    for j in range(k):
        n = shape[dims_for[j]]
        r_ = rng.random()
        if r_ < 0.35:
            items.append(rand_index(rng, n, out_of_range=0.06))
        elif r_ < 0.65:
            items.append(('s', None, None, None))
        else:
            items.append(rand_slice(rng, n, huge=False, zero=0.0))
    if use_ell:
        items.insert(pos, ('E',))
    for _ in range(rng.choice((0, 0, 1, 1, 2))):
        items.insert(rng.randint(0, len(items)), ('N',))
    if not items:
        items = [('s', None, None, None)]
    if zero_dim_ellipsis(items, nd):
        items = [it for it in items if it[0] != 'E']
    return items


def boundary_chain_functions():
    L = []
    F = ('s', None, None, None)

    def add(ty, *subs):
        L.append({"name": "h%d" % len(L), "ty": ty, "nd": ty.count(",") + 1, "subs": [list(x) for x in subs], "contig": "::1" in ty,
                  "shape0": None, "wrap": 1, "bounds": 1})
    I = lambda i: ('i', i)
    N, E = ('N',), ('E',)
    for ty in ("int[:]", "int[::1]"):
        add(ty, [N], [I(0)]); add(ty, [N], [I(1)]); add(ty, [N], [I(-1)]); add(ty, [N], [I(0), I(1)]); add(ty, [N], [F, I(2)])
        add(ty, [F, N], [I(1)]); add(ty, [F], [I(1)]); add(ty, [_S(1, None, None)], [I(0)]); add(ty, [_S(None, None, -1)], [_S(1, None, None)], [I(0)])
        add(ty, [N, N], [I(0)]); add(ty, [N, N], [I(0), I(0)]); add(ty, [N], [N], [I(0)]); add(ty, [E, N], [I(1)]); add(ty, [N, E], [I(0)])
        add(ty, [_S(None, None, 2)], [_S(None, None, 2)]); add(ty, [N], [_S(None, None, None), _S(1, None, 2)])
    for ty in ("int[:, :]", "int[:, ::1]"):
        add(ty, [I(1)], [I(2)]); add(ty, [F, I(1)], [I(0)]); add(ty, [I(1)], [_S(1, 3, None)]); add(ty, [_S(1, None, None)], [I(0)])
        add(ty, [N], [I(0), I(1)]); add(ty, [N], [I(0)]); add(ty, [N], [I(1)]); add(ty, [I(0), N], [I(0)]); add(ty, [I(0), N], [I(1)])
        add(ty, [F, N], [I(1)]); add(ty, [F, N], [I(1), I(0)]); add(ty, [N, F], [I(0), I(1)]); add(ty, [N, F, F], [I(0), I(1), I(2)])
        add(ty, [E], [I(1)]); add(ty, [E, I(0)], [I(1)]); add(ty, [F, F], [I(1), I(2)]); add(ty, [F, F], [I(1)], [I(2)])
        add(ty, [F, _S(None, None, -1)], [I(1)]); add(ty, [_S(None, None, -1), F], [I(1)]); add(ty, [N, I(1)], [I(0)]); add(ty, [N, I(1)], [F, I(2)])
    for ty in ("int[:, :, :]",):
        add(ty, [I(1)], [I(1)], [I(1)]); add(ty, [I(1), N], [I(0)]); add(ty, [I(1), N], [I(0), I(1)]); add(ty, [F, N, I(0)], [I(1)])
        add(ty, [N, I(1)], [I(0), I(2)]); add(ty, [F, I(1)], [I(0), I(1)]); add(ty, [E, I(1)], [I(1)]); add(ty, [I(0), E], [N], [I(0), I(1)])
        add(ty, [F, F, I(2)], [I(1)]); add(ty, [N, E, N], [I(0), I(1)])
        add(ty, [F, F, F], [E, I(0)]); add(ty, [F, F, F], [I(1), E, I(0)]); add(ty, [F, F, F], [N, I(1)]); add(ty, [I(1)], [E, I(0)])
    return L


def chain_classes(variant, shape, subs):
    cur = shape
    for items in subs:
        cls = case_class(variant, 'ct', cur, 'T', items)
        if cls:
            return cls
        cur = stage_shape(cur, items)
    if any(it[0] in 'NE' for items in subs[1:] for it in items):
        # known finding: merged_indices() substitutes a None / Ellipsis of a later subscript into a full-slice slot
        return "ct-chain-merge-later-newaxis-or-ellipsis"
    return None


def numpy_chain(a, subs):
    cur = a
    try:
        for items in subs:
            if not isinstance(cur, np.ndarray):
                return ('err', 'IndexError')
            cur = cur[index_obj('T', items)]
    except Exception as e:
        return ('err', type(e).__name__)
    if isinstance(cur, np.ndarray):
        return ('v', tuple(cur.shape), tuple(cur.strides), cur.tolist())
    return ('s', int(cur))


def model_chain(ctx, r, jobs):
    """jobs: list of (dims, subs).  Applies the Lean `ct` op stage by stage; returns one synthetic driver line per job."""
    state = [{"dims": d, "off": 0, "final": None} for d, _ in jobs]
    nstage = max((len(s) for _, s in jobs), default=0)
    for st in range(nstage):
        idx = [j for j, (d, subs) in enumerate(jobs) if state[j]["final"] is None and st < len(subs)]
        lines = [r.ct_line(state[j]["dims"], jobs[j][1][st]) for j in idx]
        outs = ctx.drv.batch(lines) if lines else []
        for j, out in zip(idx, outs):
            parts = out.split(" ")
            last = st == len(jobs[j][1]) - 1
            if parts[0] != "ok":
                state[j]["final"] = out
            elif parts[1] == "scalar":
                p = json.loads(parts[2])
                state[j]["final"] = "ok scalar [%d]" % (state[j]["off"] + p[0]) if last else "err TypeError"
            elif parts[1] == "view":
                shape, strides, subsf, data = (json.loads(x) for x in parts[2:6])
                state[j]["off"] += data[0]
                state[j]["dims"] = (shape, strides)
                if last:
                    state[j]["final"] = "ok view %s %s %s [%d]" % (parts[2], parts[3], parts[4], state[j]["off"])
            else:
                state[j]["final"] = out
    return [s["final"] for s in state]


def run_chain_modules(ctx, r, chain_mods, chain_built, chain_specs, only_specs):
    for k, (fns, so) in enumerate(zip(chain_mods, chain_built)):
        if isinstance(so, cybuild.BuildError):
            # a chained expression that does not compile: find it (each function on its own) so that the input is concrete
            bad = None
            for f in fns:
                try:
                    cybuild.build_module(ctx, "c16chx", CT_HEAD + "\n" + chain_function(f["name"], f["ty"], f["subs"]))
                except cybuild.BuildError as e:
                    bad = (f, e)
                    break
            if bad:
                f, e = bad
                ctx.violation("ct-chain-compile", "def %s(%s a): return a%s does not compile: %s" % (
                    f["name"], f["ty"], "".join("[%s]" % pyx_expr(x) for x in f["subs"]), e.log.strip().split("\n")[-1][:160]),
                    {"path": "chain", "spec": [[3] * f["nd"], ""], "subs": [[list(i) for i in x] for x in f["subs"]],
                     "meta": {"fn": f["name"], "ty": f["ty"], "source": chain_function(f["name"], f["ty"], f["subs"])}})
            ctx.tie_break("D-c build of chained-subscript module %d" % k, so.stage + ": " + so.log[-800:], {"module": chain_specs[k]["source"][-2000:]})
            continue
        run_chain_module(ctx, r, so, fns, ctx.n(3, 5), only_specs)


def run_chain_module(ctx, r, so, fns, k, only_specs=None):
    cases, metas = [], []
    for fn in fns:
        specs = only_specs if only_specs is not None else shapes_for(ctx, fn, k)
        cases.append(("ct_batch", "(%r, %r, [%s])" % (fn["name"], VIEW_FN[fn["ty"]], ",".join(spec_src(s) for s in specs))))
        metas.append(specs)
    outs = cybuild.run_cases(ctx, so, cases, timeout_per_case=120)
    jobs, prepared = [], []
    for fn, specs, out in zip(fns, metas, outs):
        res = decode_batch(out, 2 * len(specs))
        for j, spec in enumerate(specs):
            base, a, off0 = build(spec)
            dims = view_dims(None if res is None else [res[2 * j]], a)
            impl = res[2 * j + 1] if res is not None else ('crash', out)
            prepared.append((fn, spec, base, a, off0, impl, dims))
            jobs.append((dims, fn["subs"]))
    mlines = model_chain(ctx, r, jobs)
    for (fn, spec, base, a, off0, impl, dims), mline in zip(prepared, mlines):
        judge_chain(ctx, r, fn, spec, base, a, off0, impl, dims, mline)


def judge_chain(ctx, r, fn, spec, base, a, off0, impl, dims, mline):
    subs = fn["subs"]
    cls = chain_classes(r.variant, tuple(a.shape), subs)
    model = model_outcome(mline, base, a, off0, dims)
    oracle = numpy_chain(a, subs)
    no_oracle = cls in ("ct-multiple-ellipsis",)
    expr = "a" + "".join("[%s]" % (pyx_expr(x) if x else ":") for x in subs)
    ctx.count("chain/%dd/%s" % (a.ndim, cls or (oracle[0] if oracle[0] != 'err' else 'err-' + oracle[1])))
    nontrivial = oracle[0] != 'err' and (oracle[0] == 's' or all(n > 0 for n in oracle[1]))
    ctx.seen(('chain', spec, fn["ty"], tuple(tuple(x) for x in subs)), nontrivial=nontrivial)
    what = "chain %s(%s a): %s  shape=%s strides=%s" % (fn["name"], fn["ty"], expr, tuple(a.shape), tuple(a.strides))
    replay = {"path": "chain", "spec": [list(spec[0]), spec[1]], "subs": [[list(i) for i in x] for x in subs],
              "meta": {"fn": fn["name"], "ty": fn["ty"], "source": chain_function(fn["name"], fn["ty"], subs)},
              "impl": repr(impl), "model": mline, "oracle": repr(oracle), "variant": r.variant}
    ok_oracle = no_oracle or same(impl, oracle, oracle_numpy=True)
    ok_model = model[0] == 'ub' or same_model(model, impl)
    merge_known = cls == "ct-chain-merge-later-newaxis-or-ellipsis"
    if not ok_oracle:
        # the model is the SEMANTICS (sequential application): for the known merge defect it never agrees with the implementation
        key = cls if (cls and (ok_model or merge_known)) else ((cls + ":unmodelled") if cls else "ct-chain")
        ctx.violation(key, what + ": got %s, NumPy (subscripts applied one after the other) %s" % (short(impl), short(oracle)), replay)
        r.nviol += 1
    if not ok_model and not (merge_known and not ok_oracle):
        ctx.tie_break("D-c chained subscripts vs CyVerif.C16 ct applied sequentially (%s)" % r.variant,
                      what + ": model %s impl %s" % (short(model), short(impl)), replay)

"""C24 — argument binding of compiled `def` functions equals CPython's, for every signature and call.

Three-way on every case:
  implementation = a module of generated functions compiled by the STAGED compiler + gcc (each function returns its
                   bound locals), called in a child process through several call paths;
  oracle         = the same source run by CPython (cdef class -> class, cpdef -> def), same calls, same process kind;
  model          = Lean `CyVerif.C24.cyBind` (the generated wrapper + FunctionArguments.c helpers) and
                   `CyVerif.C24.pyBind` (CPython's initialize_locals) over the line protocol.
impl != oracle  -> violation;  cyBind != impl or pyBind != oracle -> tie break.
"""
import itertools
import json
import os
import signal
import subprocess

import cybuild
import lib

SELF_TAG = 7777

# ------------------------------------------------------------------ signatures and sources
# sig = (P, npo, ndef, star, sstar, kwo)   kwo: string over 'r' (required) / 'o' (has default)


CLASS_OF = {"meth": "K", "cmeth": "D", "ccall": "E", "cinit": "G", "cstatic": "H", "cclassm": "J",
            "pstatic": "L", "pclassm": "M", "pnested": "N", "cnested": "O"}
# name shapes: source spelling of positional i / keyword-only j  (%(c)s = enclosing class name or X)
SHAPES = {"plain": ("p%(i)d", "k%(i)d"), "priv": ("__q%(i)d", "__w%(i)d"), "dunder": ("__d%(i)d__", "__e%(i)d__"),
          "under": ("_u%(i)d", "_v%(i)d"), "premangled": ("_%(c)s__m%(i)d", "_%(c)s__n%(i)d"),
          "nonascii": ("\ufb01%(i)d", "\ufb02%(i)d")}                      # the ligatures fi / fl: NFKC -> "fi0", "fl0"
SHAPE_BAG = ["plain"] * 6 + ["priv"] * 5 + ["dunder", "under", "premangled", "nonascii", "nonascii"]


def caller_name(src, cls):
    """the parameter name as callers see it (what CPython puts into co_varnames): NFKC normalisation of the
    identifier, then class-private mangling inside a class body (directly or nested)"""
    import unicodedata
    v = unicodedata.normalize("NFKC", src)
    if cls and v.startswith("__") and not v.endswith("__"):
        v = "_" + cls.lstrip("_") + v
    return v


def param_names(n, ctxk, sig):
    """-> dict: pos/kwo source spellings, visible (caller) names, class name; deterministic in (sig, ctxk)"""
    import random
    P, npo, ndef, star, sstar, kwo = sig
    cls = (CLASS_OF[ctxk] + str(n)) if ctxk in CLASS_OF else None
    rnd = random.Random(repr((sig, ctxk)))
    pos, kwn = [], []
    for i in range(P):
        sh = rnd.choice(SHAPE_BAG)
        if ctxk == "cpdef" or (ctxk == "meth" and i == 0):
            sh = "plain"
        pos.append(SHAPES[sh][0] % {"i": i, "c": cls or "X"})
    for j in range(len(kwo)):
        sh = rnd.choice(SHAPE_BAG)
        kwn.append(SHAPES[sh][1] % {"i": j, "c": cls or "X"})
    return {"pos": pos, "kwo": kwn, "cls": cls,
            "vpos": [caller_name(s, cls) for s in pos], "vkwo": [caller_name(s, cls) for s in kwn]}


def sig_params(sig, first=None, names=None):
    P, npo, ndef, star, sstar, kwo = sig
    pos = names["pos"] if names else ["p%d" % i for i in range(P)]
    kwn = names["kwo"] if names else ["k%d" % j for j in range(len(kwo))]
    parts = [first] if first else []
    for i in range(P):
        parts.append(pos[i] + ("=%d" % (900 + i) if i >= P - ndef else ""))
        if i == npo - 1:
            parts.append("/")
    if star:
        parts.append("*args")
    elif kwo:
        parts.append("*")
    for j, ch in enumerate(kwo):
        parts.append(kwn[j] + ("=%d" % (950 + j) if ch == "o" else ""))
    if sstar:
        parts.append("**kw")
    return ", ".join(parts)


def sig_ret(sig, kwused=True, names=None):
    P, npo, ndef, star, sstar, kwo = sig
    nm = (names["pos"] + names["kwo"]) if names else ["p%d" % i for i in range(P)] + ["k%d" % j for j in range(len(kwo))]
    return "((%s), %s, %s)" % ("".join(n + ", " for n in nm), "args" if star else "None",
                               "list(kw.items())" if (sstar and kwused) else "None")


CTX_ALL = ("def", "lam", "clo", "meth", "cmeth", "ccall", "cinit", "cstatic", "cclassm", "cpdef",
           "pstatic", "pclassm", "pnested", "cnested")


def ctx_ok(ctxk, sig):
    P, npo, ndef, star, sstar, kwo = sig
    if ctxk == "meth":       # p0 plays `self`
        return P >= 1 and ndef < P
    if ctxk == "cpdef":      # cpdef accepts neither '/', '*', *args nor **kw
        return not star and not sstar and not kwo and npo == 0
    return True


def entry_source(n, ctxk, sig, kwused):
    """(cython source, python twin source) of entry n"""
    nm = param_names(n, ctxk, sig)
    pr, rt = sig_params(sig, names=nm), sig_ret(sig, kwused, names=nm)
    if ctxk == "def":
        s = "def f%d(%s): return %s\n" % (n, pr, rt)
        return s, s
    if ctxk == "lam":
        s = "lam%d = lambda %s: %s\n" % (n, pr, rt)
        return s, s
    if ctxk == "clo":
        s = "def mk%d():\n    z = %d\n    def inner(%s): return %s if z == %d else None\n    return inner\n" % (n, n, pr, rt, n)
        return s, s
    if ctxk == "meth":
        s = "class K%d:\n    def m(%s): return %s\n" % (n, pr, rt)
        return s, s
    if ctxk == "pstatic":
        s = "class L%d:\n    @staticmethod\n    def sm(%s): return %s\n" % (n, pr, rt)
        return s, s
    if ctxk == "pclassm":
        s = "class M%d:\n    @classmethod\n    def cm(%s): return %s\n" % (n, sig_params(sig, "cls", nm), rt)
        return s, s
    nested = "    def outer(self):\n        def inner(%s): return %s\n        return inner\n" % (pr, rt)
    if ctxk == "pnested":
        s = "class N%d:\n%s" % (n, nested)
        return s, s
    if ctxk == "cnested":
        return "cdef class O%d:\n%s" % (n, nested), "class O%d:\n%s" % (n, nested)
    prs = sig_params(sig, "self", nm)
    if ctxk == "cmeth":
        body = "    def m(%s): return %s\n" % (prs, rt)
        return "cdef class D%d:\n%s" % (n, body), "class D%d:\n%s" % (n, body)
    if ctxk == "ccall":
        body = "    def __call__(%s): return %s\n" % (prs, rt)
        return "cdef class E%d:\n%s" % (n, body), "class E%d:\n%s" % (n, body)
    if ctxk == "cinit":
        body = "    def __init__(%s): self.r = %s\n" % (prs, rt)
        return "cdef class G%d:\n    cdef public object r\n%s" % (n, body), "class G%d:\n%s" % (n, body)
    if ctxk == "cstatic":
        body = "    @staticmethod\n    def sm(%s): return %s\n" % (pr, rt)
        return "cdef class H%d:\n%s" % (n, body), "class H%d:\n%s" % (n, body)
    if ctxk == "cclassm":
        body = "    @classmethod\n    def cm(%s): return %s\n" % (sig_params(sig, "cls", nm), rt)
        return "cdef class J%d:\n%s" % (n, body), "class J%d:\n%s" % (n, body)
    if ctxk == "cpdef":
        return "cpdef h%d(%s): return %s\n" % (n, pr, rt), "def h%d(%s): return %s\n" % (n, pr, rt)
    raise ValueError(ctxk)


# build variants: name -> (directives, cflags, contexts allowed, vectorcall enabled)
VARIANTS = {
    "default": ({}, [], CTX_ALL, True),
    "nobinding": ({"binding": False}, [], ("def", "lam", "clo", "meth", "cmeth", "cpdef", "pstatic", "pnested"), True),
    "noaak": ({"always_allow_keywords": False}, [], ("def", "lam", "meth", "cmeth", "cstatic", "cpdef"), True),
    "novec": ({}, ["-DCYTHON_VECTORCALL=0"], ("def", "clo", "meth", "cmeth", "ccall", "cinit", "cclassm",
                                              "pstatic", "pclassm", "pnested", "cnested"), False),
    "o2": ({}, [], CTX_ALL, True),            # thorough tier only: gcc -O2 (undefined behaviour that -O0 hides)
}
VARIANT_OPT = {"o2": "-O2"}
VARIANT_SHARE = {"default": 1.0, "nobinding": 0.55, "noaak": 0.55, "novec": 0.55, "o2": 0.15}


def entry_cfg(variant, ctxk, sig, kwused):
    """cfg string of the Lean model: vec, alwaysKw, kwUsed, cmethod"""
    P, npo, ndef, star, sstar, kwo = sig
    directives, cflags, _, vc = VARIANTS[variant]
    special = ctxk in ("ccall", "cinit")
    uses_args_tuple = bool(star) and P == 0          # DefNode.analyse_signature, rule 3
    vec = vc and not special and not uses_args_tuple
    # analyse_signature rewrites the signature of a cdef-class staticmethod to the generic one ("*"): no METH_O/NOARGS shortcut
    aak = directives.get("always_allow_keywords", True) or ctxk == "cstatic"
    cmethod = ctxk in ("cmeth", "ccall", "cinit", "cclassm", "pclassm")
    return "%d%d%d%d" % (vec, aak, kwused, cmethod)


def all_sigs(maxp=3, maxk=3):
    out = []
    for P in range(maxp + 1):
        for npo in range(P + 1):
            for ndef in range(P + 1):
                for star in (0, 1):
                    for sstar in (0, 1):
                        for nk in range(maxk + 1):
                            for kwo in itertools.product("ro", repeat=nk):
                                out.append((P, npo, ndef, star, sstar, "".join(kwo)))
    return out


# ------------------------------------------------------------------ calls
# abstract call = (args: list of ints, kws: list of (kind, name, val));  kind in i/f/s/n;
# delivered through `how` in direct/star/map/iter/partial/opcall (+ bound/unbound for methods)

def name_id(name):
    if name[0] == "p":
        return int(name[1:])
    if name[0] == "k":
        return 100 + int(name[1:])
    if name[0] == "u":
        return 500 + int(name[1:])
    if name[0] == "n":
        return 600 + int(name[1:])
    if name[0] == "q":                       # source spelling of positional i where callers see another name
        return 700 + int(name[1:])
    if name[0] == "r":                       # same for keyword-only j
        return 800 + int(name[1:])
    raise ValueError(name)


def token_strings(nm):
    """token of the abstract call -> the string actually passed; p/k = the caller-visible name, q/r = the source spelling"""
    m = {}
    for i, (s, v) in enumerate(zip(nm["pos"], nm["vpos"])):
        m["p%d" % i] = v
        if s != v:
            m["q%d" % i] = s
    for j, (s, v) in enumerate(zip(nm["kwo"], nm["vkwo"])):
        m["k%d" % j] = v
        if s != v:
            m["r%d" % j] = s
    for u in ("u0", "u1", "u2", "n0", "n1"):
        m[u] = u
    return m


def id_name(i):
    if i < 100:
        return "p%d" % i
    if i < 500:
        return "k%d" % (i - 100)
    if i < 600:
        return "u%d" % (i - 500)
    return "n%d" % (i - 600)


def sig_facts(sig):
    P, npo, ndef, star, sstar, kwo = sig
    pos = ["p%d" % i for i in range(P)]
    kwn = ["k%d" % j for j in range(len(kwo))]
    req_kw = [kwn[j] for j, ch in enumerate(kwo) if ch == "r"]
    return pos, kwn, req_kw, P - ndef


def valid_call(rng, sig):
    """a call that binds successfully (when one exists with the chosen positional count)"""
    P, npo, ndef, star, sstar, kwo = sig
    pos, kwn, req_kw, minpos = sig_facts(sig)
    lo = min(npo, minpos)
    hi = P + (2 if star else 0)
    nargs = rng.randint(lo, max(lo, hi))
    kws = []
    for i in range(min(nargs, P), P):            # the rest of the positional parameters
        if i < npo:
            continue
        if i < minpos or rng.random() < 0.5:
            kws.append(pos[i])
    for j, nm in enumerate(kwn):
        if kwo[j] == "r" or rng.random() < 0.5:
            kws.append(nm)
    if sstar and rng.random() < 0.5:
        kws.append("u0")
        if rng.random() < 0.3:
            kws.append("u1")
        if npo and rng.random() < 0.3:
            kws.append("p0")                      # positional-only name lands in **kw
    rng.shuffle(kws)
    return nargs, kws


def mutate_call(rng, sig, nargs, kws):
    P, npo, ndef, star, sstar, kwo = sig
    pos, kwn, req_kw, minpos = sig_facts(sig)
    r = rng.random()
    kws = list(kws)
    if r < 0.15 and kws:
        kws.pop(rng.randrange(len(kws)))          # drop (maybe a required one)
    elif r < 0.35:
        cand = [p for p in pos[:max(nargs, 1)] if p not in kws]     # given positionally AND by keyword
        if cand:
            kws.insert(rng.randint(0, len(kws)), rng.choice(cand))
    elif r < 0.5:
        u = rng.choice(["u0", "u1", "u2"])
        if u not in kws:
            kws.insert(rng.randint(0, len(kws)), u)
    elif r < 0.6:
        nargs = nargs + rng.randint(1, 2)
    elif r < 0.7:
        nargs = max(0, nargs - rng.randint(1, 2))
    elif r < 0.8:
        cand = [p for p in pos + kwn if p not in kws]
        if cand:
            kws.insert(rng.randint(0, len(kws)), rng.choice(cand))
    return nargs, kws


HOWS = ("direct", "star", "map", "iter", "partial", "opcall", "tpcall")


def make_case(rng, sig, nargs, names, force_kind=None, nonstr=False):
    kinds = []
    for _ in names:
        kinds.append(force_kind or rng.choice("iiifs"))
    kws = [[k, nm, 20 + i] for i, (k, nm) in enumerate(zip(kinds, names))]
    if nonstr:
        kws.insert(rng.randint(0, len(kws)), ["n", "n%d" % rng.randint(0, 1), 20 + len(kws)])
    args = [10 + i for i in range(nargs)]
    if all(k[0] == "i" for k in kws):
        how = rng.choice(HOWS)
    else:
        how = rng.choice(HOWS[1:])
    split = [rng.randint(0, len(args)), rng.randint(0, len(kws))] if how == "partial" else None
    return {"args": args, "kws": kws, "how": how, "split": split}


def gen_cases(rng, sig, count, alts=()):
    """systematic part + seeded random part for one function; alts = tokens q<i>/r<j> (source spellings that differ
    from the caller-visible name)"""
    P, npo, ndef, star, sstar, kwo = sig
    pos, kwn, req_kw, minpos = sig_facts(sig)
    out = []
    for a in alts:                                # every parameter by keyword under BOTH spellings
        vis = ("p" if a[0] == "q" else "k") + a[1:]
        idx = int(a[1:]) if a[0] == "q" else P
        rest = [r for r in req_kw if r != vis]
        others = [p for p in pos[npo:minpos] if p != vis]
        for kind in "ifs":
            out.append(make_case(rng, sig, 0, [a] + others + rest, force_kind=kind))          # source spelling only
            out.append(make_case(rng, sig, 0, [vis] + others + rest, force_kind=kind))        # visible spelling only
            out.append(make_case(rng, sig, min(idx, P), [a] + rest, force_kind=kind))
            out.append(make_case(rng, sig, min(idx, P), [vis, a] + rest, force_kind=kind))    # both
            out.append(make_case(rng, sig, min(idx + 1, P), [a] + rest, force_kind=kind))     # positional + source spelling
    count += len(out)
    # boundary: every positional count without keywords, every single keyword of every kind at two counts
    for nargs in range(P + 3):
        out.append(make_case(rng, sig, nargs, []))
    for nm in pos + kwn + ["u0"]:
        for kind in "ifs":
            for nargs in {0, min(P, max(0, minpos)), P}:
                rest = [r for r in req_kw if r != nm]
                out.append(make_case(rng, sig, nargs, [nm] + rest, force_kind=kind))
    out.append(make_case(rng, sig, min(P, minpos), list(req_kw), nonstr=True))
    while len(out) < count:
        nargs, kws = valid_call(rng, sig)
        if alts and rng.random() < 0.35:
            a = rng.choice(list(alts))
            vis = ("p" if a[0] == "q" else "k") + a[1:]
            kws = [a if (k == vis and rng.random() < 0.6) else k for k in kws]
            if a not in kws:
                kws.insert(rng.randint(0, len(kws)), a)
        if rng.random() < 0.6:
            nargs, kws = mutate_call(rng, sig, nargs, kws)
            if rng.random() < 0.3:
                nargs, kws = mutate_call(rng, sig, nargs, kws)
        out.append(make_case(rng, sig, nargs, kws, nonstr=rng.random() < 0.04))
    return out


def model_line(op, cfg, sig, ctxk, case):
    P, npo, ndef, star, sstar, kwo = sig
    args = list(case["args"])
    if ctxk == "meth":
        args = [SELF_TAG] + args
    a = ",".join(str(v) for v in args) or "-"
    k = ",".join("%s.%d.%d" % (kd, name_id(nm), v) for kd, nm, v in case["kws"]) or "-"
    return "C24 %s %s %d %d %d %d %d %s %s %s" % (op, cfg, P, npo, ndef, star, sstar, kwo or "-", a, k)


def _kid(nm, rev):
    nm = (rev or {}).get(nm, nm)
    return name_id(nm) if isinstance(nm, str) and nm[:1] in "pkunqr" and nm[1:].isdigit() else nm


def render_outcome(sig, o, rev=None):
    """runner outcome -> the canonical line of the Lean model"""
    if "err" in o:
        return "err " + o["err"]
    if "crash" in o:
        return "crash " + o["crash"]
    vals, star, kw = o["ok"]
    P, npo, ndef, st, ss, kwo = sig
    ids = list(range(P)) + [100 + j for j in range(len(kwo))]
    if len(vals) != len(ids):
        return "ok malformed %r" % (o["ok"],)
    s = ",".join("%d=%s" % (i, v) for i, v in zip(ids, vals)) or "-"
    s += "|*=" + ("none" if star is None else (",".join(str(v) for v in star) or "-"))
    s += "|**=" + ("none" if kw is None else (",".join("%s.%s.%s" % (kd, _kid(nm, rev), v) for kd, nm, v in kw) or "-"))
    return "ok " + s


# ------------------------------------------------------------------ runner (child process, same script for impl and oracle)
RUNNER = r'''
import sys, json, importlib.util, functools, operator, types
job = json.load(open(sys.argv[1]))
start = int(sys.argv[2])
if job["kind"] == "so":
    spec = importlib.util.spec_from_file_location(job["modname"], job["path"])
    mod = importlib.util.module_from_spec(spec)
    sys.modules[job["modname"]] = mod
    spec.loader.exec_module(mod)
else:
    mod = types.ModuleType(job["modname"])
    exec(compile(open(job["path"]).read(), job["path"], "exec"), mod.__dict__)
INTERNED = {n: sys.intern(n) for n in job["strings"]}        # every string that may be a key exists interned
class S(str):
    pass
class M:                       # a mapping that is not a dict
    def __init__(self, d): self.d = d
    def keys(self): return list(self.d.keys())
    def __getitem__(self, k): return self.d[k]
NONSTR = {"n0": 7, "n1": b"p0"}
def mkkey(kind, name):
    if kind == "i": return INTERNED[name]
    if kind == "f":
        k = "".join(list(name))
        assert k is not INTERNED[name]
        return k
    if kind == "s": return S(name)
    return NONSTR[name]
def keykind(k):
    if type(k) is str:
        return ["i" if INTERNED.get(k) is k else "f", k]
    if isinstance(k, str):
        return ["s", str(k)]
    return ["n", repr(k)]
def callee(n, ctxk, acc):
    """(callable, prefix args, attribute to read from the result)"""
    g = lambda nm: getattr(mod, nm + str(n))
    if ctxk == "def": return g("f"), [], None
    if ctxk == "lam": return g("lam"), [], None
    if ctxk == "cpdef": return g("h"), [], None
    if ctxk == "clo": return g("mk")(), [], None
    if ctxk in ("meth", "cmeth"):
        K = g("K" if ctxk == "meth" else "D")
        inst = K()
        return (inst.m, [], None) if acc == "bound" else (K.m, [inst], None)
    if ctxk == "pstatic": return (g("L")().sm if acc == "bound" else g("L").sm), [], None
    if ctxk == "pclassm": return (g("M")().cm if acc == "bound" else g("M").cm), [], None
    if ctxk == "pnested": return g("N")().outer(), [], None
    if ctxk == "cnested": return g("O")().outer(), [], None
    if ctxk == "ccall": return g("E")(), [], None
    if ctxk == "cinit": return g("G"), [], "r"
    if ctxk == "cstatic": return (g("H")().sm if acc == "bound" else g("H").sm), [], None
    if ctxk == "cclassm": return (g("J")().cm if acc == "bound" else g("J").cm), [], None
    raise ValueError(ctxk)
def canon(v):
    return v if type(v) is int else @SELF@
def do_call(F, pre, case):
    args = pre + case["args"]
    how = case["how"]
    if how == "direct":
        env = {"F": F, "A": args}
        src = "F(" + "".join("A[%d], " % i for i in range(len(args))) + "".join("%s=%d, " % (nm, v) for kd, nm, v in case["kws"]) + ")"
        return eval(src, env)
    if how == "predup":            # same name as keyword and inside **mapping: CPython raises before the callee is entered
        nm = case["kws"][0][1]
        return eval("F(*A, %s=1, **{%r: 2})" % (nm, nm), {"F": F, "A": args})
    kws = [(mkkey(kd, nm), v) for kd, nm, v in case["kws"]]
    d = dict(kws)
    assert len(d) == len(kws)
    if how == "star": return F(*args, **d)
    if how == "map": return F(*args, **M(d))
    if how == "iter": return F(*iter(args), **d)
    if how == "opcall": return operator.call(F, *args, **d)
    if how == "tpcall": return type(F).__call__(F, *args, **d)      # the tp_call slot (CyFunction_CallAsMethod -> FastCallDict)
    if how == "partial":
        i, j = case["split"]
        i += len(pre)
        return functools.partial(F, *args[:i], **dict(kws[:j]))(*args[i:], **dict(kws[j:]))
    raise ValueError(how)
out = sys.stdout
for idx in range(start, len(job["cases"])):
    n, ctxk, acc, case = job["cases"][idx]
    try:
        F, pre, attr = callee(n, ctxk, acc)
        r = do_call(F, pre, case)
        if attr: r = getattr(r, attr)
        vals, star, kw = r
        res = {"ok": [[canon(v) for v in vals], None if star is None else [canon(v) for v in star],
                      None if kw is None else [keykind(k) + [canon(v)] for k, v in kw]]}
    except BaseException as e:
        res = {"err": type(e).__name__, "msg": str(e)[:120]}
    out.write(json.dumps(res) + "\n")
    out.flush()
'''.replace("@SELF@", str(SELF_TAG))


def run_job(ctx, job, tag, max_crashes=25):
    """run all cases of a job in child processes; a dying child is the outcome `crash` of that case.
    After `max_crashes` dead children the rest of the job is skipped (each crash costs a process start)."""
    jp = os.path.join(ctx.scratch, "job_%s.json" % tag)
    with open(jp, "w") as f:
        json.dump(job, f)
    rp = os.path.join(ctx.scratch, "c24_runner.py")
    if not os.path.exists(rp):
        with open(rp, "w") as f:
            f.write(RUNNER)
    n = len(job["cases"])
    results = []
    env = lib._clean_env()
    crashes = 0
    while len(results) < n:
        if crashes >= max_crashes:
            results.extend([{"skip": 1}] * (n - len(results)))
            break
        try:
            p = subprocess.run([lib.PYTHON, rp, jp, str(len(results))], stdout=subprocess.PIPE, stderr=subprocess.PIPE,
                               text=True, env=env, timeout=900)
        except subprocess.TimeoutExpired:
            raise lib.Infra("C24 runner timed out (%s)" % tag)
        got = [json.loads(l) for l in p.stdout.split("\n") if l.startswith("{")]
        results.extend(got)
        if len(results) >= n:
            break
        if p.returncode < 0:
            try:
                nm = signal.Signals(-p.returncode).name
            except ValueError:
                nm = str(p.returncode)
            results.append({"crash": nm})
            crashes += 1
        else:
            raise lib.Infra("C24 runner failed (%s): %s" % (tag, p.stderr[-600:]))
    return results[:n]


# ------------------------------------------------------------------ plan: which functions in which build variant
BOUNDARY_SIGS = [
    (0, 0, 0, 0, 0, ""), (1, 0, 0, 0, 0, ""), (1, 1, 0, 0, 0, ""), (1, 0, 1, 0, 0, ""), (2, 0, 0, 0, 0, ""),
    (0, 0, 0, 1, 0, ""), (0, 0, 0, 0, 1, ""), (0, 0, 0, 1, 1, ""), (0, 0, 0, 1, 0, "r"), (0, 0, 0, 0, 0, "ro"),
    (2, 1, 1, 0, 0, ""), (2, 2, 0, 0, 1, ""), (2, 2, 1, 1, 1, "o"), (3, 1, 1, 0, 1, "r"), (3, 0, 2, 1, 0, "or"),
    (3, 2, 2, 1, 1, "ro"), (3, 3, 0, 0, 0, "r"), (3, 1, 0, 0, 0, "oro"), (2, 0, 1, 1, 1, "rr"), (1, 0, 0, 0, 1, ""),
    (1, 1, 1, 0, 1, "o"), (3, 0, 3, 0, 0, ""), (3, 0, 0, 1, 1, "rro"), (2, 1, 2, 0, 1, "ooo"),
]


def make_plan(ctx, scale=1.0):
    rng = ctx.rng
    universe = all_sigs()
    nrand = int(ctx.n(14, 300) * scale)
    sigs = list(BOUNDARY_SIGS) + rng.sample(universe, min(nrand, len(universe)))
    plan = {v: [] for v in VARIANTS}          # variant -> list of (sig, ctxk, kwused)
    for i, sig in enumerate(sigs):
        for v, (_, _, ctxs, _) in VARIANTS.items():
            if v == "o2" and ctx.quick:
                continue
            if v != "default" and i >= len(BOUNDARY_SIGS) and rng.random() >= VARIANT_SHARE[v]:
                continue
            ok = [c for c in ctxs if ctx_ok(c, sig)]
            chosen = {"def"} if "def" in ok else set()
            k = (2 if v == "default" else 1) if ctx.quick else (4 if v == "default" else 2)
            chosen |= set(rng.sample(ok, min(k, len(ok))))
            for c in sorted(chosen):
                kwused = not (sig[4] and rng.random() < 0.3)
                plan[v].append((sig, c, kwused, []))
    for variant, sig, ctxk, kwused, cases in witness_items():
        plan[variant].insert(0, (sig, ctxk, kwused, cases))
    return plan


def build_modules(ctx, plan, chunk=60):
    """-> list of module dicts {variant, entries:[(n,sig,ctxk,kwused)], so | error, twin}"""
    mods = []
    for v, items in plan.items():
        for c0 in range(0, len(items), chunk):
            part = items[c0:c0 + chunk]
            name = "c24_%s_%d" % (v, c0 // chunk)
            cy, py, entries = [], [], []
            for n, (sig, ctxk, kwused, extra) in enumerate(part):
                a, b = entry_source(n, ctxk, sig, kwused)
                cy.append(a)
                py.append(b)
                entries.append((n, sig, ctxk, kwused, extra))
            mods.append({"variant": v, "name": name, "entries": entries, "cy": "".join(cy), "py": "".join(py)})
    specs = [{"name": m["name"], "source": m["cy"], "directives": VARIANTS[m["variant"]][0],
              "cflags": VARIANTS[m["variant"]][1], "opt": VARIANT_OPT.get(m["variant"], "-O0")} for m in mods]
    built = cybuild.build_many(ctx, specs, workers=12)
    for m, b in zip(mods, built):
        m["so"] = b
        tp = os.path.join(ctx.scratch, m["name"] + "_twin.py")
        with open(tp, "w") as f:
            f.write(m["py"])
        m["twin"] = tp
    return mods


def accessors(rng, ctxk):
    if ctxk in ("meth", "cmeth", "cstatic", "cclassm", "pstatic", "pclassm"):
        return rng.choice(("bound", "unbound"))
    return None


def is_aak_shape(variant, sig, case):
    """the documented consequence of always_allow_keywords=False: a METH_O function takes no keywords"""
    P, npo, ndef, star, sstar, kwo = sig
    return (variant == "noaak" and P == 1 and npo == 0 and ndef == 0 and not star and not sstar and not kwo
            and len(case["args"]) == 0 and len(case["kws"]) == 1 and case["kws"][0][1] == "p0" and case["kws"][0][0] != "n")


def case_features(sig, case):
    P = sig[0]
    kinds = "".join(sorted(set(k[0] for k in case["kws"]))) or "-"
    given = set("p%d" % i for i in range(min(len(case["args"]), P)))
    dup = any(k[1] in given for k in case["kws"])
    unknown = any(k[1][0] in "un" for k in case["kws"])
    alt = any(k[1][0] in "qr" for k in case["kws"])
    return "kinds=%s%s%s%s" % (kinds, ",dup" if dup else "", ",unknown" if unknown else "", ",source-spelling" if alt else "")


def short(x, n=300):
    s = x if isinstance(x, str) else json.dumps(x)
    return s if len(s) <= n else s[:n] + "..."


# ------------------------------------------------------------------ evaluation of one batch of modules
def evaluate(ctx, mods, cases_per_fn, exhaustive=False, record=True):
    """runs impl / oracle / both models on generated cases; returns number of (tie breaks, violations) raised"""
    rng = ctx.rng
    nt = nv = 0
    for m in mods:
        if isinstance(m["so"], cybuild.BuildError):
            ctx.tie_break("D-c build of " + m["name"], m["so"].stage + ": " + short(m["so"].log[-400:], 380),
                          {"variant": m["variant"], "source": m["cy"][:3000]})
            nt += 1
            continue
        cases = []           # (n, ctxk, acc, case)
        meta = []            # (sig, ctxk, kwused, cfg)
        for n, sig, ctxk, kwused, extra in m["entries"]:
            cfg = entry_cfg(m["variant"], ctxk, sig, kwused)
            tok = token_strings(param_names(n, ctxk, sig))
            alts = sorted(k for k in tok if k[0] in "qr")
            cs = [] if m.get("fixed_only") else (exhaustive_cases(sig, alts=alts) if exhaustive else gen_cases(rng, sig, cases_per_fn, alts))
            for ci, case in enumerate(list(extra) + cs):
                case = dict(case)
                if ctxk == "meth" and ci >= len(extra):
                    case["args"] = case["args"][:-1]             # p0 is the instance
                    if case["split"]:
                        case["split"] = [min(case["split"][0], len(case["args"])), case["split"][1]]
                acc = case.pop("acc", None) or accessors(rng, ctxk)
                case["kws"] = [k for k in case["kws"] if k[1] in tok]          # a replayed alt spelling that does not exist here
                if case["how"] == "direct" and not all(tok[k[1]].isascii() for k in case["kws"]):
                    case["how"] = "star"         # the parser would NFKC-normalise a non-ASCII keyword written in source
                cases.append([n, ctxk, acc, case])
                meta.append((sig, ctxk, kwused, cfg, tok))
        strings = set()
        jcases = []
        for (n, ctxk, acc, case), mt in zip(cases, meta):
            tk = mt[4]
            strings.update(tk.values())
            jcases.append([n, ctxk, acc, dict(case, kws=[[kd, tk[nm], v] for kd, nm, v in case["kws"]])])
        job = {"modname": m["name"], "cases": jcases, "strings": sorted(strings)}
        impl = run_job(ctx, dict(job, kind="so", path=m["so"]), m["name"] + "_so")
        orac = run_job(ctx, dict(job, kind="py", path=m["twin"]), m["name"] + "_py")
        lines = []
        for (n, ctxk, acc, case), (sig, _, kwused, cfg, _tk) in zip(cases, meta):
            if case["how"] == "predup":
                continue
            lines.append(model_line("bind", cfg, sig, ctxk, case))
            lines.append(model_line("py", cfg, sig, ctxk, case))
        mout = iter(ctx.drv.batch(lines)) if lines else iter(())
        for (n, ctxk, acc, case), (sig, _, kwused, cfg, tk), io, oo in zip(cases, meta, impl, orac):
            rev = {v: k for k, v in tk.items()}
            nm = param_names(n, ctxk, sig)
            predup = case["how"] == "predup"
            mc, mp = (None, None) if predup else (next(mout), next(mout))
            if "skip" in io or "skip" in oo:
                continue
            ri, ro = render_outcome(sig, io, rev), render_outcome(sig, oo, rev)
            if predup:
                mc, mp = ri, ro
            replay = {"variant": m["variant"], "sig": list(sig), "ctxk": ctxk, "kwused": kwused, "acc": acc, "case": case,
                      "def": short(sig_params(sig, names=nm), 200), "class": nm["cls"],
                      "key_strings": {k[1]: tk.get(k[1]) for k in case["kws"]}}
            if record:
                ctx.count("%s/%s/%s/%s" % (m["variant"], ctxk, case["how"], ro.split(" ")[0] + ("" if ro.startswith("ok") else "-" + ro.split(" ")[1])))
                ctx.seen((m["variant"], ctxk, sig, kwused, acc, json.dumps(case, sort_keys=True)), nontrivial=bool(case["kws"]) or bool(case["args"]))
                if ro.startswith("ok") and len(case["kws"]) >= 2:
                    ctx.sample({"variant": m["variant"], "ctx": ctxk, "def": short(sig_params(sig, names=nm), 80), "class": nm["cls"], "call": short(case, 200),
                                "impl": short(ri, 120), "model": short(mc, 120), "oracle": short(ro, 120)})
            if ri != ro:
                nv += 1
                if is_aak_shape(m["variant"], sig, case) and ri == "err TypeError":
                    key = "always_allow_keywords-false:single-required-arg-by-keyword"
                else:
                    key = "%s:%s:%s:impl-%s/oracle-%s:%s" % (m["variant"], ctxk, case["how"], ri.split(" ")[0], ro.split(" ")[0], case_features(sig, case))
                ctx.violation(key, "def (%s) [%s, %s] call %s: compiled %s, CPython %s" % (
                    short(sig_params(sig, names=nm), 70), ctxk, m["variant"], short(case, 110), short(ri, 70), short(ro, 70)), replay)
            if mc != ri:
                nt += 1
                ctx.tie_break("D-c generated wrapper vs CyVerif.C24.cyBind", "def (%s) [%s, %s, cfg %s] call %s: model %s impl %s" % (
                    short(sig_params(sig, names=nm), 70), ctxk, m["variant"], cfg, short(case, 110), short(mc, 70), short(ri, 70)), replay)
            if mp != ro:
                nt += 1
                ctx.tie_break("CPython initialize_locals vs CyVerif.C24.pyBind", "def (%s) call %s: model %s CPython %s" % (
                    short(sig_params(sig, names=nm), 70), short(case, 130), short(mp, 80), short(ro, 80)), replay)
    return nt, nv


def exhaustive_cases(sig, maxkw=2, alts=()):
    """every positional count x every ordered keyword list of <= maxkw distinct names over all kinds (search around a disagreement)"""
    P, npo, ndef, star, sstar, kwo = sig
    pos, kwn, req_kw, minpos = sig_facts(sig)
    names = pos + kwn + ["u0"] + list(alts)
    out = []
    for nargs in range(P + 3):
        for r in range(maxkw + 1):
            for combo in itertools.permutations(names, r):
                for kinds in itertools.product("ifs", repeat=r):
                    kws = [[kd, nm, 20 + i] for i, (kd, nm) in enumerate(zip(kinds, combo))]
                    for how in (("direct", "star") if all(k == "i" for k in kinds) else ("star",)):
                        out.append({"args": [10 + i for i in range(nargs)], "kws": kws, "how": how, "split": None})
    return out[:6000]


# ------------------------------------------------------------------ fixed witnesses (replayed first on every run)
def witness_items():
    """(i) the counterexample theorem's witness: always_allow_keywords=False, `def f(p0)` called as f(p0=..);
       (ii) duplicates that CPython rejects before the callee is entered; (iii) corpus files."""
    items = []
    w = {"args": [], "kws": [["i", "p0", 20]], "how": "direct", "split": None}
    items.append(("noaak", (1, 0, 0, 0, 0, ""), "def", True, [w, dict(w, how="star"), dict(w, kws=[["s", "p0", 20]], how="star")]))
    items.append(("noaak", (1, 0, 0, 0, 0, ""), "cmeth", True, [dict(w, acc="bound"), dict(w, acc="unbound", how="star")]))
    pd = {"args": [], "kws": [["i", "p0", 1]], "how": "predup", "split": None}
    items.append(("default", (2, 0, 1, 0, 1, ""), "def", True, [pd, dict(pd, args=[10])]))
    items.append(("default", (2, 0, 1, 0, 1, ""), "ccall", True, [pd]))
    z = {"args": [], "kws": [], "how": "star", "split": None}
    for acc in ("bound", "unbound"):          # METH_NOARGS / METH_O entry of a cdef-class method (self = args[0])
        items.append(("noaak", (0, 0, 0, 0, 0, ""), "cmeth", True, [dict(z, acc=acc), dict(z, acc=acc, args=[10]), dict(z, acc=acc, how="tpcall")]))
        items.append(("noaak", (1, 0, 0, 0, 0, ""), "cmeth", True, [dict(z, acc=acc, args=[10]), dict(z, acc=acc, args=[10, 11]), dict(z, acc=acc, args=[10], how="tpcall")]))
    items.append(("default", (2, 0, 1, 0, 0, ""), "def", True, [dict(z, args=[10], kws=[["n", "n0", 20]], how="tpcall"), dict(z, args=[10], kws=[["s", "p1", 20]], how="tpcall")]))
    items.append(("nobinding", (0, 0, 0, 0, 0, ""), "def", True, [dict(z), dict(z, args=[10]), dict(z, kws=[["i", "u0", 20]])]))
    items.append(("nobinding", (1, 1, 0, 0, 0, ""), "def", True, [dict(z, args=[10]), dict(z, args=[10, 11]), dict(z, kws=[["i", "p0", 20]])]))
    cdir = os.path.join(lib.VERIF, "corpus", "C24")
    if os.path.isdir(cdir):
        for fn in sorted(os.listdir(cdir)):
            if fn.endswith(".json"):
                r = json.load(open(os.path.join(cdir, fn)))
                if "variant" not in r:          # a replay file written by ./check: the record sits under "case"
                    r = r["case"]
                items.append((r["variant"], tuple(r["sig"]), r["ctxk"], r["kwused"], [dict(r["case"], acc=r.get("acc"))]))
    return items


def build_fixed(ctx, items, tag):
    mods = []
    for i, (variant, sig, ctxk, kwused, cases) in enumerate(items):
        a, b = entry_source(0, ctxk, sig, kwused)
        mods.append({"variant": variant, "name": "c24_%s_%d" % (tag, i), "entries": [(0, sig, ctxk, kwused, cases or [])], "cy": a, "py": b,
                     "fixed_only": True})
    specs = [{"name": m["name"], "source": m["cy"], "directives": VARIANTS[m["variant"]][0],
              "cflags": VARIANTS[m["variant"]][1]} for m in mods]
    for m, b in zip(mods, cybuild.build_many(ctx, specs, workers=12)):
        m["so"] = b
        m["twin"] = os.path.join(ctx.scratch, m["name"] + "_twin.py")
        with open(m["twin"], "w") as f:
            f.write(m["py"])
    return mods


def run(ctx):
    ctx.rule = ("functions generated from signatures (P<=3 positional incl. npo<=P positional-only and ndef<=P defaults, *args?, up to 3 "
                "keyword-only each required/optional, **kw?; 24 boundary signatures + seeded sample of the 8640) in 14 definition contexts (module-level "
                "def, lambda, closure; Python-class method / staticmethod / classmethod / function nested in a method; cdef-class method / __call__ / "
                "__init__ / staticmethod / classmethod / nested function; cpdef) with parameter NAME SHAPES drawn per parameter from ordinary, "
                "class-private (__x), dunder (__x__), underscore, already-mangled-looking (_Cls__x) and non-ASCII (NFKC: fi-ligature -> fi) names; every "
                "such parameter is passed by keyword under the caller-visible spelling (mangled / normalised) AND the source spelling; x 4 builds "
                "(default, binding=False, always_allow_keywords=False, -DCYTHON_VECTORCALL=0; thorough: also gcc -O2); calls = systematic positional counts and "
                "single keywords of each key kind + seeded valid calls and their mutations (drop, duplicate of a positional, unknown name, "
                "+-positional, non-str key), delivered by keyword syntax, *seq/**dict, **custom mapping, *iterator, functools.partial, "
                "operator.call, type(f).__call__ (tp_call slot), bound/unbound method; non-trivial = the call passes at least one argument; distinct by (build, context, "
                "signature, call)")
    ctx.explanation = ("Theorem binding_eq covers the binding algorithm itself at full strength for always_allow_keywords=True "
                       "(every signature, every call at the callee boundary, vectorcall and dict entry, used/unused **kwargs). Not covered "
                       "by a theorem: that the compiler emits this wrapper for every def-like construct (tied by the differential over 10 "
                       "contexts), conversion of C-typed arguments, keys of str subclasses that override __eq__/__hash__, fused/cdef "
                       "functions, reference counting, exception messages.")
    ctx.assumptions = ["keyword keys of a call are pairwise distinct as strings (CPython's call machinery merges ** mappings into a dict and rejects "
                       "duplicates before the callee is entered); str-subclass keys keep str.__eq__/__hash__",
                       "vectorcall kwnames contain only str (subclass) objects (guaranteed by CPython >= 3.9)"]
    ctx.extra_trusted = ["the source generator of the test functions and the child-process runner (same script drives the compiled module and the CPython twin)"]
    if ctx.replay_case:
        r = ctx.replay_case if "variant" in ctx.replay_case else ctx.replay_case["case"]
        mods = build_fixed(ctx, [(r["variant"], tuple(r["sig"]), r["ctxk"], r["kwused"], [dict(r["case"], acc=r.get("acc"))])], "replay")
        evaluate(ctx, mods, 0)
        return
    import time
    # regenerated fact the full theorem's scope depends on: the directive default
    try:
        from Cython.Compiler import Options as _opts
        dflt = _opts.get_directive_defaults().get("always_allow_keywords")
    except Exception as e:      # refactored away: a broken tie, not a crash
        dflt = "unreadable: %s" % type(e).__name__
    ctx.obligation("directive default always_allow_keywords == True (scope of binding_eq = default builds)", dflt is True,
                   "Cython.Compiler.Options.get_directive_defaults()['always_allow_keywords'] = %r" % (dflt,))
    # 1.+2. witnesses / corpus entries come first in each module, then the generated functions
    plan = make_plan(ctx)
    ctx.notes["functions"] = {v: len(p) for v, p in plan.items()}
    t0 = time.time()
    mods = build_modules(ctx, plan)
    ctx.notes["t_build_s"] = round(time.time() - t0, 1)
    t0 = time.time()
    nt, nv = evaluate(ctx, mods, ctx.n(36, 70))
    ctx.notes["t_eval_s"] = round(time.time() - t0, 1)
    # 3. search around disagreements: exhaustive small calls for the affected functions
    if ctx.tie_breaks:
        seen, items = set(), []
        for t in ctx.tie_breaks:
            r = t["replay"]
            if "sig" not in r:
                continue
            k = (r["variant"], tuple(r["sig"]), r["ctxk"], r["kwused"])
            if k not in seen and len(items) < 6:
                seen.add(k)
                items.append(k + (None,))
        smods = build_fixed(ctx, items, "search")
        for m in smods:
            m.pop("fixed_only")
        evaluate(ctx, smods, 0, exhaustive=True, record=False)
        ctx.notes["search"] = "exhaustive calls (<=2 keywords, all kinds, all counts) on %d functions around the disagreements" % len(items)

"""C42: generator of .pyx modules that stress every order-sensitive emitter (string/number tables, cname counters,
closure / lambda / genexpr counters, vtable + type ordering, fused specialisations, utility code, type inference)."""

WORDS = ["alpha", "beta", "gamma", "delta", "eps", "zeta", "eta", "theta", "iota", "kappa", "lam", "mu", "nu", "xi", "omi", "pi_", "rho",
         "sigma", "tau", "ups", "phi", "chi", "psi", "omega"]
SEPS = [" ", "-", ".", "/", "::", "  ", "\\t", "!", "%", "é", "ß", "_", "__"]


def ident(rng, used, prefix=""):
    while True:
        n = prefix + rng.choice(WORDS) + rng.choice(["", "_", "2", "_x", "Y"]) + str(rng.randrange(1000))
        if n not in used:
            used.add(n)
            return n


def colliding_strings(rng, n):
    """string literals whose cleaned cname suffixes collide (counter-keyed names) or are long (32-char cut)"""
    out = []
    for _ in range(n):
        a, b = rng.choice(WORDS), rng.choice(WORDS)
        for sep in rng.sample(SEPS, 3):
            out.append(a + sep + b)
        out.append((a + "_") * 12 + rng.choice(SEPS) + b)
    return out


def lit(rng, s, kind=None):
    kind = kind or rng.choice(["u", "u", "b", "f"])
    body = s.replace('"', "")
    if kind == "b":
        body = body.encode("ascii", "replace").decode("ascii")
        return 'b"%s"' % body
    if kind == "f":
        return 'f"%s{x}%s"' % (body, body[::-1].replace("\\", "").replace("t", "T"))
    return '"%s"' % body


def numbers(rng, n):
    out = []
    for _ in range(n):
        k = rng.randrange(8)
        if k == 0:
            out.append(str(rng.randrange(-300, 300)))
        elif k == 1:
            out.append(str(rng.choice([2 ** 31, -2 ** 31, 2 ** 63 - 1, 2 ** 63, -2 ** 63, 2 ** 64, 2 ** 15, 127, 128, 255, 256, 32767, 32768])))
        elif k == 2:
            out.append(str(rng.randrange(10 ** 43, 10 ** 44)))          # > 42 characters: `large{counter}` names
        elif k == 3:
            base = "1234567890" * 5
            out.append(base[:18] + str(rng.randrange(10 ** 10, 10 ** 11)) + base[:18])   # same head and tail: counter collisions
        elif k == 4:
            out.append("%d.%d" % (rng.randrange(100), rng.randrange(1000)))
        elif k == 5:
            out.append("%de%s%d" % (rng.randrange(1, 9), rng.choice(["+", "-", ""]), rng.randrange(1, 30)))
        elif k == 6:
            out.append(hex(rng.randrange(2 ** 70)))
        else:
            out.append(str(-rng.randrange(10 ** 20)))
    return out


def gen_module(rng, size=1, memview=False):
    used = set()
    L = ["# cython: language_level=3, binding=True", "cimport cython", "from libc.math cimport sqrt, floor", "from libc.stdlib cimport malloc, free",
         "import sys, os.path as osp", "from collections import OrderedDict, defaultdict, deque"]
    strs = colliding_strings(rng, 4 * size)
    nums = numbers(rng, 14 * size)
    # module-level constants: tuples (dedup), sets / frozensets / dicts of strings
    for i in range(5 * size):
        items = ", ".join(lit(rng, s, rng.choice("ub")) for s in rng.sample(strs, min(len(strs), rng.randrange(2, 6))))
        kind = rng.randrange(5)
        name = ident(rng, used, "K")
        if kind == 0:
            L.append("%s = (%s, %s)" % (name, items, rng.choice(nums)))
        elif kind == 1:
            L.append("%s = {%s}" % (name, items))
        elif kind == 2:
            L.append("%s = frozenset((%s,))" % (name, items))
        elif kind == 3:
            L.append("%s = {%s}" % (name, ", ".join("%s: %s" % (lit(rng, s, "u"), rng.choice(nums)) for s in rng.sample(strs, 3))))
        else:
            L.append("%s = [%s] + [%s]" % (name, items, ", ".join(rng.sample(nums, 3))))
    # fused types + ctuples + struct / union / enum
    L += ["ctypedef fused num_t:", "    int", "    long", "    double", "    float", "",
          "ctypedef fused obj_t:", "    list", "    dict", "    object", "",
          "cdef struct %s:" % ident(rng, used, "S"), "    int a", "    double b", "    (int, double) c", "",
          "cpdef enum %s:" % ident(rng, used, "E")] + ["    %s = %d" % (ident(rng, used, "ev_"), i) for i in range(3)] + [""]
    for i in range(2 * size):
        f = ident(rng, used, "fz_")
        L += ["cpdef num_t %s(num_t a, num_t b, obj_t o=None):" % f,
              "    cdef (num_t, int) t = (a, 1)",
              "    if num_t is double:", "        return a + b + %s" % rng.choice([n for n in nums if "x" not in n]),
              "    elif num_t is int:", "        return a * b",
              "    return a - b + t[0]", ""]
    # cdef class hierarchy (vtables, objstructs); children may be declared before use through forward order
    classes = []
    for i in range(4 * size):
        c = ident(rng, used, "C")
        base = rng.choice(classes) if classes and rng.random() < 0.7 else None
        classes.append(c)
        L.append("cdef class %s%s:" % (c, "(%s)" % base if base else ""))
        L.append("    cdef public int %s" % ident(rng, used, "at_"))
        L.append("    cdef object %s" % ident(rng, used, "ob_"))
        for j in range(rng.randrange(1, 4)):
            m = ident(rng, used, "m_")
            kind = rng.choice(["cdef", "cpdef", "def"])
            L.append("    %s %s(self%s):" % (kind, m, ", int q=%s" % rng.choice(["1", "2", "-3"]) if kind != "cdef" else ""))
            L.append("        return %s" % lit(rng, rng.choice(strs), "u"))
        if rng.random() < 0.5:
            L += ["    @property", "    def %s(self):" % ident(rng, used, "p_"), "        return (%s, %s)" % (rng.choice(nums), lit(rng, rng.choice(strs), "b"))]
        L.append("")
    # python classes, closures, lambdas, generator expressions, comprehensions, generators, async
    for i in range(4 * size):
        f = ident(rng, used, "f_")
        a, b, c = ident(rng, used), ident(rng, used), ident(rng, used)
        L += ["def %s(%s, %s=%s, *args, %s=%s, **kw):" % (f, a, b, rng.choice(nums), c, lit(rng, rng.choice(strs), "u")),
              "    x = %s" % rng.choice(nums),
              "    x = %s" % lit(rng, rng.choice(strs), "u") if rng.random() < 0.5 else "    x = x + 1",
              "    y = 1", "    y = 2.5", "    y = %s" % rng.choice(["3", "y * 2", "1e3"]),
              "    z = 'a'", "    z = %s" % rng.choice(["None", "[x]", "b'q'", "x"]),
              "    g = (i * %s for i in range(%s) if i)" % (a, rng.choice(["3", "x", "10"])),
              "    h = lambda z, w=%s: (z, w, %s, x)" % (rng.choice(nums), a),
              "    def inner(p, q=%s):" % lit(rng, rng.choice(strs)),
              "        nonlocal x",
              "        k = lambda: (p, x, %s)" % b,
              "        return [k() for _ in range(2)], {v: k for v in %s}, {u for u in kw}" % rng.choice(["args", "kw", "'ab'"]),
              "    try:",
              "        return inner(%s), list(g), h(1), sorted(kw, key=lambda s: s[::-1]), %s" % (c, lit(rng, rng.choice(strs), "f")),
              "    except (KeyError, %s) as e:" % rng.choice(["ValueError", "TypeError", "OSError"]),
              "        raise RuntimeError(%s) from e" % lit(rng, rng.choice(strs), "u"),
              "    finally:", "        y = x", ""]
    g = ident(rng, used, "gen_")
    L += ["def %s(n):" % g, "    for i in range(n):", "        v = yield (i, %s)" % lit(rng, rng.choice(strs), "u"), "        if v: yield from (j for j in v)", "",
          "async def %s(a):" % ident(rng, used, "co_"), "    async with a as b:", "        return [x async for x in b], await a", "",
          "class %s(dict):" % ident(rng, used, "P"), "    __slots__ = (%s,)" % ", ".join('"%s"' % ident(rng, used) for _ in range(3)),
          "    def %s(self, *a, **k):" % ident(rng, used), "        return super().get(*a, **k), {**k}, [*a], %s.%s" % ("osp", "join"), ""]
    if memview:
        L += ["def %s(double[:, ::1] a, int[:] b, num_t w):" % ident(rng, used, "mv_"), "    cdef Py_ssize_t i", "    cdef double s = 0",
              "    for i in range(a.shape[0]):", "        s += a[i, 0] * b[i] + w", "    return s, a[1:, :2], b[::-1]", ""]
    return "\n".join(L) + "\n"

"""C49 — StringIOTree assembles generated code in insertion-point order; markers stay aligned.

Three-way on every operation history:
  implementation  staged Cython.StringIOTree.StringIOTree (pure Python source of the working tree)
  model           Lean heap model (`C49 run …` in cydrv) — the object the theorems talk about
  oracle          flat document with named holes, computed here in Python on a plain list
                  (and, as a 4th leg, the Lean executable spec `C49 spec …`, which is the right-hand
                  side of the theorems, is compared with the Python oracle)
Observed after every history: getvalue / allmarkers / empty() / copyto of EVERY buffer handle.
Glue leg: the same on CCodeWriter.insertion_point / insert / new_writer / write / put / putln.
"""
import io
import itertools
import sys

import lib

# ---------------------------------------------------------------------------
# operation histories.  An op is a tuple:
#   ('n',)  StringIOTree()                  ('i', b)  h = b.insertion_point()
#   ('w', b, text, markers)  b.markers.extend(markers); b.write(text)
#   ('p', b, text, pos)      same with markers = [pos] * text.count('\n')   (CCodeWriter.write)
#   ('s', b, t)  b.insert(t)    ('c', b)  b.commit()    ('r', b)  b.reset()
# buffers are named by creation order.


def tok(op):
    k = op[0]
    if k == 'n':
        return 'n'
    if k == 'w':
        return 'w:%d:%s:%s' % (op[1], hexs(op[2]), ','.join(map(str, op[3])) or '-')
    if k == 'p':
        return 'p:%d:%s:%d' % (op[1], hexs(op[2]), op[3])
    if k == 's':
        return 's:%d:%d' % (op[1], op[2])
    return '%s:%d' % (k, op[1])


def untok(t):
    f = t.split(':')
    if f[0] == 'n':
        return ('n',)
    if f[0] == 'w':
        return ('w', int(f[1]), unhex(f[2]), [] if f[3] == '-' else [int(x) for x in f[3].split(',')])
    if f[0] == 'p':
        return ('p', int(f[1]), unhex(f[2]), int(f[3]))
    if f[0] == 's':
        return ('s', int(f[1]), int(f[2]))
    return (f[0], int(f[1]))


def hexs(s):
    return ''.join('%02x' % ord(c) for c in s) or '-'


def unhex(h):
    return '' if h == '-' else ''.join(chr(int(h[i:i + 2], 16)) for i in range(0, len(h), 2))


def frag_of(op):
    """(text, markers) of a write op"""
    if op[0] == 'w':
        return op[2], list(op[3])
    return op[2], [op[3]] * op[2].count('\n')


# ---------------------------------------------------------------------------
# implementation leg


class Recorder:
    def __init__(self):
        self.chunks = []

    def write(self, s):
        self.chunks.append(s)


def guarded(f):
    try:
        return ('ok', f())
    except RecursionError:
        return ('err', 'RecursionError')
    except Exception as e:  # observation, not infrastructure
        return ('err', type(e).__name__)


def run_impl(cls, ops):
    """-> list of observation strings per handle, or None if a handle is unknown (model: bad-op)"""
    hs = []
    for op in ops:
        k = op[0]
        if k == 'n':
            hs.append(cls())
            continue
        if op[1] >= len(hs) or (k == 's' and op[2] >= len(hs)):
            return None
        b = hs[op[1]]
        if k in 'wp':
            text, ms = frag_of(op)
            b.markers.extend(ms)
            b.write(text)
        elif k == 'i':
            hs.append(b.insertion_point())
        elif k == 's':
            b.insert(hs[op[2]])
        elif k == 'c':
            b.commit()
        elif k == 'r':
            b.reset()
        else:
            raise lib.Infra("unknown op %r" % (op,))
    return [observe_tree(b) for b in hs]


def show(r, f):
    return f(r[1]) if r[0] == 'ok' else '!' + r[1]


def observe_tree(b):
    g = guarded(b.getvalue)
    m = guarded(b.allmarkers)
    e = guarded(b.empty)

    def cp():
        rec = Recorder()
        b.copyto(rec)
        return rec.chunks
    c = guarded(cp)
    return '|'.join([show(g, hexs),
                     show(m, lambda v: '[' + ','.join(map(str, v)) + ']'),
                     show(e, lambda v: 'T' if v else 'F'),
                     show(c, lambda v: ','.join(hexs(x) for x in v) if v else '.')])


# ---------------------------------------------------------------------------
# oracle leg: ONE flat list per run; items ('f', text, markers) | ('o', b) | ('c', b)


class GuardFail(Exception):
    pass


def seg_bounds(doc, b):
    i = doc.index(('o', b))
    j = doc.index(('c', b))
    if not i < j:
        raise AssertionError("oracle invariant broken")
    return i, j


class FlatDoc:
    """The reference: one flat list; `step` raises GuardFail outside the guard (unknown buffer,
    markers without text, insert of something that is not a stand-alone tree, insert into itself)."""

    def __init__(self):
        self.doc = []
        self.n = 0
        self.roots = set()

    def legal_inserts(self, b):
        res = []
        for t in sorted(self.roots):
            if t != b:
                i, j = seg_bounds(self.doc, t)
                if ('c', b) not in self.doc[i:j + 1]:
                    res.append(t)
        return res

    def step(self, op):
        doc = self.doc
        k = op[0]
        if k == 'n':
            doc += [('o', self.n), ('c', self.n)]
            self.roots.add(self.n)
            self.n += 1
            return
        b = op[1]
        if b >= self.n:
            raise GuardFail
        if k in 'wp':
            text, ms = frag_of(op)
            if text == '':
                if ms:
                    raise GuardFail
                return
            doc.insert(doc.index(('c', b)), ('f', text, tuple(ms)))
        elif k == 'i':
            j = doc.index(('c', b))
            doc[j:j] = [('o', self.n), ('c', self.n)]
            self.n += 1
        elif k == 's':
            t = op[2]
            if t not in self.roots or t == b:
                raise GuardFail
            i, j = seg_bounds(doc, t)
            seg = doc[i:j + 1]
            if ('c', b) in seg:
                raise GuardFail
            del doc[i:j + 1]
            jb = doc.index(('c', b))
            doc[jb:jb] = seg
            self.roots.discard(t)
        elif k == 'c':
            pass
        elif k == 'r':
            i, j = seg_bounds(doc, b)
            inner = doc[i + 1:j]
            del doc[i + 1:j]
            depth = 0
            for it in inner:      # nested buffers become stand-alone again, own text is dropped
                if it[0] == 'o':
                    if depth == 0:
                        self.roots.add(it[1])
                    depth += 1
                if depth > 0:
                    doc.append(it)
                if it[0] == 'c':
                    depth -= 1
        else:
            raise lib.Infra("unknown op %r" % (op,))

    def observe(self):
        obs = []
        for b in range(self.n):
            i, j = seg_bounds(self.doc, b)
            fr = [it for it in self.doc[i + 1:j] if it[0] == 'f']
            text = ''.join(f[1] for f in fr)
            obs.append((text, [m for f in fr for m in f[2]], text == ''))
        return obs


def run_oracle(ops):
    """-> list of (text, markers, empty) per buffer, or None when the history is outside the guard"""
    d = FlatDoc()
    try:
        for op in ops:
            d.step(op)
    except GuardFail:
        return None
    return d.observe()


def oracle_strings(obs):
    """oracle observation in the canonical per-handle form, without the copyto part"""
    return ['|'.join([hexs(t), '[' + ','.join(map(str, ms)) + ']', 'T' if e else 'F']) for t, ms, e in obs]


# ---------------------------------------------------------------------------
# generators


def enum_histories(maxlen, maxbuf, variants):
    """All histories of length 1..maxlen that start with `new` and only use existing handles,
    at most `maxbuf` buffers.  Every write gets a text that is unique in the history (letter = op
    index), so a lost / duplicated / misplaced fragment is visible.  `variants` selects write shapes."""
    out = []

    def rec(prefix, k):
        if prefix:
            out.append(tuple(prefix))
        if len(prefix) == maxlen:
            return
        j = len(prefix)
        ch = chr(ord('a') + j)
        nxt = []
        if k < maxbuf:
            nxt.append((('n',), k + 1))
        for b in range(k):
            if k < maxbuf:
                nxt.append((('i', b), k + 1))
            for v in variants:
                if v == 'plain':
                    nxt.append((('w', b, ch, []), k))
                elif v == 'line':
                    nxt.append((('p', b, ch + '\n', j + 1), k))
                elif v == 'two':
                    nxt.append((('p', b, ch + '\n' + ch.upper() + '\n', j + 1), k))
                elif v == 'empty':
                    nxt.append((('w', b, '', []), k))
                elif v == 'markonly':
                    nxt.append((('w', b, '', [j + 1]), k))
            for t in range(k):
                nxt.append((('s', b, t), k))
            nxt.append((('c', b), k))
            nxt.append((('r', b), k))
        for op, k2 in nxt:
            prefix.append(op)
            rec(prefix, k2)
            prefix.pop()

    rec([('n',)], 1)
    return out


def random_history(rng, length, maxbuf, p_bad):
    """Long random history, steered by the reference so that most inserts are legal; with
    probability p_bad an insert / marker write is allowed to violate the guard."""
    ops = [('n',)]
    d = FlatDoc()
    d.step(ops[0])
    alive = True              # reference still inside the guard
    texts = 'abcdefghijklmnopqrstuvwxyz'
    while len(ops) < length:
        j = len(ops)
        k = d.n
        r = rng.random()
        b = rng.randrange(k)
        if r < 0.08 and k < maxbuf:
            op = ('n',)
        elif r < 0.30 and k < maxbuf:
            op = ('i', b)
        elif r < 0.62:
            nl = rng.choice((0, 0, 1, 1, 2, 3))
            body = ''.join(rng.choice(texts) for _ in range(rng.randint(1, 3)))
            text = (body[:1] + '\n') * nl + body
            if rng.random() < 0.5:
                text = text[::-1]
            if rng.random() < 0.06:
                text = ''
            if rng.random() < 0.7:
                op = ('p', b, text, j + 1)
            elif rng.random() < p_bad:
                op = ('w', b, text, [j + 1] * rng.randint(0, 2))     # marker count not tied to the text
            else:
                op = ('w', b, text, [j + 1] * text.count('\n'))
        elif r < 0.80:
            legal = d.legal_inserts(b) if alive else []
            if rng.random() < p_bad:
                op = ('s', b, rng.randrange(k))
            elif legal:
                op = ('s', b, rng.choice(legal))
            else:
                op = ('c', b)
        elif r < 0.94:
            op = ('c', b)
        else:
            op = ('r', b)
        ops.append(op)
        if alive:
            try:
                d.step(op)
            except GuardFail:
                alive = False
        if not alive:
            # keep n in step for handle validity; structure no longer tracked
            if op[0] in 'ni':
                d.n += 1
            if len(ops) >= min(length, j + 8):
                break      # keep guard-violating histories short (DAG sharing can blow up exponentially)
    return tuple(ops)


# ---------------------------------------------------------------------------
# comparison


def hist_line(h):
    return ' '.join(tok(op) for op in h)


def classify(h):
    kinds = ''.join(sorted(set(op[0] for op in h)))
    return 'len%02d/%s' % (min(len(h), 99) if len(h) < 10 else (len(h) // 10) * 10, kinds)


def check_batch(ctx, cls, hists, label):
    """three-way (+ Lean spec) comparison of a list of histories"""
    lines = ['C49 run ' + hist_line(h) for h in hists] + ['C49 spec ' + hist_line(h) for h in hists]
    out = ctx.drv.batch(lines)
    n = len(hists)
    for idx, h in enumerate(hists):
        model, spec = out[idx], out[n + idx]
        obs = run_impl(cls, h)
        impl = 'bad-op' if obs is None else ('ok ' + ' '.join(obs))
        ora = run_oracle(h)
        replay = {"ops": [tok(op) for op in h], "leg": "tree"}
        ctx.count(label + '/' + classify(h) + ('' if ora is not None else '/outside-guard'))
        ctx.seen(hist_line(h), nontrivial=(ora is not None and any(op[0] in 'wp' and op[2] for op in h)))
        if ora is not None:
            exp = oracle_strings(ora)
            if obs is None:
                ctx.violation("stringiotree-raises", "history inside the guard rejected: " + hist_line(h), replay)
            else:
                for b, (o, e) in enumerate(zip(obs, exp)):
                    og, om, oe, oc = o.split('|')
                    eg, em, ee = e.split('|')
                    for name, got, want in (("getvalue", og, eg), ("allmarkers", om, em), ("empty", oe, ee)):
                        if got != want:
                            ctx.violation("stringiotree-" + name,
                                          "%s of buffer %d after [%s]: real class %s, flat-document reference %s"
                                          % (name, b, hist_line(h), got, want),
                                          dict(replay, buffer=b, observed=got, expected=want))
                    chunks = [] if oc == '.' else oc.split(',')
                    joined = ''.join('' if c == '-' else c for c in chunks) or '-'
                    if oc.startswith('!') or joined != eg or '-' in chunks:
                        ctx.violation("stringiotree-copyto",
                                      "copyto of buffer %d after [%s]: chunks %s, reference text %s" % (b, hist_line(h), oc, eg),
                                      dict(replay, buffer=b, observed=oc, expected=eg))
            want_spec = 'ok ' + ' '.join(exp) if exp else 'ok '
            if spec.strip() != want_spec.strip():
                ctx.tie_break("Lean spec (Spec.run) vs Python flat-document oracle",
                              "[%s]: Lean spec %s, Python oracle %s" % (hist_line(h), spec, want_spec), replay)
        elif spec != 'guard':
            ctx.tie_break("Lean spec (Spec.run) vs Python flat-document oracle",
                          "[%s]: Lean spec %s, Python oracle says outside guard" % (hist_line(h), spec), replay)
        if model.strip() != impl.strip():
            ctx.tie_break("D-py StringIOTree vs CyVerif.C49 heap model",
                          "[%s]: model %s impl %s" % (hist_line(h), model, impl), replay)
        if idx % 997 == 0:
            ctx.sample({"ops": hist_line(h), "impl": impl, "model": model, "spec": spec,
                        "oracle": None if ora is None else oracle_strings(ora)})


# ---------------------------------------------------------------------------
# glue leg: CCodeWriter on top of the tree.  Writer-level ops:
#   ('N', w) new_writer()   ('I', w) insertion_point()   ('S', w, t) w.insert(t)
#   ('M', w, d, l) mark_pos((d, l, 0), trace=False)   ('W', w, s) write(s)   ('P', w, s) put(s)   ('L', w, s) putln(s)
# The texts contain no braces, so the indentation level stays 0.


class _GS:
    """the only attribute of GlobalState that the exercised methods read"""

    def __init__(self, cfg):
        self.code_config = cfg


def marker_id(m):
    d, l = m
    return 0 if d is None else 1000 * d + l


def translate_writer_ops(wops):
    """Independent re-statement of what CCodeWriter.write/put/putln/mark_pos do to the buffer at
    indentation level 0 without code comments / #line / tracing: a list of primitive tree ops."""
    st = [{"last_pos": None, "lmp": None, "bol": 1}]
    prim = [('n',)]

    def wr(w, s):
        lmp = st[w]["lmp"]
        prim.append(('p', w, s, marker_id(lmp[:2]) if lmp else 0))

    for op in wops:
        k, w = op[0], op[1]
        me = st[w]
        if k == 'N':
            st.append({"last_pos": me["last_pos"], "lmp": me["lmp"], "bol": 1})
            prim.append(('n',))
        elif k == 'I':
            st.append(dict(me))
            prim.append(('i', w))
        elif k == 'S':
            prim.append(('s', w, op[2]))
        elif k == 'M':
            pos = (op[2], op[3], 0)
            if not (me["lmp"] and me["lmp"][:2] == pos[:2]):
                me["last_pos"] = pos
        elif k == 'W':
            wr(w, op[2])
        elif k == 'P':
            if me["bol"]:
                wr(w, '')
            wr(w, op[2])
            me["bol"] = 0
        elif k == 'L':
            if me["last_pos"] and me["bol"]:
                me["lmp"] = me["last_pos"]
                me["last_pos"] = None
                wr(w, '\n')
            if op[2]:
                if me["bol"]:
                    wr(w, '')
                wr(w, op[2])
                me["bol"] = 0
            wr(w, '\n')
            me["bol"] = 1
    return tuple(prim)


def run_writers(Code, wops):
    cfg = Code.CCodeConfig(emit_linenums=False, emit_code_comments=False)
    root = Code.CCodeWriter()
    root.set_global_state(_GS(cfg))
    ws = [root]
    for op in wops:
        k, w = op[0], ws[op[1]]
        if k == 'N':
            ws.append(w.new_writer())
        elif k == 'I':
            ws.append(w.insertion_point())
        elif k == 'S':
            w.insert(ws[op[2]])
        elif k == 'M':
            w.mark_pos((op[2], op[3], 0), trace=False)
        elif k == 'W':
            w.write(op[2])
        elif k == 'P':
            w.put(op[2])
        elif k == 'L':
            w.putln(op[2])
    res = []
    for w in ws:
        b = w.buffer
        # CCodeWriter stores (source_desc, line) tuples; canonicalise them to the ints of the model
        saved = b.allmarkers
        g = guarded(w.getvalue)
        m = guarded(lambda: [marker_id(x) for x in saved()])
        e = guarded(b.empty)

        def cp():
            rec = Recorder()
            w.copyto(rec)
            return rec.chunks
        c = guarded(cp)
        res.append('|'.join([show(g, hexs), show(m, lambda v: '[' + ','.join(map(str, v)) + ']'),
                             show(e, lambda v: 'T' if v else 'F'),
                             show(c, lambda v: ','.join(hexs(x) for x in v) if v else '.')]))
    return res


def random_writer_history(rng, length, maxw):
    wops = []
    k = 1
    roots = {0}
    root_of = {0: 0}
    words = ['x = 1;', 'int a', 'goto L', 'f(a, b)', '/* c */', 'y', 'a\nb', 'q;\nr;\n', '']
    while len(wops) < length:
        r = rng.random()
        w = rng.randrange(k)
        if r < 0.07 and k < maxw:
            wops.append(('N', w)); roots.add(k); root_of[k] = k; k += 1
        elif r < 0.22 and k < maxw:
            wops.append(('I', w)); root_of[k] = root_of[w]; k += 1
        elif r < 0.32:
            legal = [t for t in sorted(roots) if t != root_of[w]]
            if legal:
                t = rng.choice(legal)
                wops.append(('S', w, t))
                roots.discard(t)
                for x in root_of:
                    if root_of[x] == t:
                        root_of[x] = root_of[w]
        elif r < 0.50:
            wops.append(('M', w, rng.randint(1, 3), rng.randint(1, 40)))
        elif r < 0.65:
            wops.append(('W', w, rng.choice(words)))
        elif r < 0.80:
            wops.append(('P', w, rng.choice(words[:-1])))
        else:
            wops.append(('L', w, rng.choice(words)))
    return tuple(wops)


def check_writers(ctx, Code, whists):
    prims = [translate_writer_ops(w) for w in whists]
    out = ctx.drv.batch(['C49 run ' + hist_line(h) for h in prims])
    for wops, h, model in zip(whists, prims, out):
        obs = run_writers(Code, wops)
        impl = 'ok ' + ' '.join(obs)
        ora = run_oracle(h)
        replay = {"writer_ops": [list(o) for o in wops], "leg": "ccodewriter"}
        ctx.count('ccodewriter/len%03d' % ((len(wops) // 20) * 20))
        ctx.seen(repr(wops))
        if ora is None:
            raise lib.Infra("writer history generator left the guard: %r" % (wops,))
        for b, (o, e) in enumerate(zip(obs, oracle_strings(ora))):
            og, om, oe, oc = o.split('|')
            eg, em, ee = e.split('|')
            for name, got, want in (("getvalue", og, eg), ("allmarkers", om, em), ("empty", oe, ee)):
                if got != want:
                    ctx.violation("ccodewriter-" + name,
                                  "%s of writer %d after %r: real %s, reference %s" % (name, b, wops, got, want),
                                  dict(replay, buffer=b, observed=got, expected=want))
            # the per-line property as the debugger consumes it: one marker per output line
            if not og.startswith('!') and not om.startswith('!'):
                nlines = unhex(og).count('\n')
                nmark = 0 if om == '[]' else om.count(',') + 1
                if nlines != nmark:
                    ctx.violation("ccodewriter-marker-count",
                                  "writer %d after %r: %d newline(s) in the output but %d marker(s)" % (b, wops, nlines, nmark),
                                  dict(replay, buffer=b))
        if model.strip() != impl.strip():
            ctx.tie_break("D-py CCodeWriter glue vs CyVerif.C49 heap model",
                          "%r: model %s impl %s" % (wops, model, impl), replay)
    if whists:
        ctx.sample({"writer_ops": repr(whists[0])[:300], "primitive": hist_line(prims[0])[:300]})


def measure_coverage(cls, hists):
    """lines of Cython/StringIOTree.py executed by the differential inputs (settrace on a sample)"""
    import inspect
    fn = inspect.getsourcefile(cls)
    want = set()
    for name, f in vars(cls).items():
        if inspect.isfunction(f):
            want |= {ln for _, _, ln in f.__code__.co_lines() if ln is not None and ln != f.__code__.co_firstlineno}
            for const in f.__code__.co_consts:      # list comprehensions are inlined in 3.12; nested code otherwise
                if inspect.iscode(const):
                    want |= {ln for _, _, ln in const.co_lines() if ln is not None}
    hit = set()

    def tracer(frame, event, arg):
        if frame.f_code.co_filename != fn:
            return None
        if event == 'line':
            hit.add(frame.f_lineno)
        return tracer
    old = sys.gettrace()
    sys.settrace(tracer)
    try:
        for h in hists:
            if run_oracle(h) is not None:     # a RecursionError inside the trace function would switch tracing off
                run_impl(cls, h)
    finally:
        sys.settrace(old)
    return sorted(want), sorted(want - hit)


WITNESSES = [
    # module docstring example
    "n w:0:66697273740a:- i:0 w:0:74686972640a:- w:1:7365636f6e640a:- i:1 i:2 w:3:616c7068610a:- "
    "w:1:67616d6d610a:- w:2:626574610a:- n s:3:4 w:4:696e7365727465640a:-",
    # outside the guard: the same tree inserted twice is emitted twice
    "n n w:1:61:- s:0:1 s:0:1",
    # outside the guard: a tree inserted into itself
    "n s:0:0",
    "n i:0 s:1:0",
    # outside the guard: markers without text drift behind a later insertion point
    "n w:0:-:7 i:0 p:1:610a:9",
    # reset of a buffer that has live insertion points
    "n w:0:61:- i:0 w:1:62:- w:0:63:- r:0 w:0:64:- w:1:65:- n s:2:1",
]


def run(ctx):
    import Cython.StringIOTree as sit
    import Cython.Compiler.Code as Code
    if not sit.__file__.endswith('.py') or not sit.__file__.startswith(ctx.stage):
        raise lib.Infra("staged pure-Python StringIOTree not in use: %s" % sit.__file__)
    if Code.StringIOTree is not sit.StringIOTree:
        raise lib.Infra("Code.py does not use the staged StringIOTree")
    cls = sit.StringIOTree
    ctx.rule = ("operation histories over buffer handles named by creation order: (1) corpus + fixed witnesses, "
                "(2) ALL histories of length <= L over <= 3 buffers that start with StringIOTree() and use only existing "
                "handles, ops = new / insertion_point / write (unique letter per op; without newline+no marker, with newline+"
                "marker) / insert b t (all pairs incl. b=t and repeated) / commit / reset; L = 5 quick, 6 thorough; plus all of "
                "length <= 4 with empty writes, marker-only writes and two-line writes, (3) seeded random histories of length "
                "10..300 over <= 30 buffers steered by the reference towards legal inserts (a few leave the guard), "
                "(4) random CCodeWriter histories. After each history getvalue/allmarkers/empty/copyto of EVERY handle is "
                "compared. non-trivial = inside the guard and at least one non-empty write; distinct by the full history")
    ctx.explanation = ("Theorems cover the whole statement for the modelled class: for every history inside the guard, getvalue / "
                       "allmarkers / empty / copyto of every buffer equal the flat-document reference (order, exactly once, marker "
                       "alignment, one marker per newline under the CCodeWriter discipline). Not covered by a theorem: "
                       "the CCodeWriter layer itself (put/putln/mark_pos indentation and marker choice) - it is only driven "
                       "differentially; histories outside the guard (a tree inserted twice or into itself, markers without text) "
                       "are only compared model-vs-implementation.")
    ctx.assumptions = ["nesting depth of buffers stays below the Python recursion limit (the traversals are recursive)",
                       "a StringIOTree is inserted at most once and never into itself (the guard of the theorems)"]
    ctx.extra_trusted = ["Python flat-document oracle in harness/props/c49.py (tied to the Lean Spec.run by the same differential run)"]

    old_limit = sys.getrecursionlimit()
    # self-inserted trees end in RecursionError; a low limit keeps those observations cheap.
    depth, fr = 0, sys._getframe()
    while fr is not None:
        depth, fr = depth + 1, fr.f_back
    sys.setrecursionlimit(depth + 60)       # generated nesting depth is <= 31; deep limits make RecursionError slow
    try:
        rc = getattr(ctx, "replay_case", None)
        if rc and "case" in rc:
            case = rc["case"]
            if case.get("leg") == "ccodewriter":
                check_writers(ctx, Code, [tuple(tuple(o) for o in case["writer_ops"])])
            else:
                check_batch(ctx, cls, [tuple(untok(t) for t in case["ops"])], "replay")
            return
        # (1) corpus and fixed witnesses
        fixed = [tuple(untok(t) for t in w.split()) for w in WITNESSES]
        import glob
        import json
        import os
        for fn in sorted(glob.glob(os.path.join(lib.VERIF, "corpus", "C49", "*.json"))):
            fixed.append(tuple(untok(t) for t in json.load(open(fn))["ops"]))
        check_batch(ctx, cls, fixed, "fixed")
        # the guard_needed_* lemmas of Props/C49.lean, replayed on the real class
        gw = {}
        for name, hist, b, field, want in (
                ("guard_needed_double_insert", "n n w:1:61:- s:0:1 s:0:1", 0, 0, hexs("aa")),
                ("guard_needed_self_insert", "n i:0 s:1:0", 0, 0, "!RecursionError"),
                ("guard_needed_marker_without_text", "n w:0:-:7 i:0 p:1:610a:9", 0, 1, "[9,7]")):
            obs = run_impl(cls, tuple(untok(t) for t in hist.split()))
            got = obs[b].split('|')[field]
            gw[name] = "reproduces on the real class" if got == want else \
                "witness no longer reproduces: real class gives %s (lemma says %s)" % (got, want)
        ctx.notes["guard_witnesses"] = gw
        import time
        tm = {"fixed": round(ctx.elapsed(), 1)}
        # (2) exhaustive short histories
        L = 5 if ctx.quick else 6
        if ctx.budget_scale > 1:
            L = 6
        ex = sorted(enum_histories(L, 3, ('plain', 'line')), key=len)          # short first: first report = smallest
        ex2 = sorted(enum_histories(4, 3, ('plain', 'two', 'empty', 'markonly')), key=len)
        ctx.notes["exhaustive"] = {"max_len": L, "histories": len(ex), "with_write_variants_len4": len(ex2)}
        for i in range(0, len(ex), 50000):
            check_batch(ctx, cls, ex[i:i + 50000], "exhaustive")
        check_batch(ctx, cls, ex2, "exhaustive-variants")
        tm["exhaustive"] = round(ctx.elapsed(), 1)
        # (3) long random histories
        rnd = []
        for _ in range(ctx.n(1500, 20000)):
            length = ctx.rng.choice((10, 20, 40, 80, 150, 300))
            rnd.append(random_history(ctx.rng, length, ctx.rng.choice((3, 6, 12, 30)), ctx.rng.choice((0.0, 0.0, 0.02, 0.1))))
        rnd.sort(key=len)
        for i in range(0, len(rnd), 5000):
            check_batch(ctx, cls, rnd[i:i + 5000], "random")
        tm["random"] = round(ctx.elapsed(), 1)
        # (4) CCodeWriter glue
        wh = [random_writer_history(ctx.rng, ctx.rng.choice((5, 15, 40, 120)), ctx.rng.choice((3, 8, 20)))
              for _ in range(ctx.n(800, 8000))]
        wh.sort(key=len)
        check_writers(ctx, Code, wh)
        tm["ccodewriter"] = round(ctx.elapsed(), 1)
        ctx.notes["elapsed_s_after_phase"] = tm
        # coverage of the modelled class by the differential inputs
        allv, missed = measure_coverage(cls, fixed + ex[::max(1, len(ex) // 3000)] + rnd[:50])
        ctx.notes["line_coverage"] = {"file": "Cython/StringIOTree.py", "executable_lines_in_methods": len(allv),
                                      "not_executed": missed}
    finally:
        sys.setrecursionlimit(old_limit)
        # report the smallest failing history per key
        ctx.violations.sort(key=lambda v: len(v["replay"].get("ops") or v["replay"].get("writer_ops") or []))
        ctx.tie_breaks.sort(key=lambda v: len(v["replay"].get("ops") or v["replay"].get("writer_ops") or []))

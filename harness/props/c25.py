"""C25 — compiled functions report faithful names and signatures.

Leg A (D-py, in-process): the real `ExpressionWriter` on trees built by the real Cython parser
(TreeFragment: unfolded trees; full pipeline with a hook on `EmbedSignature._fmt_expr`: trees as the
signature embedder sees them) -- printed text tokenised with CPython's `tokenize` vs the Lean printer
model (CyVerif.C25.pr, variant detected from the source, precedence table regenerated from the source);
oracle: CPython `ast.parse(printed)` vs `ast.parse(source)`; the Lean reference reader vs `ast.parse`.
Leg B (D-c, harness/c25sig.py): compiled modules vs CPython importing the same source, and the
signature model CyVerif.C25Sig.
"""
import ast
import io
import json
import os
import tokenize

OPS_BIN = {'or': 'or', 'and': 'and', '|': 'bor', '^': 'bxor', '&': 'band', '<<': 'shl', '>>': 'shr', '+': 'add',
           '-': 'sub', '*': 'mul', '@': 'matmul', '/': 'div', '//': 'fdiv', '%': 'mod', '**': 'pow'}
BIN_SRC = {v: k for k, v in OPS_BIN.items()}
OPS_CMP = {'<': 'lt', '<=': 'le', '>': 'gt', '>=': 'ge', '!=': 'ne', '==': 'eq', 'in': 'in', 'not_in': 'notin',
           'is': 'is', 'is_not': 'isnot'}
CMP_SRC = {v: k.replace('_', ' ') for k, v in OPS_CMP.items()}
OPS_UN = {'not': 'not', '!': 'not', '+': 'pos', '-': 'neg', '~': 'inv'}
UN_SRC = {'not': 'not ', 'pos': '+', 'neg': '-', 'inv': '~', 'negf': '-'}
CLASSES = [('por', ['or']), ('pand', ['and']), ('pnot', None), ('pcmp', ['in', 'not_in', 'is', 'is_not', '<', '<=', '>', '>=', '!=', '==']),
           ('pbor', ['|']), ('pbxor', ['^']), ('pband', ['&']), ('pshift', ['<<', '>>']), ('padd', ['+', '-']),
           ('pmul', ['*', '@', '/', '//', '%']), ('punary', None), ('ppow', ['**'])]
KEYWORD_SYMS = {'not', 'in', 'is', 'and', 'or', 'if', 'else', 'lambda'}
CONSTS = {'...': 0, 'True': 1, 'False': 2, 'None': 3}


class Unmodelled(Exception):
    pass


class Atoms:
    """per-case table: (kind, canonical value text) -> numeric id used in the Lean term/tokens"""
    def __init__(self):
        self.ids = {}

    def get(self, kind, key):
        if kind == 'const':
            return CONSTS[key]
        k = (kind, key)
        if k not in self.ids:
            self.ids[k] = len(self.ids) + 10
        return self.ids[k]


def num_key(kind, text):
    """canonical key of a numeric literal text (value based, so 0x3 == 3 and 1_0 == 10)"""
    t = text.replace('_', '')
    try:
        if kind == 'int':
            return repr(int(t, 0)) if not t.lstrip('0').isdigit() or t == '0' or not t.startswith('0') else repr(int(t))
        if kind == 'float':
            return float(t).hex()
        if kind == 'imag':
            return float(t.rstrip('jJ')).hex()
    except ValueError:
        pass
    return 'raw:' + text


# ---------------------------------------------------------------------------------------------
# random terms (Python tuples) and their fully parenthesised source text

NAMES = ['a', 'b', 'c', 'd', 'x', 'yy', 'z_1', 'f', 'g']
INTS = ['0', '1', '2', '7', '10', '255', '0x1F', '0b101', '0o17', '1_000', '123456789012345678901234567890', '4294967296']
FLOATS = ['1.5', '0.0', '1e100', '1.5e-7', '2.', '.5', '1e5', '3.141592653589793', '1E3']
IMAGS = ['1j', '2.5j', '0j', '1e3j']
STRS = ["'abc'", "''", '"q\\"uote"', "'a\\'b'", "'\\n\\t'", "'\\x00\\x7f'", "'\\\\'", "'\\u1234'", "'\\U0001F600'", "'\\xe9'",
        '"it\'s"', "'a\"b'", "'\\x1b[0m'", "'tab\\there'", "'\\r\\n'", "' '", "'%s{}'", "'\\xad'", "'\\u2028'", "'\\ud800'"]
BYTESL = ["b'abc'", "b''", "b'\\xff\\x00'", "b'\\n'", "b'\"'", "b\"'\"", "b'\\\\'", "b'a\\'b\"c'", "b'\\x7f\\x80'"]


def gen_atom(rng):
    r = rng.random()
    if r < 0.45:
        return ('A', 'name', rng.choice(NAMES))
    if r < 0.6:
        return ('A', 'int', rng.choice(INTS))
    if r < 0.68:
        return ('A', 'float', rng.choice(FLOATS))
    if r < 0.72:
        return ('A', 'imag', rng.choice(IMAGS))
    if r < 0.84:
        return ('A', 'str', rng.choice(STRS))
    if r < 0.9:
        return ('A', 'bytes', rng.choice(BYTESL))
    return ('A', 'const', rng.choice(['True', 'False', 'None', '...']))


def gen_expr(rng, depth, lam_ok=True):
    if depth <= 0 or rng.random() < 0.12:
        return gen_atom(rng)
    r = rng.random()
    d = depth - 1
    if r < 0.30:
        return ('B', rng.choice(list(BIN_SRC)), gen_expr(rng, d, lam_ok), gen_expr(rng, d, lam_ok))
    if r < 0.40:
        op = rng.choice(['not', 'pos', 'neg', 'inv', 'neg', 'negf'])
        if op == 'negf':
            return ('U', 'negf', ('A', rng.choice(['int', 'float']), rng.choice(INTS[:6] if rng.random() < .5 else ['1'])))
        x = gen_expr(rng, d, lam_ok)
        if op in ('neg', 'pos') and x[0] == 'A' and x[1] in ('int', 'float'):
            op = 'inv' if x[1] == 'int' else 'not'
        if x[0] == 'A' and x[1] == 'float' and op == 'inv':
            op = 'not'
        return ('U', op, x)
    if r < 0.50:
        n = rng.choice([0, 0, 0, 1, 2])
        return ('C', rng.choice(list(CMP_SRC)), gen_expr(rng, d, lam_ok), gen_expr(rng, d, lam_ok),
                [(rng.choice(list(CMP_SRC)), gen_expr(rng, d, lam_ok)) for _ in range(n)])
    if r < 0.58:
        return ('Q', gen_expr(rng, d, lam_ok), gen_expr(rng, d, lam_ok), gen_expr(rng, d, lam_ok))
    if r < 0.62 and lam_ok:
        ps = []
        names = rng.sample(NAMES, rng.randint(0, 3))
        for i, nm in enumerate(names):
            ps.append(('P', ('A', 'name', nm)) if rng.random() < 0.6 and not any(p[0] == 'K' for p in ps)
                      else ('K', nm, gen_expr(rng, min(d, 1), False)))
        if rng.random() < 0.3:
            ps.append(('S', ('A', 'name', 'args')))
        if rng.random() < 0.3:
            ps.append(('SS', ('A', 'name', 'kw')))
        return ('L', ps, gen_expr(rng, d, lam_ok))
    if r < 0.70:
        return ('T', gen_expr(rng, d, lam_ok), rng.choice(['real', 'attr', 'b', '__class__']))
    if r < 0.80:
        args = [('P', gen_expr(rng, d, lam_ok)) for _ in range(rng.randint(0, 2))]
        if rng.random() < 0.25:
            args.append(('S', gen_expr(rng, d, lam_ok)))
        for nm in rng.sample(['k', 'key', 'z'], rng.randint(0, 2)):
            args.append(('K', nm, gen_expr(rng, d, lam_ok)))
        if rng.random() < 0.2:
            args.append(('SS', gen_expr(rng, d, lam_ok)))
        return ('F', gen_expr(rng, d, lam_ok), args)
    if r < 0.88:
        items = []
        for _ in range(rng.choice([1, 1, 1, 2, 3])):
            if rng.random() < 0.4:
                items.append(('X',) + tuple(gen_expr(rng, d, lam_ok) if rng.random() < 0.55 else None for _ in range(3)))
            else:
                items.append(('P', gen_expr(rng, d, lam_ok)))
        return ('I', gen_expr(rng, d, lam_ok), items)
    k = rng.choice(['tuple', 'tuple', 'list', 'brace', 'set'])
    n = rng.choice([0, 1, 1, 2, 3])
    if k == 'brace':
        return ('D', 'brace', [('V', gen_expr(rng, d, lam_ok), gen_expr(rng, d, lam_ok)) for _ in range(n)])
    if k == 'set':
        return ('D', 'brace', [('P', gen_expr(rng, d, lam_ok)) for _ in range(max(n, 1))])
    return ('D', k, [('P', gen_expr(rng, d, lam_ok)) for _ in range(n)])


def num_key(kind, text):  # noqa: F811  (simpler final definition)
    t = text.replace('_', '')
    try:
        if kind == 'int':
            try:
                return repr(int(t, 0))
            except ValueError:
                return repr(int(t, 10))
        if kind == 'float':
            return float(t).hex()
        if kind == 'imag':
            return float(t.rstrip('jJ')).hex()
    except ValueError:
        pass
    return 'raw:' + text


def src_of(t):
    """fully parenthesised Python source of a term (so that the tree shape is forced)"""
    k = t[0]
    if k == 'A':
        return t[2]
    if k == 'U':
        return '(%s%s)' % (UN_SRC[t[1]], src_of(t[2]))
    if k == 'B':
        return '(%s %s %s)' % (src_of(t[2]), BIN_SRC[t[1]], src_of(t[3]))
    if k == 'C':
        return '(%s %s %s%s)' % (src_of(t[2]), CMP_SRC[t[1]], src_of(t[3]),
                                 ''.join(' %s %s' % (CMP_SRC[o], src_of(e)) for o, e in t[4]))
    if k == 'Q':
        return '(%s if %s else %s)' % (src_of(t[1]), src_of(t[2]), src_of(t[3]))
    if k == 'L':
        return '(lambda %s: %s)' % (src_elems(t[1]), src_of(t[2]))
    if k == 'T':
        return '%s.%s' % (src_base(t[1]), t[2])
    if k == 'F':
        return '%s(%s)' % (src_base(t[1]), src_elems(t[2]))
    if k == 'I':
        return '%s[%s]' % (src_base(t[1]), src_elems(t[2]))
    if k == 'D':
        o, c = {'tuple': '()', 'list': '[]', 'brace': '{}'}[t[1]]
        return o + src_elems(t[2]) + (',' if t[1] == 'tuple' and len(t[2]) == 1 else '') + c
    raise ValueError(t)


def src_base(t):
    s = src_of(t)
    return s if s.startswith('(') and t[0] not in ('D', 'F', 'I', 'T') or t[0] in ('D', 'F', 'I', 'T') or (t[0] == 'A' and t[1] != 'int') else '(%s)' % s


def src_elems(es):
    out = []
    for e in es:
        if e[0] == 'P':
            out.append(src_of(e[1]))
        elif e[0] == 'S':
            out.append('*' + src_of(e[1]))
        elif e[0] == 'SS':
            out.append('**' + src_of(e[1]))
        elif e[0] == 'K':
            out.append('%s=%s' % (e[1], src_of(e[2])))
        elif e[0] == 'V':
            out.append('%s: %s' % (src_of(e[1]), src_of(e[2])))
        elif e[0] == 'X':
            lo, hi, st = (src_of(x) if x is not None else '' for x in e[1:4])
            out.append('%s:%s%s' % (lo, hi, (':' + st) if e[3] is not None else ''))
    return ', '.join(out)


def atom_key(kind, text):
    if kind in ('int', 'float', 'imag'):
        return num_key(kind, text)
    if kind in ('str', 'bytes'):
        try:
            return repr(ast.literal_eval(text))
        except Exception:
            return 'raw:' + text
    return text


def line_of(t, atoms):
    """term -> prefix-notation words of the Lean line protocol"""
    k = t[0]
    if k == 'A':
        return ['A', t[1], str(atoms.get(t[1], atom_key(t[1], t[2])))]
    if k == 'U':
        return ['U', t[1]] + line_of(t[2], atoms)
    if k == 'B':
        return ['B', t[1]] + line_of(t[2], atoms) + line_of(t[3], atoms)
    if k == 'C':
        w = ['C', t[1]] + line_of(t[2], atoms) + line_of(t[3], atoms)
        for o, e in t[4]:
            w += [o] + line_of(e, atoms)
        return w + ['.']
    if k == 'Q':
        return ['Q'] + line_of(t[1], atoms) + line_of(t[2], atoms) + line_of(t[3], atoms)
    if k == 'L':
        return ['L'] + line_elems(t[1], atoms) + line_of(t[2], atoms)
    if k == 'T':
        return ['T'] + line_of(t[1], atoms) + [str(atoms.get('name', t[2]))]
    if k in ('F', 'I'):
        return [k] + line_of(t[1], atoms) + line_elems(t[2], atoms)
    if k == 'D':
        return ['D', t[1]] + line_elems(t[2], atoms)
    raise ValueError(t)


def line_elems(es, atoms):
    w = ['[']
    for e in es:
        if e[0] in ('P', 'S', 'SS'):
            w += [e[0]] + line_of(e[1], atoms)
        elif e[0] == 'K':
            w += ['K', str(atoms.get('name', e[1]))] + line_of(e[2], atoms)
        elif e[0] == 'V':
            w += ['V'] + line_of(e[1], atoms) + line_of(e[2], atoms)
        elif e[0] == 'X':
            w += ['X']
            for x in e[1:4]:
                w += ['N'] if x is None else ['O'] + line_of(x, atoms)
    return w + [']']


def toks_of_text(text, atoms):
    """CPython tokenize of printed text -> the Lean model's token words (None if it does not tokenize)"""
    out = []
    try:
        toks = list(tokenize.generate_tokens(io.StringIO(text).readline))
    except (tokenize.TokenError, SyntaxError, IndentationError, UnicodeError, ValueError):
        return None
    for tk in toks:
        if tk.type in (tokenize.NEWLINE, tokenize.NL, tokenize.ENDMARKER, tokenize.INDENT, tokenize.DEDENT):
            continue
        s = tk.string
        if tk.type == tokenize.NAME:
            if s in KEYWORD_SYMS:
                if s == 'in' and out and out[-1] == 'not' :
                    out[-1] = 'not_in'
                elif s == 'not' and out and out[-1] == 'is':
                    out[-1] = 'is_not'
                else:
                    out.append(s)
            elif s in CONSTS:
                out.append('a:const:%d' % CONSTS[s])
            else:
                out.append('a:name:%d' % atoms.get('name', s))
        elif tk.type == tokenize.NUMBER:
            kind = 'imag' if s[-1] in 'jJ' else ('float' if (not s.lower().startswith(('0x', '0b', '0o')) and any(c in s for c in '.eE')) else 'int')
            out.append('a:%s:%d' % (kind, atoms.get(kind, num_key(kind, s))))
        elif tk.type == tokenize.STRING:
            kind = 'bytes' if s.lstrip('rRuU')[:1] in 'bB' or s[:1] in 'bB' else 'str'
            out.append('a:%s:%d' % (kind, atoms.get(kind, atom_key(kind, s))))
        elif tk.type == tokenize.OP:
            out.append('a:const:0' if s == '...' else s)
        else:
            return None
    return out


def src_base(t):  # noqa: F811
    s = src_of(t)
    return '(%s)' % s if (t[0] == 'A' and t[1] == 'int') else s


def conv(node):
    """Cython expression node -> term; raises Unmodelled for node kinds outside the Lean AST"""
    cn = type(node).__name__
    mro = [c.__name__ for c in type(node).__mro__]
    if cn == 'IntNode' or cn == 'FloatNode':
        kind = 'int' if cn == 'IntNode' else 'float'
        v = str(node.value)
        if v.startswith('-'):
            return ('U', 'negf', ('A', kind, v[1:]))
        return ('A', kind, v)
    if cn == 'ImagNode':
        return ('A', 'imag', str(node.value) + 'j')
    if cn == 'NameNode':
        return ('A', 'name', str(node.name))
    if cn == 'NoneNode':
        return ('A', 'const', 'None')
    if cn == 'EllipsisNode':
        return ('A', 'const', '...')
    if cn == 'BoolNode':
        return ('A', 'const', 'True' if node.value else 'False')
    if cn == 'UnicodeNode':
        return ('A', 'str', repr(str(node.value)))
    if cn == 'BytesNode':
        return ('A', 'bytes', repr(node.value.byteencode() if hasattr(node.value, 'byteencode') else bytes(node.value)))
    if cn == 'NotNode':
        return ('U', 'not', conv(node.operand))
    if 'UnopNode' in mro:
        return ('U', OPS_UN[node.operator], conv(node.operand))
    if cn == 'PrimaryCmpNode':
        links = []
        c = node.cascade
        while c is not None:
            links.append((OPS_CMP[c.operator], conv(c.operand2)))
            c = c.cascade
        return ('C', OPS_CMP[node.operator], conv(node.operand1), conv(node.operand2), links)
    if 'BinopNode' in mro or cn == 'BoolBinopNode':
        if node.operator not in OPS_BIN:
            raise Unmodelled(cn + node.operator)
        return ('B', OPS_BIN[node.operator], conv(node.operand1), conv(node.operand2))
    if cn == 'CondExprNode':
        return ('Q', conv(node.true_val), conv(node.condition), conv(node.false_val))
    if cn == 'AttributeNode':
        return ('T', conv(node.obj), str(node.attribute))
    if cn == 'SimpleCallNode':
        args = node.args if node.args is not None else node.arg_tuple.args
        return ('F', conv(node.function), [('P', conv(a)) for a in args])
    if cn == 'GeneralCallNode':
        return ('F', conv(node.function), conv_pos(node.positional_args) + conv_kw(node.keyword_args))
    if cn == 'IndexNode':
        ix = node.index
        if type(ix).__name__ == 'TupleNode' and len(ix.args) >= 2:
            return ('I', conv(node.base), [conv_item(a) for a in ix.args])
        return ('I', conv(node.base), [conv_item(ix)])
    if cn == 'SliceIndexNode':
        return ('I', conv(node.base), [('X', conv(node.start) if node.start else None, conv(node.stop) if node.stop else None, None)])
    if cn in ('TupleNode', 'ListNode'):
        return ('D', 'tuple' if cn == 'TupleNode' else 'list', [('P', conv(a)) for a in node.args])
    if cn == 'SetNode':
        if not node.args:
            raise Unmodelled('empty set')
        return ('D', 'brace', [('P', conv(a)) for a in node.args])
    if cn == 'DictNode':
        return ('D', 'brace', [('V', conv(i.key), conv(i.value)) for i in node.key_value_pairs])
    if cn == 'LambdaNode':
        src = getattr(node, 'def_node', None) or node
        ps = []
        for a in src.args:
            nm = str(getattr(a.declarator, 'name', '') or getattr(a.base_type, 'name', '') or getattr(a, 'name', ''))
            if not nm or getattr(a, 'kw_only', 0) and not src.star_arg:
                raise Unmodelled('lambda arg')
            ps.append((('K', nm, conv(a.default)) if a.default is not None else ('P', ('A', 'name', nm)), getattr(a, 'kw_only', 0)))
        out = [p for p, kw in ps if not kw]
        if src.star_arg:
            out.append(('S', ('A', 'name', str(src.star_arg.name))))
        out += [p for p, kw in ps if kw]
        if src.starstar_arg:
            out.append(('SS', ('A', 'name', str(src.starstar_arg.name))))
        body = getattr(node, 'result_expr', None)
        if body is None:
            raise Unmodelled('lambda body')
        return ('L', out, conv(body))
    raise Unmodelled(cn)


def conv_item(n):
    if type(n).__name__ == 'SliceNode':
        return ('X',) + tuple(None if x.is_none else conv(x) for x in (n.start, n.stop, n.step))
    return ('P', conv(n))


def conv_pos(n):
    if n is None:
        return []
    cn = type(n).__name__
    if cn == 'AddNode':
        return conv_pos(n.operand1) + conv_pos(n.operand2)
    if cn == 'TupleNode':
        return [('P', conv(a)) for a in n.args]
    if cn == 'AsTupleNode':
        return [('S', conv(n.arg))]
    return [('S', conv(n))]          # the printer writes any other node as `node, ` (see emit_pos_args)


def conv_kw(n):
    if n is None:
        return []
    cn = type(n).__name__
    if cn == 'MergedDictNode':
        out = []
        for k in n.keyword_args:
            out += conv_kw(k)
        return out
    if cn == 'DictNode':
        if not all(type(i.key).__name__ in ('IdentifierStringNode', 'UnicodeNode') and str(i.key.value).isidentifier() for i in n.key_value_pairs):
            raise Unmodelled('**{display}')
        return [('K', str(i.key.value), conv(i.value)) for i in n.key_value_pairs]
    if cn == 'NoneCheckNode':
        n = n.arg
    return [('SS', conv(n))]


FLATTEN_BOOL = [False]


def py2term_meaning(n):
    FLATTEN_BOOL[0] = True
    try:
        return py2term(n)
    finally:
        FLATTEN_BOOL[0] = False


def py2term(n):
    """CPython ast -> term (the meaning of a text according to CPython's parser)"""
    if isinstance(n, ast.Expression):
        return py2term(n.body)
    if isinstance(n, ast.Name):
        return ('A', 'name', n.id)
    if isinstance(n, ast.Constant):
        v = n.value
        if v is True or v is False or v is None or v is Ellipsis:
            return ('A', 'const', {True: 'True', False: 'False', None: 'None', Ellipsis: '...'}[v])
        if isinstance(v, int):
            return ('A', 'int', repr(v))
        if isinstance(v, float):
            return ('A', 'float', repr(v))
        if isinstance(v, complex):
            return ('A', 'imag', repr(v.imag) + 'j')
        return ('A', 'bytes' if isinstance(v, bytes) else 'str', repr(v))
    if (FLATTEN_BOOL[0] and isinstance(n, ast.UnaryOp) and isinstance(n.op, ast.Not) and isinstance(n.operand, ast.Compare)
            and len(n.operand.ops) == 1 and type(n.operand.ops[0]) in (ast.Is, ast.IsNot, ast.In, ast.NotIn)):
        # meaning: `not (a is b)` is `a is not b`, `not (a in b)` is `a not in b` (the compiler rewrites them)
        neg = {ast.Is: ast.IsNot, ast.IsNot: ast.Is, ast.In: ast.NotIn, ast.NotIn: ast.In}[type(n.operand.ops[0])]()
        return py2term(ast.Compare(left=n.operand.left, ops=[neg], comparators=n.operand.comparators))
    if isinstance(n, ast.UnaryOp):
        op = {ast.Not: 'not', ast.UAdd: 'pos', ast.USub: 'neg', ast.Invert: 'inv'}[type(n.op)]
        x = py2term(n.operand)
        if op == 'neg' and x[0] == 'A' and x[1] in ('int', 'float'):
            op = 'negf'
        return ('U', op, x)
    if isinstance(n, ast.BinOp):
        op = {ast.BitOr: 'bor', ast.BitXor: 'bxor', ast.BitAnd: 'band', ast.LShift: 'shl', ast.RShift: 'shr', ast.Add: 'add',
              ast.Sub: 'sub', ast.Mult: 'mul', ast.MatMult: 'matmul', ast.Div: 'div', ast.FloorDiv: 'fdiv', ast.Mod: 'mod',
              ast.Pow: 'pow'}[type(n.op)]
        return ('B', op, py2term(n.left), py2term(n.right))
    if isinstance(n, ast.BoolOp):
        op = 'or' if isinstance(n.op, ast.Or) else 'and'
        vals = list(n.values)
        if FLATTEN_BOOL[0]:
            # and/or are associative: for the MEANING of a text nested chains of one operator are one chain
            flat = []
            def walk(x):
                if isinstance(x, ast.BoolOp) and type(x.op) is type(n.op):
                    for y in x.values:
                        walk(y)
                else:
                    flat.append(x)
            walk(n)
            vals = flat
        t = py2term(vals[-1])
        for v in reversed(vals[:-1]):
            t = ('B', op, py2term(v), t)
        return t
    if isinstance(n, ast.Compare):
        ops = [{ast.Lt: 'lt', ast.LtE: 'le', ast.Gt: 'gt', ast.GtE: 'ge', ast.NotEq: 'ne', ast.Eq: 'eq', ast.In: 'in',
                ast.NotIn: 'notin', ast.Is: 'is', ast.IsNot: 'isnot'}[type(o)] for o in n.ops]
        cs = [py2term(c) for c in n.comparators]
        return ('C', ops[0], py2term(n.left), cs[0], list(zip(ops[1:], cs[1:])))
    if isinstance(n, ast.IfExp):
        return ('Q', py2term(n.body), py2term(n.test), py2term(n.orelse))
    if isinstance(n, ast.Lambda):
        a = n.args
        if a.posonlyargs:
            raise Unmodelled('posonly lambda')
        ps = []
        nd = len(a.args) - len(a.defaults)
        for i, x in enumerate(a.args):
            ps.append(('P', ('A', 'name', x.arg)) if i < nd else ('K', x.arg, py2term(a.defaults[i - nd])))
        if a.vararg:
            ps.append(('S', ('A', 'name', a.vararg.arg)))
        elif a.kwonlyargs:
            raise Unmodelled('bare star')
        for x, dv in zip(a.kwonlyargs, a.kw_defaults):
            ps.append(('P', ('A', 'name', x.arg)) if dv is None else ('K', x.arg, py2term(dv)))
        if a.kwarg:
            ps.append(('SS', ('A', 'name', a.kwarg.arg)))
        return ('L', ps, py2term(n.body))
    if isinstance(n, ast.Attribute):
        return ('T', py2term(n.value), n.attr)
    if isinstance(n, ast.Call):
        items = [(x.lineno, x.col_offset, ('S', py2term(x.value)) if isinstance(x, ast.Starred) else ('P', py2term(x))) for x in n.args]
        for k in n.keywords:
            v = k.value
            if (FLATTEN_BOOL[0] and k.arg is None and isinstance(v, ast.Dict) and
                    all(isinstance(x, ast.Constant) and isinstance(x.value, str) and x.value.isidentifier() for x in v.keys)):
                # meaning: f(**{'a': 1}) is f(a=1), f(**{}) is f()  (the printer writes the keywords)
                for j, (kk, vv) in enumerate(zip(v.keys, v.values)):
                    items.append((v.lineno, v.col_offset + j * 1e-3, ('K', kk.value, py2term(vv))))
            else:
                items.append((v.lineno, v.col_offset, ('SS', py2term(v)) if k.arg is None else ('K', k.arg, py2term(v))))
        return ('F', py2term(n.func), [t for _, _, t in sorted(items, key=lambda z: z[:2])])
    if isinstance(n, ast.Subscript):
        s = n.slice
        if isinstance(s, ast.Tuple) and len(s.elts) >= 2:
            return ('I', py2term(n.value), [py_item(x) for x in s.elts])
        return ('I', py2term(n.value), [py_item(s)])
    if isinstance(n, (ast.Tuple, ast.List, ast.Set)):
        k = {ast.Tuple: 'tuple', ast.List: 'list', ast.Set: 'brace'}[type(n)]
        return ('D', k, [('S', py2term(x.value)) if isinstance(x, ast.Starred) else ('P', py2term(x)) for x in n.elts])
    if isinstance(n, ast.Dict):
        return ('D', 'brace', [('SS', py2term(v)) if k is None else ('V', py2term(k), py2term(v)) for k, v in zip(n.keys, n.values)])
    raise Unmodelled(type(n).__name__)


def py_item(s):
    if isinstance(s, ast.Slice):
        # a[None:x] and a[:x] are the same slice object; the Cython tree does not distinguish them
        return ('X',) + tuple(None if x is None or (FLATTEN_BOOL[0] and isinstance(x, ast.Constant) and x.value is None) else py2term(x)
                              for x in (s.lower, s.upper, s.step))
    return ('P', py2term(s))


# ---------------------------------------------------------------------------------------------
def extract_table(ctx):
    """translator G: precedence numbers from the class body of ExpressionWriter (literal dicts only)"""
    path = os.path.join(ctx.stage, 'Cython', 'CodeWriter.py')
    tree = ast.parse(open(path).read())
    un = bi = None
    for cls in tree.body:
        if isinstance(cls, ast.ClassDef) and cls.name == 'ExpressionWriter':
            for st in cls.body:
                if isinstance(st, ast.Assign) and isinstance(st.targets[0], ast.Name):
                    if st.targets[0].id == 'unop_precedence':
                        un = ast.literal_eval(st.value)
                    if st.targets[0].id == 'binop_precedence':
                        bi = ast.literal_eval(st.value)
    if un is None or bi is None:
        return None, 'precedence tables not found as literal dicts'
    vals = {}
    problems = []
    for cname, ops in CLASSES:
        if cname == 'pnot':
            got = {un.get('not'), un.get('!')}
        elif cname == 'punary':
            got = {un.get('+'), un.get('-'), un.get('~')}
        else:
            got = {bi.get(o) for o in ops}
        if len(got) != 1 or None in got:
            problems.append('%s: %r' % (cname, sorted(map(str, got))))
            vals[cname] = max([g for g in got if isinstance(g, int)] or [0])
        else:
            vals[cname] = got.pop()
    extra = set(bi) - {o for _, ops in CLASSES if ops for o in ops}
    if extra:
        problems.append('unknown binary operators %r' % sorted(extra))
    return [vals[c] for c, _ in CLASSES], '; '.join(problems)


def real_print(src, want_node=False):
    from Cython.Compiler.TreeFragment import TreeFragment
    from Cython.CodeWriter import ExpressionWriter
    root = TreeFragment("x = " + src, level=3).root
    st = root.stats[0] if hasattr(root, 'stats') else root
    node = st.rhs
    text = ExpressionWriter(allow_unknown_nodes=True).write(node)
    return (text, node) if want_node else text


def batch_parse(srcs, size=150):
    """parse many expression sources with one TreeFragment each batch (a failing batch is redone one by one)"""
    from Cython.Compiler.TreeFragment import TreeFragment
    out = {}
    for i in range(0, len(srcs), size):
        chunk = srcs[i:i + size]
        try:
            root = TreeFragment(''.join("v%d = %s\n" % (j, s_) for j, s_ in enumerate(chunk)), level=3).root
            stats = root.stats if hasattr(root, 'stats') else [root]
            if len(stats) == len(chunk):
                for s_, st in zip(chunk, stats):
                    out[s_] = st.rhs
        except Exception:
            pass
    return out


def detect_variant(ctx):
    probes = {
        'par': [('a - (b - c)', 'a - (b - c)'), ('(a ** b) ** c', '(a ** b) ** c'), ('(a if b else c) + d', '(a if b else c) + d'),
                ('(a + b).c', '(a + b).c'), ('(-1).real', '(-1).real'), ('x * f(y + z)', 'x * f(y + z)'), ('(a < b) < c', '(a < b) < c'),
                ('(1).real', '(1).real')],
        'casc': [('a < b < c', 'a < b < c')],
        'tup1': [('(a,)', '(a,)')],
        'lam': [('lambda a, b=1: a', 'lambda a, b=1: a')],
    }
    var = {}
    detail = {}
    for flag, ps in probes.items():
        res = []
        for src, fixed in ps:
            try:
                res.append(real_print(src) == fixed)
            except Exception as e:      # a probe that crashes the printer: treated as not fixed
                res.append(False)
        var[flag] = all(res)
        detail[flag] = ''.join('1' if r else '0' for r in res)
    return var, detail


def norm_words(t, atoms):
    return ' '.join(line_of(t, atoms))


def classify(t):
    """stable key of a (shrunk) failing term: which class of printer defect it exercises"""
    def kinds(u):
        if isinstance(u, tuple):
            yield u
            for x in u[1:]:
                yield from kinds(x)
        elif isinstance(u, list):
            for x in u:
                yield from kinds(x)
    if t[0] == 'A':
        return 'ew-literal-' + t[1]
    sub = [u for u in kinds(t) if u and isinstance(u[0], str)]
    if any(u[0] == 'L' for u in sub):
        return 'ew-lambda-placeholder'
    if t[0] == 'C' and t[4]:
        return 'ew-cmp-cascade-dropped'
    if (t[0] == 'D' and t[1] == 'tuple' and len(t[2]) == 1) or \
       (t[0] == 'I' and len(t[2]) == 1 and t[2][0][0] == 'P' and t[2][0][1][0] == 'D' and len(t[2][0][1][2]) == 1):
        return 'ew-tuple1-comma'
    if t[0] in ('T', 'F', 'I') and t[1][0] in ('U', 'B', 'C', 'Q', 'A'):
        return 'ew-postfix-base-parens'
    if any(isinstance(x, tuple) and x and x[0] == 'Q' for x in t[1:]) and t[0] in ('U', 'B', 'C', 'Q'):
        return 'ew-cond-parens'
    if t[0] in ('B', 'C', 'U'):
        return 'ew-assoc-parens'
    return 'ew-other-' + t[0]


def subterms(t):
    """immediate smaller candidates for shrinking"""
    out = []
    if not isinstance(t, tuple):
        return out
    for i, x in enumerate(t):
        if i == 0:
            continue
        if isinstance(x, tuple) and x and x[0] in 'AUBCQLTFID' and isinstance(x[0], str) and len(x[0]) == 1:
            out.append(x)
            if x[0] != 'A':
                out.append(t[:i] + (('A', 'name', 'q'),) + t[i + 1:])
            for y in subterms(x):
                out.append(t[:i] + (y,) + t[i + 1:]) if y[0] in 'AUBCQLTFID' else None
        elif isinstance(x, list):
            for j, e in enumerate(x):
                if isinstance(e, tuple):
                    for k, y in enumerate(e):
                        if isinstance(y, tuple) and y and y[0] in 'AUBCQLTFID':
                            out.append(y)
                    if len(x) > 1:
                        out.append(t[:i] + (x[:j] + x[j + 1:],) + t[i + 1:])
    return out


def oracle_same(src, text, atoms):
    """does `text` mean the same as `src` for CPython?  (terms compared with value-keyed atoms)"""
    try:
        a = ast.parse(src, mode='eval')
    except SyntaxError:
        return None
    try:
        b = ast.parse(text, mode='eval')
    except (SyntaxError, ValueError, UnicodeError):
        return False
    try:
        if norm_words(py2term_meaning(a), atoms) == norm_words(py2term_meaning(b), atoms):
            return True
        # the Cython parser folds signs of numeric literals (-(-1) is the literal 1): compare modulo constant folding
        return norm_words(py2term_meaning(fold_consts(a)), atoms) == norm_words(py2term_meaning(fold_consts(b)), atoms)
    except Unmodelled:
        return ast.dump(a) == ast.dump(b)


def fails_oracle(t):
    atoms = Atoms()
    try:
        src = src_of(t)
        return oracle_same(src, real_print(src), atoms) is False
    except Exception:
        return False


def all_subterms(t, acc=None):
    acc = [] if acc is None else acc
    if isinstance(t, tuple) and t and isinstance(t[0], str) and len(t[0]) == 1 and t[0] in 'AUBCQLTFID':
        acc.append(t)
        for x in t[1:]:
            all_subterms(x, acc)
    elif isinstance(t, (tuple, list)):
        for x in t:
            if isinstance(x, (tuple, list)):
                all_subterms(x, acc)
    return acc


def tsize(t):
    return len(all_subterms(t))


def shrink(t, budget=120):
    """smallest failing subterm, then operands replaced by names while it still fails"""
    cur = t
    for c in sorted(all_subterms(t), key=tsize):
        budget -= 1
        if budget <= 0:
            break
        if c is not t and fails_oracle(c):
            cur = c
            break
    changed = True
    while changed and budget > 0:
        changed = False
        for c in subterms(cur):
            budget -= 1
            if budget <= 0:
                break
            if c and c[0] in 'UBCQLTFID' and tsize(c) < tsize(cur) and fails_oracle(c):
                cur = c
                changed = True
                break
    return cur


BOUNDARY = """(a + b) * c|-(a ** b)|(-a) ** b|a ** -b|a ** (b ** c)|(a ** b) ** c|a - (b - c)|a / (b * c)|not (a and b)
(a if c else d) + e|a if c else (d if e else f)|(a if b else c) if d else e|(a < b) < c|a < b < c|a < (b < c)|-(-1)|- -a|-(1)
(lambda: x)(1)|lambda x: x + 1|f(a, *b, c=1, **d)|f(*a)|f(**a)|f(a)(b)|a.b.c|(a + b).c|(-a).b|(-1).real|(1).real|1.0.real
a[1:2]|a[1:2:3]|a[::2]|a[1:2, 3]|a[(1, 2)]|a[()]|a[b, ]|(a, )|()|(a, b)|[a, b]|[]|{a: b}|{}|{a, b}|(a, b)[0]|(a or b) and c
a or b and c|a and (b or c)|not a == b|(not a) == b|not (a == b)|a == (not b)|a in b|a not in b|a is not b|(a is b) is c
'a\\'b"c'|'\\n\\t\\x00'|b'abc\\xff'|'\\u1234'|1e100|0x1F|1_000|123456789012345678901234567890|1j|True|None|...|a @ b|a // b % c
a << (b << c)|(a << b) << c|a | b ^ c & d|(a | b) & c|~(a + b)|-a.b|-a[0]|-f(x)|(a, b) + c|a if (b if c else d) else e
a[b:c][d]|f(a)[b].c(d)|a.b(c=(d, e))|f(a=lambda: 1)|not not a|-(not a)|not -a|a < b == c|(a < b) == c|a * -b|a ** ~b|(a ** b)(c)
(a + b)(c)|(a + b)[c]|(a and b).c|(not a).b|(a if b else c).d|(a if b else c)(d)|(a if b else c)[d]|[a if b else c]|f(a if b else c)
a[b if c else d]|{a if b else c: d if e else f}|(a if b else c, d)|a[b if c else d:e]|lambda: (a if b else c)|(a, b) if c else d
-1|-1.5|-1j|x * f(y + z)|(-1) ** x|x ** -1|(lambda: x) if a else b|a if (lambda: x) else b|a if b else lambda: x|(lambda: x).y
lambda a, b=1, *c, **e: a|lambda: lambda: x|(a, (b,))|[(a,)]|a[(b,)]|-(a if b else c)|not (a if b else c)|(a or b) if c else d
a or (b or c)|(a or b) or c|a and b and c|(a == b) in c|a < b < c < d|(a < b < c) < d|a < (b < c < d)|(-1.5).hex|~1|-(-x)|+(-x)""".replace('\n', '|').split('|')


def run(ctx):
    import Cython.CodeWriter as CW
    assert CW.__file__.startswith(ctx.stage)
    ctx.rule = ("expression terms: the boundary list (every parenthesisation corner named in the property) then seeded random trees "
                "(depth 1..5 over names, int/float/imag/str/bytes/constant literals, unary, binary, comparison chains, conditional, "
                "lambda, attribute, call with */**/keywords, subscript/slice, tuple/list/set/dict), each rendered fully "
                "parenthesised, parsed by the real Cython parser and printed by the real ExpressionWriter; non-trivial = the term has "
                "at least one operator node with a compound operand; distinct by source text")
    ctx.explanation = ("Theorems: parse(print e)=e on tokens for the Lean transcription of ExpressionWriter (all trees, any depth) and "
                       "inspect.signature's reconstruction (all parameter lists).  Not covered by a theorem: the lexical layer (literal "
                       "text: repr of strings/bytes, number text; token spacing) -- checked against CPython tokenize/ast only; "
                       "__qualname__/__module__/__doc__ and the C getters of CythonFunction.c -- checked differentially against CPython "
                       "only; comprehensions/f-strings/starred displays are outside the Lean AST (oracle leg only).")
    # -- G: regenerated precedence table
    tbl, problems = extract_table(ctx)
    if tbl is None:
        ctx.tie_break('G precedence tables', problems, {})
        tbl = list(range(1, 13))
    tblw = ','.join(map(str, tbl))
    ctx.notes['precedence_table'] = dict(zip([c for c, _ in CLASSES], tbl))
    okwf = ctx.lean_obligation(
        'precedence table of the current source is well-formed',
        "import CyVerif.Model.C25\nopen CyVerif.C25\nexample : (Tbl.mk %s).WF := by decide\n" % ' '.join(map(str, tbl)),
        'Tbl.WF (strictly increasing classes or<and<not<cmp<|<^<&<shift<add<mul<unary<**, all > 0) for ' + tblw)
    ctx.obligation('operators of one precedence class share one number', not problems, problems or 'ok')
    var, detail = detect_variant(ctx)
    ctx.notes['printer_variant'] = {'flags': var, 'probe_bits': detail}
    vw = ''.join('1' if var[k] else '0' for k in ('par', 'casc', 'tup1', 'lam'))
    table_broken = (not okwf) or bool(problems)

    cases = []      # (origin, src)
    rp = getattr(ctx, 'replay_case', None)
    if rp and rp.get('case', {}).get('kind_module'):
        import c25kind
        c25kind.run_kinds(ctx)
        return
    if rp and rp.get('case', {}).get('src'):
        cases.append(('replay', rp['case']['src']))
    else:
        cdir = os.path.join(os.path.dirname(os.path.dirname(os.path.dirname(os.path.abspath(__file__)))), 'corpus', 'C25')
        if os.path.isdir(cdir):
            for fn in sorted(os.listdir(cdir)):
                if fn.endswith('.json'):
                    for s in json.load(open(os.path.join(cdir, fn))).get('sources', []):
                        cases.append(('corpus', s))
        cases += [('boundary', s) for s in BOUNDARY]
        n = ctx.n(800, 20000) * (3 if table_broken else 1)
        for i in range(n):
            cases.append(('random', src_of(gen_expr(ctx.rng, ctx.rng.choice([1, 2, 2, 3, 3, 4, 5])))))
    import time
    t0 = time.time()
    run_cases_py(ctx, cases, vw, tblw, var)
    ctx.notes['t_treefragment_leg_s'] = round(time.time() - t0, 1)
    if not (rp and rp.get('case', {}).get('src')):
        t0 = time.time()
        pipeline_leg(ctx, vw, tblw)
        ctx.notes['t_pipeline_leg_s'] = round(time.time() - t0, 1)
        if os.environ.get('C25_SKIP_SIG'):
            return
        try:
            import c25sig
        except ImportError:
            c25sig = None
            ctx.notes['sig_leg'] = 'harness/c25sig.py missing'
        if c25sig is not None:
            c25sig.run_sig(ctx)
        import c25kind
        c25kind.run_kinds(ctx)


def report_failing(ctx, failing, vw, tblw):
    """classify oracle failures: smallest subterm whose MODEL round trip fails (one driver batch), confirmed on the real printer"""
    lines, owners = [], []
    for n, (src, text, term) in enumerate(failing):
        base = term
        if base is None:
            try:
                base = py2term(ast.parse(src, mode='eval'))
            except Exception:
                base = None
        failing[n] = (src, text, base)
        if base is None:
            continue
        for c in sorted(all_subterms(base), key=tsize)[:800]:
            try:
                lines.append('C25 rt %s %s %s' % (vw, tblw, ' '.join(line_of(c, Atoms()))))
                owners.append((n, c))
            except Exception:
                pass
    outs = ctx.drv.batch(lines) if lines else []
    best = {}
    for (n, c), o in zip(owners, outs):
        if n not in best and o.startswith('ok ') and not o.endswith('| same'):
            best[n] = c
    done_keys = {}
    for n, (src, text, base) in enumerate(failing):
        small = best.get(n)
        if small is not None:
            key = classify(small)
            if key not in done_keys:
                if not fails_oracle(small):       # the model's verdict is not the real printer's: shrink on the real printer
                    small = shrink(base, budget=60)
                    key = classify(small)
                done_keys[key] = True
            ssrc = src_of(small)
            try:
                stext = real_print(ssrc) if key not in done_keys or done_keys[key] is True else text
                done_keys[key] = 2
            except Exception:
                stext = '?'
            ctx.violation(key, ('ExpressionWriter prints %s as %r, which CPython reads as a different expression' % (ssrc[:120], stext[:100]))[:300],
                          {'src': ssrc[:400], 'printed': stext[:200], 'from': src[:300]})
        else:
            key = classify(base) if base is not None else 'ew-unmodelled-node'
            if base is not None:
                # lexical defect the token-level model cannot see: an int literal as attribute base (`1.real`)
                ints = [c for c in all_subterms(base) if c[0] == 'T' and c[1][0] == 'A' and c[1][1] == 'int']
                cand = ints[0] if ints and fails_oracle(ints[0]) else (shrink(base, budget=40) if len(done_keys) < 12 else base)
                key = classify(cand)
                src, text = src_of(cand), text if cand is base else real_print(src_of(cand))
            ctx.violation(key, ('ExpressionWriter prints %s as %r, which CPython reads as a different expression' % (src[:120], text[:100]))[:300],
                          {'src': src[:400], 'printed': text[:200]})


def compound_operand(t):
    if not isinstance(t, tuple) or t[0] == 'A':
        return False
    if t[0] in ('U', 'B', 'C', 'Q', 'T', 'F', 'I'):
        if any(isinstance(x, tuple) and x and x[0] in 'UBCQL' for x in t[1:]):
            return True
    return any(compound_operand(x) for x in t[1:] if isinstance(x, tuple)) or \
        any(compound_operand(y) for x in t[1:] if isinstance(x, list) for e in x if isinstance(e, tuple) for y in e)


def run_cases_py(ctx, cases, vw, tblw, var, origin_tag='treefragment', nodes=None):
    """three-way on (source, node, printed text) triples.  `nodes`: optional pre-computed (src, node, text) list"""
    from Cython.Compiler.AutoDocTransforms import AnnotationWriter
    recs = []
    seen_src = set()
    uniq = []
    for origin, src in cases:
        if src not in seen_src:
            seen_src.add(src)
            uniq.append((origin, src))
    pre = batch_parse([s_ for _, s_ in uniq])
    for origin, src in uniq:
        atoms = Atoms()
        try:
            if src in pre:
                from Cython.CodeWriter import ExpressionWriter
                node = pre[src]
                text = ExpressionWriter(allow_unknown_nodes=True).write(node)
            else:
                text, node = real_print(src, want_node=True)
        except Exception as e:
            # the real parser rejects the source (or the printer crashes): the printer crash is a finding
            try:
                ast.parse(src, mode='eval')
                pyok = True
            except SyntaxError:
                pyok = False
            if pyok and type(e).__name__ not in ('CompileError',):
                msg = str(e)
                ckey = 'ew-crash-kwargs-dict-display' if "has no attribute 'value'" in msg else 'ew-crash-' + type(e).__name__
                ctx.violation(ckey, ('ExpressionWriter crashed on %s: %s' % (src[:150], msg[-120:]))[:300], {'src': src})
            ctx.count(origin + '/rejected')
            continue
        recs.append((origin, src, node, text, atoms))
    if nodes:
        for src, node, text in nodes:
            recs.append((origin_tag, src, node, text, Atoms()))
    lines = []
    meta = []
    for origin, src, node, text, atoms in recs:
        try:
            term = conv(node)
            tw = line_of(term, atoms)
        except Unmodelled as e:
            term, tw = None, None
        rtoks = toks_of_text(text, atoms)
        i_rt = i_parse = None
        if tw is not None:
            i_rt = len(lines)
            lines.append('C25 rt %s %s %s' % (vw, tblw, ' '.join(tw)))
        if rtoks:
            i_parse = len(lines)
            lines.append('C25 parse %s %s' % (tblw, ' '.join(rtoks)))
        meta.append((origin, src, node, text, atoms, term, tw, rtoks, i_rt, i_parse))
    outs = ctx.drv.batch(lines) if lines else []
    failing = []
    for origin, src, node, text, atoms, term, tw, rtoks, i_rt, i_parse in meta:
        ctx.count('%s/%s' % (origin, 'unmodelled' if term is None else term[0]))
        ctx.seen(src, nontrivial=bool(term is not None and compound_operand(term)))
        same = oracle_same(src, text, atoms)
        # annotation writer prints the same text when nothing is unknown
        try:
            aw = AnnotationWriter()
            atext = aw.write(node)
            if not aw.incomplete and '...' not in text.replace("'...'", '') and atext != text:
                ctx.violation('annotationwriter-differs', ('AnnotationWriter %r vs ExpressionWriter %r for %s' % (atext, text, src))[:300],
                              {'src': src})
        except Exception:
            pass
        model_toks = model_verdict = None
        if i_rt is not None:
            o = outs[i_rt]
            if o.startswith('ok ') and ' | ' in o:
                model_toks, model_verdict = o[3:].rsplit(' | ', 1)
                model_toks = model_toks.split()
            else:
                ctx.tie_break('Lean model rejects a converted tree', ('%s -> %s' % (src, o))[:300], {'src': src})
        ctx.sample({'src': src[:120], 'printed': text[:120], 'oracle_same': same, 'model_roundtrip': model_verdict and model_verdict[:40]})
        if same is False:
            failing.append((src, text, term))
        if model_toks is not None:
            # `1.real`: an int literal directly followed by '.' is lexed as a float by CPython (pinned printer only)
            lexical = not var['par'] and any(x.startswith('a:int:') and y == '.' for x, y in zip(model_toks, model_toks[1:]))
            tup1idx = not var['tup1'] and any(c[0] == 'I' and len(c[2]) == 1 and c[2][0][0] == 'P' and c[2][0][1][0] == 'D'
                                              and c[2][0][1][1] == 'tuple' and len(c[2][0][1][2]) == 1 for c in all_subterms(term))
            if (lexical or tup1idx) and same is False:
                pass        # `1.real`: the text does not even tokenize like the tree; reported by the oracle leg (ew-postfix-base-parens)
            elif rtoks is None or model_toks != rtoks:
                ctx.tie_break('D-py ExpressionWriter vs CyVerif.C25.pr (variant %s)' % vw,
                              ('%s: real %r model tokens %s' % (src, text, ' '.join(model_toks)))[:300], {'src': src})
            # model reader on the model's own output vs the oracle's verdict on the real text
            elif same is False and model_verdict == 'same':
                ctx.tie_break('Lean reference reader vs CPython ast.parse', ('%s printed %r: Lean round trip %s, CPython same=%s'
                                                                            % (src, text, model_verdict[:60], same))[:300], {'src': src})
        if i_parse is not None:
            o = outs[i_parse]
            try:
                want = 'ok ' + norm_words(py2term(ast.parse(text, mode='eval')), atoms)
            except SyntaxError:
                want = 'err SyntaxError'
            except (Unmodelled, ValueError, UnicodeError):
                want = None
            if want is not None and o != want:
                ctx.tie_break('Lean reference reader vs CPython ast.parse (tree)', ('text %r: Lean %s CPython %s' % (text, o, want))[:300],
                              {'src': src})

    report_failing(ctx, failing, vw, tblw)


def safe_for_pipeline(t):
    """defaults the whole compiler accepts: no call/attribute/subscript of a literal, no lambda with defaults in odd places"""
    if isinstance(t, list):
        return all(safe_for_pipeline(e) for e in t)
    if not isinstance(t, tuple):
        return True
    if t and t[0] in ('T', 'F', 'I') and isinstance(t[1], tuple) and t[1][0] in ('A', 'D', 'U') and not (t[1][0] == 'A' and t[1][1] == 'name'):
        return False
    if t and t[0] == 'B' and t[1] in ('matmul',):
        return False
    return all(safe_for_pipeline(x) for x in t[1:] if isinstance(x, (tuple, list)))


def deconst(t, under_op, rng):
    """replace literal atoms that are operands of operators by names (ConstantFolding would fold them away)"""
    if isinstance(t, list):
        return [deconst(e, False, rng) for e in t]
    if not isinstance(t, tuple):
        return t
    if t and t[0] == 'A':
        if under_op and t[1] != 'name':
            return ('A', 'name', rng.choice(NAMES))
        return t
    if t and t[0] == 'U' and t[1] == 'negf':
        return ('A', 'name', rng.choice(NAMES)) if under_op else t
    if t and t[0] in ('D', 'L') and under_op:
        return ('A', 'name', rng.choice(NAMES))
    if t and isinstance(t[0], str) and t[0] in ('U', 'B', 'C', 'Q'):
        return tuple(deconst(x, True, rng) if isinstance(x, (tuple, list)) and not isinstance(x, list) else
                     ([(o, deconst(e, True, rng)) for o, e in x] if isinstance(x, list) else x) for x in t)
    if t and isinstance(t[0], str) and t[0] in ('T', 'F', 'I'):
        return (t[0], deconst(t[1], True, rng)) + tuple(deconst(x, False, rng) if isinstance(x, (tuple, list)) else x for x in t[2:])
    return tuple(deconst(x, False, rng) if isinstance(x, (tuple, list)) else x for x in t)


def pipeline_leg(ctx, vw, tblw):
    """the trees EmbedSignature really prints (after ConstantFolding/AnalyseDeclarations): hook on _fmt_expr"""
    from Cython.Compiler import AutoDocTransforms as AD
    from Cython.Compiler.Main import compile as cycompile, CompilationOptions
    from Cython.Compiler import Errors
    nmod = ctx.n(1, 4)
    per = 80
    for m in range(nmod):
        srcs = []
        if m == 0:
            for s in BOUNDARY:
                try:
                    t = py2term(ast.parse(s, mode='eval'))
                except (Unmodelled, SyntaxError):
                    continue
                if safe_for_pipeline(t):
                    srcs.append(s)
        while len(srcs) < per + (len(BOUNDARY) if m == 0 else 0):
            t = deconst(gen_expr(ctx.rng, ctx.rng.choice([1, 2, 3, 3, 4])), False, ctx.rng)
            if safe_for_pipeline(t):
                srcs.append(src_of(t))
        used = set(NAMES) | {'q'}
        for s_ in srcs:
            try:
                used |= {n.id for n in ast.walk(ast.parse(s_, mode='eval')) if isinstance(n, ast.Name)}
            except SyntaxError:
                pass
        body = "%s = None\nargs = ()\nkw = {}\n" % ' = '.join(sorted(used - {'args', 'kw'}))
        body += ''.join("def f%d(p=%s): pass\n" % (i, s) for i, s in enumerate(srcs))
        path = os.path.join(ctx.scratch, 'c25pipe%d.py' % m)
        with open(path, 'w') as f:
            f.write(body)
        rec = []
        orig = AD.EmbedSignature._fmt_expr

        def hook(self, node, _orig=orig):
            r = _orig(self, node)
            rec.append((node.pos[1] if node.pos else 0, node, r))
            return r
        AD.EmbedSignature._fmt_expr = hook
        import contextlib
        try:
            try:
              with contextlib.redirect_stderr(io.StringIO()), contextlib.redirect_stdout(io.StringIO()):
                cycompile(path, CompilationOptions(language_level=3, compiler_directives={'embedsignature': True, 'binding': True},
                                                   output_file=os.path.join(ctx.scratch, 'c25pipe%d.c' % m)))
            except Exception as e:   # later stages may reject odd defaults; the hook has already run
                ctx.notes['pipeline_compile_%d' % m] = (type(e).__name__ + ': ' + str(e))[-200:]
        finally:
            AD.EmbedSignature._fmt_expr = orig
            Errors.init_thread() if hasattr(Errors, 'init_thread') else None
        ctx.count('pipeline/modules')
        if len(rec) < len(srcs) // 2:
            ctx.tie_break('pipeline hook on EmbedSignature._fmt_expr', 'only %d of %d defaults were printed' % (len(rec), len(srcs)), {})
        # the default of f<i> sits on line 4+i
        nodes = []
        for line, node, text in rec:
            i = line - 4
            if 0 <= i < len(srcs):
                nodes.append((srcs[i], node, text))
        run_cases_fold(ctx, nodes, vw, tblw)


def fold_consts(n):
    """constant-fold numeric operator subtrees of a CPython ast (what ConstantFolding does before the printer runs)"""
    class F(ast.NodeTransformer):
        def generic_visit(self, node):
            node = super().generic_visit(node)
            if isinstance(node, (ast.BinOp, ast.UnaryOp)) and not isinstance(getattr(node, 'op', None), (ast.Not,)):
                kids = [node.left, node.right] if isinstance(node, ast.BinOp) else [node.operand]
                if all(isinstance(k, ast.Constant) and isinstance(k.value, (int, float)) and not isinstance(k.value, bool) for k in kids):
                    try:
                        v = eval(compile(ast.Expression(body=node), '<fold>', 'eval'), {})
                        if isinstance(v, (int, float)) and abs(v) < 10 ** 60 and v == v:
                            return ast.copy_location(ast.Constant(value=v), node)
                    except Exception:
                        pass
            return node
    class N(ast.NodeTransformer):
        def visit_Constant(self, node):
            v = node.value
            if isinstance(v, (int, float)) and not isinstance(v, bool) and (v < 0 or (isinstance(v, float) and str(v).startswith('-'))):
                return ast.copy_location(ast.UnaryOp(op=ast.USub(), operand=ast.Constant(value=-v)), node)
            return node
    import copy
    return ast.fix_missing_locations(N().visit(F().visit(copy.deepcopy(n))))


def run_cases_fold(ctx, nodes, vw, tblw):
    """pipeline trees: model vs printer on the tree as it is; oracle = CPython meaning modulo constant folding"""
    lines, meta = [], []
    for src, node, text in nodes:
        atoms = Atoms()
        try:
            term = conv(node)
            tw = line_of(term, atoms)
        except Unmodelled:
            term = tw = None
        rtoks = toks_of_text(text, atoms)
        idx = None
        if tw is not None:
            idx = len(lines)
            lines.append('C25 rt %s %s %s' % (vw, tblw, ' '.join(tw)))
        meta.append((src, text, atoms, term, rtoks, idx))
    outs = ctx.drv.batch(lines) if lines else []
    for src, text, atoms, term, rtoks, idx in meta:
        ctx.count('pipeline/%s' % ('unmodelled' if term is None else term[0]))
        ctx.seen('pipe:' + src, nontrivial=bool(term is not None and compound_operand(term)))
        try:
            a = norm_words(py2term_meaning(fold_consts(ast.parse(src, mode='eval'))), atoms)
            try:
                b = norm_words(py2term_meaning(fold_consts(ast.parse(text, mode='eval'))), atoms)
            except SyntaxError:
                b = 'SyntaxError'
            same = a == b
        except (Unmodelled, ValueError, SyntaxError):
            same = None
        if same is False:
            key = classify(term) if term is not None else 'ew-unmodelled-node'
            small = None
            try:
                cand = py2term(ast.parse(src, mode='eval'))
                if fails_oracle(cand):
                    small = shrink(cand)
                    key = classify(small)
            except Exception:
                pass
            ctx.violation(key if small is not None else 'embedsig-' + key,
                          ('embedded signature prints default %s as %r (different meaning for CPython)' % (src, text))[:300],
                          {'src': src_of(small) if small is not None else src, 'printed': text[:200], 'pipeline': True})
        if idx is not None:
            o = outs[idx]
            mt = o[3:].rsplit(' | ', 1)[0].split() if o.startswith('ok ') else None
            known_lex = same is False and mt is not None and vw[0] == '0' and any(x.startswith('a:int:') and y == '.' for x, y in zip(mt, mt[1:]))
            known_t1 = same is False and vw[2] == '0' and term is not None and any(
                c[0] == 'I' and len(c[2]) == 1 and c[2][0][0] == 'P' and c[2][0][1][0] == 'D' and c[2][0][1][1] == 'tuple'
                and len(c[2][0][1][2]) == 1 for c in all_subterms(term))
            if known_lex or known_t1:
                pass
            elif mt is None or rtoks is None or mt != rtoks:
                ctx.tie_break('D-py EmbedSignature._fmt_expr vs CyVerif.C25.pr (variant %s)' % vw,
                              ('%s: real %r model %s' % (src, text, o))[:300], {'src': src})

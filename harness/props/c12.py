"""C12 — module string-table compression round-trips (Cython/LZSS.py + __pyx_lzss_decompress).

Legs (every run):
 G     decision constants of lzss_compress / Code.py's size guard are extracted from the STAGED source by
       `ast` and the Lean kernel checks `WF current` (ctx.lean_obligation); the model is driven with them.
 D-py  real `lzss_compress` (staged, pure Python) vs Lean `compress`: output bytes AND the 5 branch
       counters (`stats`, read through PRINT_STATS) must be identical.
 D-c   the text of `__pyx_lzss_decompress` is cut out of the STAGED Utility/StringTools.c (through
       Cython's own UtilityCode loader), compiled into a shared object and called through ctypes in a child
       process.  Source and destination buffers end exactly at PROT_NONE guard pages, so an out-of-bounds
       read of src / write of dst is a caught SIGSEGV, not silent.  Compared with the Lean `decompress` on
       compressor output and on mutated / truncated / random streams (UB kinds included).
 O     oracle = the property itself: real compressor -> real decompressor gives back the input, returns
       exactly the compressed length, touches no guard page.  Independent of the model.
 E2E   a module with > 200 bytes of string constants is compiled by the staged compiler (the compressor's
       real call site is logged), built with gcc and imported: the strings must come back.
"""
import ast
import hashlib
import io
import itertools
import json
import os
import re
import signal
import subprocess
import sys
import sysconfig

import lib

PINNED = {"window": (1 << 14) + 128, "maxMatch": 258, "shortMax": 0x7F, "midLenLim": 32, "midOffLim": 512,
          "longOffLim": 16384, "selectMargin": 200}
PORDER = ("window", "maxMatch", "shortMax", "midLenLim", "midOffLim", "longOffLim", "selectMargin")
ANCHOR_SHA = {  # sha256 (16 hex) of the normalised anchored source at the time the model was written
    "LZSS.py": "0678d33cb3e6665d", "__pyx_lzss_decompress": "4e4b830e731431cd"}


class ExtractError(Exception):
    pass


# --------------------------------------------------------------------------
# G: translator  source -> parameters


def _const(node):
    """evaluate an integer constant expression (literals, + - << >> | & *, parentheses)"""
    if isinstance(node, ast.Constant) and isinstance(node.value, int) and not isinstance(node.value, bool):
        return node.value
    if isinstance(node, ast.BinOp):
        a, b = _const(node.left), _const(node.right)
        ops = {ast.Add: lambda: a + b, ast.Sub: lambda: a - b, ast.LShift: lambda: a << b, ast.RShift: lambda: a >> b,
               ast.BitOr: lambda: a | b, ast.BitAnd: lambda: a & b, ast.Mult: lambda: a * b}
        for k, f in ops.items():
            if isinstance(node.op, k):
                return f()
    raise ExtractError("not an integer constant expression: " + ast.dump(node)[:80])


def _name(node):
    return node.id if isinstance(node, ast.Name) else None


def extract_params(stage):
    """Structure-based (not name-based) extraction, so that renaming a local does not break the tie."""
    src = open(os.path.join(stage, "Cython", "LZSS.py")).read()
    tree = ast.parse(src)
    fn = [n for n in ast.walk(tree) if isinstance(n, ast.FunctionDef) and n.name == "lzss_compress"]
    if len(fn) != 1:
        raise ExtractError("lzss_compress not found")
    fn = fn[0]
    inner = [n for n in fn.body if isinstance(n, ast.FunctionDef)]
    if len(inner) != 1:
        raise ExtractError("expected exactly one nested function (find_longest_match) in lzss_compress")
    inner = inner[0]
    P = {}

    def is_const(node):
        try:
            _const(node)
            return True
        except ExtractError:
            return False

    # --- match finder: MAX_MATCH = min(<const>, <expr>);  WINDOW_SIZE = <const> used as `... < WINDOW_SIZE`
    assigns = []
    for n in ast.walk(inner):
        if isinstance(n, ast.AnnAssign) and n.value is not None and _name(n.target):
            assigns.append((_name(n.target), n.value))
        elif isinstance(n, ast.Assign) and len(n.targets) == 1 and _name(n.targets[0]):
            assigns.append((_name(n.targets[0]), n.value))
    caps = [v for t, v in assigns if isinstance(v, ast.Call) and _name(v.func) == "min" and len(v.args) == 2
            and is_const(v.args[0]) and not is_const(v.args[1])]
    if len(caps) != 1:
        raise ExtractError("expected exactly one `X = min(<const>, <expr>)` (MAX_MATCH), found %d" % len(caps))
    P["maxMatch"] = _const(caps[0].args[0])
    upper = set()
    for n in ast.walk(inner):
        if isinstance(n, ast.Compare) and isinstance(n.ops[-1], ast.Lt) and _name(n.comparators[-1]):
            upper.add(_name(n.comparators[-1]))
    wins = [(t, _const(v)) for t, v in assigns if is_const(v) and t in upper]
    if len(set(wins)) != 1:
        raise ExtractError("expected exactly one constant used as an upper bound `< X` (WINDOW_SIZE), found %r" % wins)
    P["window"] = wins[0][1]

    # --- main loop: the encoding decision chain
    nodes = []

    def walk(node):
        for ch in ast.iter_child_nodes(node):
            if ch is inner:
                continue
            nodes.append(ch)
            walk(ch)
    walk(fn)
    nodes.sort(key=lambda c: (getattr(c, "lineno", 0), getattr(c, "col_offset", 0)))

    def simple_cmp(c):
        return isinstance(c, ast.Compare) and len(c.ops) == 1 and _name(c.left) and is_const(c.comparators[0])
    le = [c for c in nodes if simple_cmp(c) and isinstance(c.ops[0], ast.LtE)]
    if len(le) != 1:
        raise ExtractError("expected exactly one `x <= <const>` (short-offset limit), found %d" % len(le))
    offvar = _name(le[0].left)
    P["shortMax"] = _const(le[0].comparators[0])
    ands = [b for b in nodes if isinstance(b, ast.BoolOp) and isinstance(b.op, ast.And) and len(b.values) == 2
            and all(simple_cmp(v) for v in b.values)]
    mids = [b for b in ands if all(isinstance(v.ops[0], ast.Lt) for v in b.values)]
    longs = [b for b in ands if sorted(type(v.ops[0]).__name__ for v in b.values) == ["Gt", "Lt"]]
    if len(mids) != 1 or len(longs) != 1:
        raise ExtractError("expected one `a < C1 and b < C2` and one `a > C3 and b < C4` in the main loop, found %d/%d"
                           % (len(mids), len(longs)))
    mo = [v for v in mids[0].values if _name(v.left) == offvar]
    ml = [v for v in mids[0].values if _name(v.left) != offvar]
    lo = [v for v in longs[0].values if isinstance(v.ops[0], ast.Lt) and _name(v.left) == offvar]
    if len(mo) != 1 or len(ml) != 1 or len(lo) != 1:
        raise ExtractError("cannot tell offset limit from length limit in the encoding conditions")
    P["midOffLim"], P["midLenLim"], P["longOffLim"] = _const(mo[0].comparators[0]), _const(ml[0].comparators[0]), _const(lo[0].comparators[0])

    # --- Code.py: if compressed_size > len(concat_bytes) - 200: continue
    csrc = open(os.path.join(stage, "Cython", "Compiler", "Code.py")).read()
    margins = []
    for n in ast.walk(ast.parse(csrc)):
        if (isinstance(n, ast.Compare) and len(n.ops) == 1 and isinstance(n.ops[0], ast.Gt)
                and isinstance(n.comparators[0], ast.BinOp) and isinstance(n.comparators[0].op, ast.Sub)):
            lhs = n.comparators[0].left
            if isinstance(lhs, ast.Call) and _name(lhs.func) == "len" and len(lhs.args) == 1 and is_const(n.comparators[0].right):
                margins.append(_const(n.comparators[0].right))
    if len(margins) != 1:
        raise ExtractError("size guard `size > len(data) - K` not found exactly once in Code.py: %r" % margins)
    P["selectMargin"] = margins[0]
    for k in PORDER:
        if k not in P or P[k] < 0:
            raise ExtractError("parameter %s missing/negative" % k)
    return P


def pstr(P):
    return ",".join(str(P[k]) for k in PORDER)


def norm_sha(text):
    text = re.sub(r"#.*", "", text)
    return hashlib.sha256(re.sub(r"\s+", " ", text).strip().encode()).hexdigest()[:16]


# --------------------------------------------------------------------------
# D-c: the decompressor, cut out of the staged utility file

GLUE = r'''
#define _GNU_SOURCE
#include <stdint.h>
#include <stddef.h>
#include <string.h>
#include <signal.h>
#include <setjmp.h>
#include <unistd.h>
#ifndef CYTHON_UNUSED
#define CYTHON_UNUSED __attribute__((unused))
#endif
#ifndef CYTHON_SMALL_CODE
#define CYTHON_SMALL_CODE
#endif
/* ---- text of the staged Utility/StringTools.c section follows, unmodified ---- */
%s
/* ---- end ---- */
static sigjmp_buf verif_jb;
static volatile uintptr_t verif_fault;
static volatile int verif_sig;
static void verif_handler(int sig, siginfo_t *si, void *uc) {
    (void)uc; verif_sig = sig; verif_fault = (uintptr_t) si->si_addr; siglongjmp(verif_jb, 1);
}
/* returns 0 = returned normally (*ret), 1 = SIGSEGV/SIGBUS (*fault = address), 2 = alarm (no termination) */
int verif_call(const uint8_t *src, uint8_t *dst, size_t dst_len, size_t *ret, uintptr_t *fault) {
    struct sigaction sa, o1, o2, o3;
    memset(&sa, 0, sizeof sa);
    sa.sa_sigaction = verif_handler; sa.sa_flags = SA_SIGINFO | SA_NODEFER;
    sigemptyset(&sa.sa_mask);
    sigaction(SIGSEGV, &sa, &o1); sigaction(SIGBUS, &sa, &o2); sigaction(SIGALRM, &sa, &o3);
    int rc;
    if (sigsetjmp(verif_jb, 1) == 0) {
        alarm(5);
        *ret = __pyx_lzss_decompress(src, dst, dst_len);
        alarm(0);
        rc = 0;
    } else {
        alarm(0);
        *fault = verif_fault;
        rc = (verif_sig == SIGALRM) ? 2 : 1;
    }
    sigaction(SIGSEGV, &o1, NULL); sigaction(SIGBUS, &o2, NULL); sigaction(SIGALRM, &o3, NULL);
    return rc;
}
'''

CHILD = r'''
import ctypes, mmap, sys
so = sys.argv[1]
PAGE = mmap.PAGESIZE
libc = ctypes.CDLL(None, use_errno=True)
libc.mmap.restype = ctypes.c_void_p
libc.mmap.argtypes = [ctypes.c_void_p, ctypes.c_size_t, ctypes.c_int, ctypes.c_int, ctypes.c_int, ctypes.c_long]
libc.mprotect.argtypes = [ctypes.c_void_p, ctypes.c_size_t, ctypes.c_int]
lib = ctypes.CDLL(so)
lib.verif_call.restype = ctypes.c_int
lib.verif_call.argtypes = [ctypes.c_void_p, ctypes.c_void_p, ctypes.c_size_t, ctypes.POINTER(ctypes.c_size_t),
                           ctypes.POINTER(ctypes.c_size_t)]
NP = 80                      # 320 KiB usable per buffer
SLACK = 512                  # canary bytes checked in front of dst
def region():
    # [guard][NP pages rw][guard]
    base = libc.mmap(None, (NP + 2) * PAGE, 3, 0x22, -1, 0)
    if base in (None, ctypes.c_void_p(-1).value):
        raise SystemExit("mmap failed")
    assert libc.mprotect(base, PAGE, 0) == 0
    assert libc.mprotect(base + (NP + 1) * PAGE, PAGE, 0) == 0
    return base + PAGE, base + (NP + 1) * PAGE     # first usable byte, address of the high guard page
s_lo, s_hi = region()
d_lo, d_hi = region()
ret = ctypes.c_size_t(0); fault = ctypes.c_size_t(0)
out = sys.stdout
for line in sys.stdin:
    parts = line.split()
    if len(parts) != 2:
        continue
    src = b"" if parts[0] == "-" else bytes.fromhex(parts[0])
    n = int(parts[1])
    if len(src) > NP * PAGE - 16 or n > NP * PAGE - SLACK - 16:
        out.write("toolarge\n"); continue
    sp = s_hi - len(src)
    if src:
        ctypes.memmove(sp, src, len(src))
    dp = d_hi - n
    ctypes.memset(dp - SLACK, 0xA5, n + SLACK)
    ret.value = 0; fault.value = 0
    rc = lib.verif_call(sp, dp, n, ctypes.byref(ret), ctypes.byref(fault))
    if rc == 0:
        got = ctypes.string_at(dp, n) if n else b""
        pre = ctypes.string_at(dp - SLACK, SLACK)
        out.write("ok %s %d%s\n" % (got.hex() if got else "-", ret.value, "" if pre == b"\xa5" * SLACK else " underwrite"))
    elif rc == 2:
        out.write("timeout\n")
    else:
        a = fault.value
        if s_hi <= a < s_hi + PAGE: where = "src-read"        # touched the page right after src[len]
        elif d_hi <= a < d_hi + PAGE: where = "dst-write"     # touched the page right after dst[dst_len]
        else: where = "other"
        out.write("fault %s\n" % where)
    out.flush()
'''


def extract_c_function(ctx):
    """text of `__pyx_lzss_decompress` from the staged StringTools.c through Cython's utility loader"""
    from Cython.Compiler.Code import UtilityCode
    u = UtilityCode.load("DecompressString_LZSS", "StringTools.c")
    impl = u.impl
    m = re.search(r"^[^\n;{}]*\b__pyx_lzss_decompress\s*\([^)]*\)\s*\{", impl, re.M)
    if not m:
        raise ExtractError("__pyx_lzss_decompress not found in utility section DecompressString_LZSS")
    start = m.start()
    # include a directly preceding attribute line (CYTHON_UNUSED)
    pre = impl[:start].rstrip().split("\n")[-1].strip()
    i = m.end()
    depth = 1
    while i < len(impl) and depth:
        c = impl[i]
        depth += (c == "{") - (c == "}")
        i += 1
    if depth:
        raise ExtractError("unbalanced braces in __pyx_lzss_decompress")
    text = impl[start:i]
    if re.fullmatch(r"[A-Z_]+", pre or ""):
        text = pre + "\n" + text
    return text


def build_decoder(ctx, ctext, opt, extra=()):
    d = os.path.join(ctx.scratch, "cdec" + opt.replace("-", "_") + ("_cov" if extra else ""))
    os.makedirs(d, exist_ok=True)
    cfile = os.path.join(d, "lzssdec.c")
    with open(cfile, "w") as f:
        f.write(GLUE % ctext)
    so = os.path.join(d, "lzssdec.so")
    obj = os.path.join(d, "lzssdec.o")      # two steps, so that gcov finds lzssdec.gcno / lzssdec.gcda
    p = subprocess.run(["gcc", opt, "-c", "-fPIC", "-w"] + list(extra) + [cfile, "-o", obj],
                       cwd=d, stdout=subprocess.PIPE, stderr=subprocess.STDOUT, text=True, timeout=300)
    if p.returncode != 0:
        return None, p.stdout[-2000:]
    p = subprocess.run(["gcc", "-shared"] + list(extra) + [obj, "-o", so],
                       cwd=d, stdout=subprocess.PIPE, stderr=subprocess.STDOUT, text=True, timeout=300)
    if p.returncode != 0:
        return None, p.stdout[-2000:]
    return so, p.stdout[-2000:]


def run_decoder(ctx, so, cases, env_extra=None):
    """cases: list of (src bytes, dst_len) -> list of outcome strings (ok hex pos | fault where | timeout | crash X)"""
    child = os.path.join(ctx.scratch, "cdec_child.py")
    if not os.path.exists(child):
        with open(child, "w") as f:
            f.write(CHILD)
    res = []
    i = 0
    env = lib._clean_env(env_extra)
    while i < len(cases):
        chunk = cases[i:]
        data = "".join("%s %d\n" % (s.hex() if s else "-", n) for s, n in chunk)
        try:
            p = subprocess.run([lib.PYTHON, child, so], input=data, stdout=subprocess.PIPE, stderr=subprocess.PIPE,
                               text=True, env=env, cwd=os.path.dirname(so), timeout=600 + 6 * len(chunk) // 100)
            out, rc, err = p.stdout.split("\n"), p.returncode, p.stderr
        except subprocess.TimeoutExpired as e:
            so_far = e.stdout.decode() if isinstance(e.stdout, bytes) else (e.stdout or "")
            out, rc, err = so_far.split("\n"), "timeout", ""
        if out and out[-1] == "":
            out.pop()
        res.extend(out[:len(chunk)])
        i += len(out)
        if len(out) >= len(chunk):
            break
        if not out and i == 0 and rc not in ("timeout",) and isinstance(rc, int) and rc > 0:
            raise lib.Infra("decoder child failed to start: " + err[-600:])
        if rc == "timeout":
            res.append("timeout")
        elif isinstance(rc, int) and rc < 0:
            try:
                res.append("crash " + signal.Signals(-rc).name)
            except ValueError:
                res.append("crash %d" % rc)
        else:
            res.append("crash exit%s" % rc)
        i += 1
    return res


# --------------------------------------------------------------------------
# the real compressor (in-process, staged, pure Python), with its branch counters


class RealCompressor:
    def __init__(self, ctx):
        import Cython.LZSS as L
        if not L.__file__.endswith(".py") or not L.__file__.startswith(ctx.stage):
            raise lib.Infra("staged pure-Python Cython.LZSS not in use: %s" % L.__file__)
        self.L = L
        self.printed = []
        L.PRINT_STATS = True
        L.print = lambda *a: self.printed.append(a)      # module-level name shadows the builtin
        signal.signal(signal.SIGALRM, self._alarm)

    @staticmethod
    def _alarm(sig, frm):
        raise TimeoutError()

    def __call__(self, data, limit=40):
        """-> ('ok', bytes, stats|None) | ('err', ExcName, None)"""
        self.printed.clear()
        signal.alarm(limit)
        try:
            c = self.L.lzss_compress(data)
        except TimeoutError:
            return ("err", "timeout", None)
        except Exception as e:
            return ("err", type(e).__name__, None)
        finally:
            signal.alarm(0)
        stats = None
        for a in self.printed:
            if len(a) == 2 and a[0] == "ENCODINGS:" and isinstance(a[1], list):
                stats = list(a[1])
        if not isinstance(c, (bytes, bytearray)):
            return ("err", "returned-" + type(c).__name__, None)
        return ("ok", bytes(c), stats)


class LineCoverage:
    """executed lines of lzss_compress / find_longest_match (sys.monitoring, near-zero overhead)"""

    def __init__(self, L):
        self.codes = []
        self.hit = set()
        self.ok = False
        try:
            mon = sys.monitoring
            fn = L.lzss_compress.__code__
            self.codes = [fn] + [c for c in fn.co_consts if hasattr(c, "co_code") and c.co_name == "find_longest_match"]
            self.tool = mon.COVERAGE_ID
            mon.use_tool_id(self.tool, "c12cov")

            def on_line(code, line):
                self.hit.add((code.co_name, line))
                return mon.DISABLE
            mon.register_callback(self.tool, mon.events.LINE, on_line)
            for c in self.codes:
                mon.set_local_events(self.tool, c, mon.events.LINE)
            self.ok = True
        except Exception:
            self.ok = False

    def report(self):
        if not self.ok:
            return {"available": False}
        rep = {"available": True}
        for c in self.codes:
            lines = set(l for _, _, l in c.co_lines() if l is not None and l != c.co_firstlineno)
            got = set(l for n, l in self.hit if n == c.co_name)
            miss = sorted(lines - got)
            rep[c.co_name] = {"lines": len(lines), "executed": len(lines & got), "missed": miss}
        return rep

    def close(self):
        if self.ok:
            try:
                sys.monitoring.free_tool_id(self.tool)
            except Exception:
                pass


# --------------------------------------------------------------------------
# input generators


def rand_bytes(rng, n, k=256):
    if k >= 256:
        return rng.randbytes(n)
    return bytes(rng.randrange(k) for _ in range(n))


def planted(rng, gap, length, lead=0, tail=0, near_miss=False):
    """<lead random> CHUNK <gap random> CHUNK <tail random>: the second CHUNK can be coded as a back reference
    with end-offset = gap and match length = len(CHUNK) (random filler over 256 symbols: accidental matches rare)."""
    chunk = bytearray(rng.randbytes(length))
    fill = bytearray(rng.randbytes(gap))
    second = bytearray(chunk)
    if near_miss and length > 3:
        second[-1] ^= 0x55
    return bytes(rng.randbytes(lead) + chunk + fill + second + rng.randbytes(tail))


def boundary_values(P):
    offs = set()
    for b in (0, 1, 2, 3, P["shortMax"], 0x7F, 0x80, 0x80 + P["midOffLim"], 0x80 + 512, 0x80 + P["longOffLim"],
              0x80 + 16384, P["window"], PINNED["window"], P["window"] + P["maxMatch"], 0xFF, 0x100, 0x17F, 0x180, 0x200,
              0x80 + 127, 0x80 + 128, 0x80 + 255, 0x80 + 256, 0x80 + 384, 0x2000, 0x2080, 0x3FFF, 0x4000):
        for d in (-2, -1, 0, 1, 2):
            if 0 <= b + d <= 40000:
                offs.add(b + d)
    lens = set()
    for b in (3, 4, P["midLenLim"] + 3, 35, P["maxMatch"], 258, 131, 130, 19, 18, 67, 66):
        for d in (-2, -1, 0, 1, 2):
            if b + d >= 1:
                lens.add(b + d)
    return sorted(offs), sorted(lens)


def gen_inputs(ctx, P):
    rng = ctx.rng
    out = []
    # 1. exhaustive small strings
    for n in range(0, 5):
        for t in itertools.product(b"abc", repeat=n):
            out.append(("exh3", bytes(t)))
    for n in range(5, 9 if ctx.quick else 13):      # (not ctx.n: an exponent must not be scaled)
        for t in itertools.product(b"ab", repeat=n):
            out.append(("exh2", bytes(t)))
    if not ctx.quick:
        for n in range(5, 8):
            for t in itertools.product(b"abc", repeat=n):
                out.append(("exh3", bytes(t)))
    # 2. planted back references on every class / window boundary
    offs, lens = boundary_values(P)
    big = [o for o in offs if o > 2000]
    small = [o for o in offs if o <= 2000]
    for o in small:
        for l in lens:
            if ctx.quick and rng.random() < 0.5 and o not in (0, 0x7F, 0x80) and l not in (3, 4, 34, 35, 36, 258):
                continue
            out.append(("plant", planted(rng, o, l, lead=rng.randrange(0, 9), tail=rng.randrange(0, 6))))
    for o in big:
        ls = lens if not ctx.quick else [3, 4, 5, 34, 35, 36, 257, 258, 259]
        for l in ls:
            if ctx.quick and rng.random() < 0.6:
                continue
            out.append(("plant-far", planted(rng, o, l, lead=rng.randrange(0, 4), tail=rng.randrange(0, 4))))
    for _ in range(ctx.n(60, 600)):
        o = rng.choice(small + [rng.randrange(0, 700)])
        l = rng.choice(lens + [rng.randrange(3, 300)])
        out.append(("plant-miss", planted(rng, o, l, lead=rng.randrange(0, 30), tail=rng.randrange(0, 30), near_miss=True)))
    # 3. runs and periodic data (self-overlapping candidates, offset - length < 0)
    for n in list(range(1, 20)) + [255, 256, 257, 258, 259, 260, 261, 262, 263, 516, 517, 520, 1000, 5000]:
        out.append(("run", b"a" * n))
        out.append(("run", b"ab" * n))
        out.append(("run", b"abc" * n))
    for _ in range(ctx.n(40, 400)):
        p = rng.choice([1, 2, 3, 4, 5, 7, 8, 9, 16, 33, 64, 127, 128, 129, 200, 258, 259, 300, 511, 640, 700])
        unit = rand_bytes(rng, p, rng.choice([2, 4, 256]))
        n = rng.choice([10, 50, 300, 1000, 3000])
        s = (unit * (n // p + 2))[:n]
        if rng.random() < 0.5:      # sprinkle mutations so that matches end at odd places
            s = bytearray(s)
            for _ in range(rng.randrange(1, 6)):
                s[rng.randrange(len(s))] = rng.randrange(256)
            s = bytes(s)
        out.append(("periodic", s))
    # 4. random data over small alphabets (dense matches, lazy matching, flag groups of every fill level)
    for _ in range(ctx.n(300, 3000)):
        n = rng.choice([5, 8, 9, 16, 17, 30, 64, 100, 300, 1000])
        out.append(("rand", rand_bytes(rng, n, rng.choice([1, 2, 2, 3, 4, 8, 16, 256]))))
    # 5. text-like data (what the compiler really feeds: identifiers and doc strings)
    words = [b"__pyx_", b"self", b"return", b"import", b"cython", b"_", b"def ", b"None", b"value", b"Error", b".",
             b"\n", b" ", b"lzss", b"compress", b"string", b"table", b"0", b"1", b"x"]
    for _ in range(ctx.n(30, 300)):
        n = rng.choice([200, 500, 2000, 8000])
        s = bytearray()
        while len(s) < n:
            s += rng.choice(words) if rng.random() < 0.85 else rng.randbytes(rng.randrange(1, 5))
        out.append(("text", bytes(s[:n])))
    # 6. long inputs: beyond the window, up to tens of KiB (thorough: ~100 KiB)
    for n in ([20000, 40000] if ctx.quick else [20000, 40000, 70000, 100000, 102400]):
        for k in ([2, 256] if ctx.quick else [2, 3, 16, 256]):
            out.append(("long", rand_bytes(rng, n, k)))
        # far repeats: a block repeated at a distance around the window size
        blk = rng.randbytes(rng.choice([300, 600]))
        dist = rng.choice([P["window"] - 300, P["window"], P["window"] + 100, 16000, 16600])
        out.append(("long", blk + rng.randbytes(max(0, dist - len(blk))) + blk + rng.randbytes(50) + blk[:100]))
        s = bytearray()
        while len(s) < n:
            s += rng.choice(words) if rng.random() < 0.7 else rng.randbytes(rng.randrange(1, 40))
        out.append(("long", bytes(s[:n])))
    return out


def mutate_streams(ctx, pairs):
    """(stream, dst_len) cases for the decoder-only comparison"""
    rng = ctx.rng
    cases = []
    for d, c in pairs:
        n = len(d)
        if not c:
            continue
        r = rng.random()
        cases.append(("trunc", c[:rng.randrange(0, len(c))], n))
        cases.append(("dstlen", c, max(0, n + rng.choice([-3, -2, -1, 1, 2, 3, 17, 300]))))
        b = bytearray(c)
        for _ in range(rng.choice([1, 1, 1, 2, 5])):
            b[rng.randrange(len(b))] = rng.randrange(256)
        cases.append(("flip", bytes(b), n))
        b = bytearray(c)
        i = rng.randrange(len(b))
        b[i] ^= 1 << rng.randrange(8)
        cases.append(("bit", bytes(b), n))
        if r < 0.3:
            cases.append(("extend", c + rng.randbytes(rng.randrange(1, 5)), n + rng.randrange(1, 40)))
        if r < 0.2:
            j = rng.randrange(len(c))
            cases.append(("drop", c[:j] + c[j + 1:], n))
    for _ in range(ctx.n(400, 6000)):
        m = rng.choice([0, 1, 2, 3, 4, 6, 10, 30, 100])
        s = rng.randbytes(m)
        if rng.random() < 0.5 and m:
            s = bytes([rng.choice([0xFF, 0x00, 0x0F, 0xFE])]) + s[1:]
        cases.append(("random", s, rng.choice([0, 1, 2, 3, 5, 10, 40, 300])))
    # crafted: every UB kind right at the start
    cases += [("craft", b"", 0), ("craft", b"", 5), ("craft", b"\xff", 3), ("craft", b"\x00", 3), ("craft", b"\x00\x00", 3),
              ("craft", b"\x00\x00\x00", 3), ("craft", b"\x01A\x00\x00", 4), ("craft", b"\x01A\x00\x00", 3),
              ("craft", b"\x01A\x00\x00", 5), ("craft", b"\x01A\x01\x00", 9), ("craft", b"\x01A\x80\x00", 9),
              ("craft", b"\x01A\x80\x80", 9), ("craft", b"\x01A\x80\x80\x00", 9), ("craft", b"\xffABCDEFGH", 8),
              ("craft", b"\xffABCDEFGH", 9), ("craft", b"\xffABCDEFGH\x01I", 9), ("craft", b"\x01A", 0)]
    return cases


# --------------------------------------------------------------------------


E2E_TEMPLATE = '''
def strings():
    return [%s]
def texts():
    return [%s]
'''

_E2E_SNIPPET = r"""
import sys, json
src, logp = sys.argv[1], sys.argv[2]
import Cython.Compiler.Code as C
assert C.__file__.endswith('.py'), C.__file__
log = []
algos = []
for num, name, fn in C.compression_algorithms:
    if name == 'lzss' and fn is not None:
        def wrapped(data, _fn=fn):
            out = _fn(data)
            log.append([bytes(data).hex(), bytes(out).hex()])
            return out
        algos.append((num, name, wrapped))
    else:
        algos.append((num, name, fn))
C.compression_algorithms[:] = algos
from Cython.Compiler.Main import compile as cy_compile, CompilationOptions
res = cy_compile(src, CompilationOptions(language_level=3))
json.dump(log, open(logp, 'w'))
sys.exit(0 if res.num_errors == 0 else 3)
"""


def e2e_module(ctx, P, model_check):
    """compile a module with enough string constants through the whole staged compiler, log the compressor's
    real call, build + import, compare the strings."""
    rng = ctx.rng
    bs = []
    ts = []
    for i in range(40):
        bs.append(bytes(rng.randrange(256) for _ in range(rng.randrange(1, 30))) + b"common-suffix-%d" % (i % 5))
        ts.append("text_%d_%s_the_quick_brown_fox" % (i, "ab" * rng.randrange(1, 20)))
    src = E2E_TEMPLATE % (", ".join(repr(b) for b in bs), ", ".join(repr(t) for t in ts))
    d = os.path.join(ctx.scratch, "e2e")
    os.makedirs(d, exist_ok=True)
    pyx = os.path.join(d, "c12e2e.pyx")
    open(pyx, "w").write(src)
    logp = os.path.join(d, "lzss_calls.json")
    env = lib._clean_env({"PYTHONPATH": ctx.stage})
    p = subprocess.run([lib.PYTHON, "-c", _E2E_SNIPPET, pyx, logp], cwd=d, env=env, stdout=subprocess.PIPE,
                       stderr=subprocess.STDOUT, text=True, timeout=600)
    if p.returncode != 0:
        ctx.violation("e2e-cython-fails", "staged compiler fails on a module with string constants: " + p.stdout[-300:],
                      {"module": src})
        return
    calls = json.load(open(logp))
    ctext = open(os.path.join(d, "c12e2e.c")).read()
    m = re.search(r"__Pyx_DecompressString_LZSS\(cstring, (\d+), (\d+)\)", ctext)
    ctx.notes["e2e"] = {"compressor_calls": len(calls), "lzss_variant_emitted": bool(m),
                        "sizes": [int(m.group(2)), int(m.group(1))] if m else None}
    for dh, ch in calls:
        model_check(bytes.fromhex(dh), "e2e-call", expect_c=bytes.fromhex(ch))
    if calls:
        n, c = len(bytes.fromhex(calls[0][0])), len(bytes.fromhex(calls[0][1]))
        sel = ctx.drv.batch(["C12 selected %s %d %d" % (pstr(P), n, c)])[0]
        ctx.count("e2e/selected")
        if (sel == "ok 1") != bool(m):
            ctx.tie_break("G Code.py size guard vs CyVerif.C12.selected",
                          "len=%d compressed=%d: model %s, LZSS variant emitted=%s" % (n, c, sel, bool(m)), {"module": src})
        if m and (int(m.group(1)), int(m.group(2))) != (c, n):
            ctx.violation("e2e-lengths", "generated call passes (%s,%s), compressor saw (%d,%d)" % (m.group(1), m.group(2), c, n),
                          {"module": src})
    inc = sysconfig.get_paths()["include"]
    so = os.path.join(d, "c12e2e" + sysconfig.get_config_var("EXT_SUFFIX"))
    p = subprocess.run(["gcc", "-O0", "-shared", "-fPIC", "-w", "-I" + inc, os.path.join(d, "c12e2e.c"), "-o", so],
                       cwd=d, stdout=subprocess.PIPE, stderr=subprocess.STDOUT, text=True, timeout=900)
    if p.returncode != 0:
        ctx.violation("e2e-cc-fails", "generated C does not compile: " + p.stdout[-300:], {"module": src})
        return
    import cybuild
    try:
        outs = cybuild.run_cases(ctx, so, [("strings", ""), ("texts", "")])
    except lib.Infra as e:
        # the module built by the staged compiler cannot even be imported (e.g. "LZSS string data decompression failed")
        msg = str(e)
        m2 = re.search(r"(\w+Error: [^\n]*)\s*$", msg.strip())
        ctx.violation("e2e-module-import", "module built by the staged compiler fails at import: %s" % (m2.group(1) if m2 else msg[-200:]),
                      {"module": src, "error": msg[-600:]})
        return
    exp = ["ok list:[" + ";".join("bytes:" + repr(b) for b in bs) + "]",
           "ok list:[" + ";".join("str:" + repr(t) for t in ts) + "]"]
    for fn, got, want in zip(("strings", "texts"), outs, exp):
        ctx.count("e2e/module-" + fn)
        if got != want:
            ctx.violation("e2e-module-strings", "module built by the staged compiler returns wrong string constants from %s(): %s"
                          % (fn, got[:200]), {"module": src, "got": got, "want": want})


def run(ctx):
    rng = ctx.rng
    ctx.rule = ("byte strings: all over {a,b,c} up to length 4 (thorough 7) and over {a,b} up to 8 (thorough 12); planted "
                "back references on a grid of end-offsets x lengths around every encoding-class / window boundary "
                "(0,0x7F,0x80,0x80+2^9,0x80+2^14,window,+-2; 3,4,35,258,+-2, plus the values extracted from the current "
                "source) incl. near misses; runs/periodic data; seeded random data over alphabets of 1..256 symbols; "
                "identifier-like text; long inputs of 20-40 KiB (thorough 100 KiB) incl. repeats at window distance. "
                "Decoder-only cases: truncations, byte/bit flips, wrong dst_len, random and crafted streams. "
                "non-trivial = non-empty input; distinct by content hash")
    ctx.explanation = ("The property is covered at full strength for the modelled functions (lzss_roundtrip / shipped_roundtrip: "
                       "all WF parameter sets, all byte strings). Not covered by a theorem: that the Lean models equal the "
                       "Python/C source (sampled by the differential legs), the C wrapper __Pyx_DecompressString_LZSS and the "
                       "string-table indexing around it (end-to-end module leg only), other compression algorithms "
                       "(zlib/bz2/zstd are CPython's), C integer widths (uint32 fields never exceed 16767, size_t assumed "
                       ">= 32 bit).")
    ctx.assumptions = ["the compressor is called on `bytes` (elements < 256)",
                       "decompressor buffers: src holds exactly the compressed bytes, dst exactly uncompressed_length bytes"]
    ctx.extra_trusted = ["ast-based translator of the 7 decision constants (values echoed in notes.params)",
                         "C glue (signal handler, guard pages via mmap/mprotect) around the unmodified utility text; "
                         "Cython's UtilityCode loader used to cut the section"]

    # ---------------- G
    extract_ok = True
    try:
        P = extract_params(ctx.stage)
    except (ExtractError, SyntaxError, OSError) as e:
        extract_ok = False
        P = dict(PINNED)
        ctx.obligation("C12.params-extract", False, "translator cannot read the constants from the current source: %s" % e)
    ctx.notes["params"] = dict(P)
    ctx.notes["params_equal_pinned"] = (P == PINNED)
    wf_ok = False
    if extract_ok:
        ctx.obligation("C12.params-extract", True, "constants read from staged LZSS.py / Code.py: " + pstr(P))
        src = ("import CyVerif.Model.C12\nopen CyVerif.C12\n"
               "def current : Params := { window := %d, maxMatch := %d, shortMax := %d, midLenLim := %d, midOffLim := %d, "
               "longOffLim := %d, selectMargin := %d }\n"
               "example : WF current := by decide\n" % tuple(P[k] for k in PORDER))
        wf_ok = ctx.lean_obligation("C12.WF-current-params", src,
                                    "WF holds for the constants of the current source (%s): the theorems apply" % pstr(P))
    if not (extract_ok and wf_ok):
        ctx.budget_scale = max(ctx.budget_scale, 3.0)
    try:
        lsrc = open(os.path.join(ctx.stage, "Cython", "LZSS.py")).read()
        ctx.notes["anchor_sha"] = {"LZSS.py": norm_sha(lsrc)}
    except OSError:
        pass

    # ---------------- the two implementations
    real = RealCompressor(ctx)
    cov = LineCoverage(real.L)
    try:
        ctext = extract_c_function(ctx)
        ctx.notes.setdefault("anchor_sha", {})["__pyx_lzss_decompress"] = norm_sha(ctext)
    except Exception as e:   # loader/section changed: broken tie, not a crash
        ctx.tie_break("D-c extraction of __pyx_lzss_decompress", "cannot cut the function out of the staged StringTools.c: %r" % e, {})
        ctext = None
    sos = {}
    if ctext:
        for opt in (["-O0"] if ctx.quick else ["-O0", "-O2"]):
            so, log = build_decoder(ctx, ctext, opt)
            if so is None:
                ctx.violation("decoder-does-not-compile", "the utility function does not compile stand-alone (%s): %s" % (opt, log[-300:]),
                              {"ctext": ctext})
            else:
                sos[opt] = so
    primary = sos.get("-O0") or (list(sos.values())[0] if sos else None)

    drift = sorted(k for k, v in ctx.notes.get("anchor_sha", {}).items() if ANCHOR_SHA.get(k) != v)
    ctx.notes["anchor_drift"] = drift       # never a verdict by itself: only raises the differential budget
    if drift:
        ctx.budget_scale = max(ctx.budget_scale, 3.0)
    rcase = None
    if ctx.replay_case:
        rcase = ctx.replay_case.get("case")
        if rcase is None and ctx.replay_case.get("correspondence"):
            rcase = ctx.replay_case["correspondence"][0].get("replay")
    if rcase and ("data" in rcase or "stream" in rcase):
        rc = rcase
        inputs = [("replay", bytes.fromhex(rc["data"]))] if "data" in rc else []
        replay_streams = [("replay", bytes.fromhex(rc["stream"]), int(rc["dstlen"]))] if "stream" in rc else []
    else:
        inputs = []
        cdir = os.path.join(lib.VERIF, "corpus", "C12")
        if os.path.isdir(cdir):
            for fn in sorted(os.listdir(cdir)):
                if fn.endswith(".json"):
                    for h in json.load(open(os.path.join(cdir, fn))).get("data", []):
                        inputs.append(("corpus", bytes.fromhex(h)))
        inputs += sorted(gen_inputs(ctx, P), key=lambda t: len(t[1]))      # small failing inputs are met first
        replay_streams = None

    # ---------------- D-py + O on every input
    pairs = []
    totals = [0] * 5
    state = {"bad_inputs": []}

    def check_batch(batch, expect=None):
        """batch: list of (tag, data).  Three-way on each."""
        impl = [real(d) for _, d in batch]
        lines = ["C12 comp %s %s" % (pstr(P), d.hex() if d else "-") for _, d in batch]
        model = ctx.drv.batch(lines)
        dec_cases = []
        for (tag, d), r in zip(batch, impl):
            if r[0] == "ok" and d:
                dec_cases.append((r[1], len(d)))
        dec_out = {}
        for opt, so in sos.items():
            dec_out[opt] = run_decoder(ctx, so, dec_cases)
        mdec = ctx.drv.batch(["C12 decomp %s %d" % (c.hex() if c else "-", n) for c, n in dec_cases]) if dec_cases else []
        k = 0
        for idx, ((tag, d), r, m) in enumerate(zip(batch, impl, model)):
            ctx.count("comp/" + tag)
            ctx.seen((len(d), hashlib.sha1(d).digest()), nontrivial=bool(d))
            if r[0] == "ok":
                st = r[2] if r[2] is not None else ([0] * 5 if not d else None)
                if st is None:
                    # the debug counters are not available (PRINT_STATS refactored away): compare the bytes only
                    state["stats_missing"] = state.get("stats_missing", 0) + 1
                    m = m.rsplit(" ", 1)[0] if m.startswith("ok ") else m
                    impl_line = "ok %s" % (r[1].hex() if r[1] else "-")
                else:
                    impl_line = "ok %s %s" % (r[1].hex() if r[1] else "-", "[" + ",".join(map(str, st)) + "]")
                    for j in range(5):
                        totals[j] += st[j]
            else:
                impl_line = "err " + r[1]
            if expect is not None and r[0] == "ok" and expect[idx] is not None and r[1] != expect[idx]:
                ctx.tie_break("E2E compressor call replay", "in-process lzss_compress differs from the compiler's own call",
                              {"data": d.hex()})
            if len(ctx.samples) < 4 and tag in ("plant", "text"):
                ctx.sample({"tag": tag, "len": len(d), "impl": impl_line[:90], "model": m[:90]})
            if r[0] != "ok":
                ctx.violation("compress-raises", "lzss_compress raises %s on %d bytes %s" % (r[1], len(d), d[:24].hex()),
                              {"data": d.hex(), "impl": impl_line})
                state["bad_inputs"].append(d)
            if impl_line != m:
                ctx.tie_break("D-py lzss_compress vs CyVerif.C12.compress",
                              "%d bytes (%s): impl %s model %s" % (len(d), tag, impl_line[:80], m[:80]), {"data": d.hex()})
                state["bad_inputs"].append(d)
            if r[0] == "ok" and d:
                c = r[1]
                want = "ok %s %d" % (d.hex(), len(c))
                for opt in sos:
                    got = dec_out[opt][k]
                    ctx.count("roundtrip/" + opt)
                    if got != want:
                        kind = ("oob" if got.startswith(("fault", "crash")) else "timeout" if got == "timeout"
                                else "consumed" if got.startswith("ok " + d.hex() + " ") else "mismatch")
                        ctx.violation("rt-" + kind,
                                      "round trip fails (%s, gcc %s) on %d bytes [%s…]: decompressor gives %s, expected the input "
                                      "and consumed=%d" % (kind, opt, len(d), d[:16].hex(), got[:60], len(c)),
                                      {"data": d.hex(), "compressed": c.hex(), "got": got[:400]})
                        state["bad_inputs"].append(d)
                    if got != mdec[k]:
                        mm = mdec[k]
                        if not (mm == "ub dst-read"):
                            ctx.tie_break("D-c __pyx_lzss_decompress vs CyVerif.C12.decompress (compressor output)",
                                          "impl %s model %s" % (got[:60], mm[:60]), {"stream": c.hex(), "dstlen": len(d)})
                pairs.append((d, c))
                k += 1
            elif r[0] == "ok" and not d:
                if r[1] != b"":
                    ctx.violation("compress-empty", "lzss_compress(b'') = %r, expected b''" % (r[1],), {"data": ""})

    B = 400
    # shortest first: a failing input found early is small
    for i in range(0, len(inputs), B):
        check_batch(inputs[i:i + B])

    # ---------------- E2E through the whole compiler
    if not ctx.replay_case:
        def model_check(d, tag, expect_c=None):
            check_batch([(tag, d)], expect=[expect_c])
        try:
            e2e_module(ctx, P, model_check)
        except subprocess.TimeoutExpired:
            raise lib.Infra("e2e build timed out")

    # ---------------- D-c on mutated / random streams
    if primary:
        if replay_streams is not None:
            mcases = replay_streams
        else:
            sub = pairs if len(pairs) < ctx.n(1500, 12000) else rng.sample(pairs, ctx.n(1500, 12000))
            sub = [(d, c) for d, c in sub if len(c) < 30000]
            mcases = mutate_streams(ctx, sub)
        mlines = ["C12 decomp %s %d" % (s.hex() if s else "-", n) for _, s, n in mcases]
        mout = ctx.drv.batch(mlines) if mlines else []
        for opt, so in sos.items():
            iout = run_decoder(ctx, so, [(s, n) for _, s, n in mcases])
            for (tag, s, n), mo, io_ in zip(mcases, mout, iout):
                if mo.startswith("ok"):
                    kind, ok = "ok", (io_ == mo)
                elif mo == "ub src-read":
                    kind, ok = "ub-src-read", (io_ == "fault src-read")
                elif mo == "ub dst-write":
                    kind, ok = "ub-dst-write", (io_ == "fault dst-write")
                elif mo == "ub dst-read":
                    kind, ok = "ub-dst-read(any)", True      # wrapped ref_pos: address not predictable
                else:
                    kind, ok = "model-" + mo[:12], False
                ctx.count("stream/%s/%s" % (tag, kind))
                ctx.seen(("s", n, hashlib.sha1(s).digest()))
                if not ok:
                    ctx.tie_break("D-c __pyx_lzss_decompress vs CyVerif.C12.decompress (%s stream)" % tag,
                                  "gcc %s dst_len=%d stream=%s: impl %s model %s" % (opt, n, s[:24].hex(), io_[:60], mo[:60]),
                                  {"stream": s.hex(), "dstlen": n})

    # ---------------- search harder around any disagreement / failed obligation
    need_search = (ctx.tie_breaks or not (extract_ok and wf_ok)) and not ctx.violations and not ctx.replay_case
    if need_search and primary:
        seeds = state["bad_inputs"][:20] or [d for _, d in inputs if 8 < len(d) < 400][:50]
        extra = []
        for d in seeds:
            for _ in range(30):
                a = rng.randrange(len(d))
                b = rng.randrange(a, len(d)) + 1
                piece = d[a:b]
                extra.append(("search", piece))
                extra.append(("search", piece + d[:rng.randrange(1, len(d) + 1)]))
                extra.append(("search", d + piece + rng.randbytes(3) + piece))
        offs, lens = boundary_values(P)
        for o in offs:
            for l in lens:
                extra.append(("search", planted(rng, o, l, lead=rng.randrange(0, 5), tail=rng.randrange(0, 9))))
        for _ in range(ctx.n(3000, 30000)):
            extra.append(("search", rand_bytes(rng, rng.choice([6, 12, 40, 200, 2000]), rng.choice([1, 2, 3, 4, 16, 256]))))
        for i in range(0, len(extra), B):
            check_batch(extra[i:i + B])
            if ctx.violations:
                break

    ctx.notes["token_kinds"] = {"literal(no match)": totals[0], "ref 7-bit offset": totals[1], "ref 2+7-bit offset/5-bit len": totals[2],
                                "ref 7+7-bit offset/8-bit len": totals[3], "literal(fallback: match not encodable)": totals[4]}
    ctx.notes["stats_counters_missing"] = state.get("stats_missing", 0)
    ctx.notes["line_coverage_py"] = cov.report()
    cov.close()

    # ---------------- C line coverage (thorough): gcov over the same compressor outputs
    if ctext and not ctx.quick and not ctx.replay_case:
        so, log = build_decoder(ctx, ctext, "-O0", extra=("--coverage",))
        if so:
            sub = pairs[:3000] + rng.sample(pairs, min(len(pairs), 500))
            run_decoder(ctx, so, [(c, len(d)) for d, c in sub])
            d = os.path.dirname(so)
            p = subprocess.run(["gcov", "-t", "lzssdec.c"], cwd=d, stdout=subprocess.PIPE, stderr=subprocess.PIPE, text=True)
            inside = False
            tot = hit = 0
            missed = []
            for line in p.stdout.split("\n"):
                parts = line.split(":", 2)
                if len(parts) < 3:
                    continue
                cnt, text = parts[0].strip(), parts[2]
                if "__pyx_lzss_decompress" in text and "{" in text:
                    inside = True
                if inside and cnt != "-":
                    tot += 1
                    if cnt.startswith("#") or cnt.startswith("="):
                        missed.append(text.strip()[:60])
                    else:
                        hit += 1
                if inside and text.startswith("}"):
                    inside = False
            ctx.notes["line_coverage_c"] = {"lines": tot, "executed": hit, "missed": missed}

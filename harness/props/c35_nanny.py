"""C35 leg 3: the compiled STAGED refnanny.pyx driven through its RefNannyAPI function table (ctypes),
against the Lean model of Context (exact report text, refs dict, refcount deltas) and the counting spec."""
import json
import os
import subprocess

import lib

CHILD = r'''
import sys, json, io, ctypes, contextlib
spec = json.load(open(sys.argv[1]))
sys.path.insert(0, spec['nanny_dir'])
import refnanny
P = ctypes.c_void_p
F4 = ctypes.PYFUNCTYPE(None, P, P, ctypes.c_ssize_t)
class API(ctypes.Structure):
    _fields_ = [('INCREF', F4), ('DECREF', F4), ('GOTREF', F4), ('GIVEREF', F4),
                ('SetupContext', ctypes.PYFUNCTYPE(P, ctypes.c_char_p, ctypes.c_ssize_t, ctypes.c_char_p)),
                ('FinishContext', ctypes.PYFUNCTYPE(None, ctypes.POINTER(P)))]
api = ctypes.cast(refnanny.RefNannyAPI, ctypes.POINTER(API)).contents
incref = ctypes.pythonapi.Py_IncRef; incref.argtypes = [ctypes.py_object]; incref.restype = None
decref = ctypes.pythonapi.Py_DecRef; decref.argtypes = [ctypes.py_object]; decref.restype = None
class Obj(object): pass
KEEP = 64
out = sys.__stdout__
for stream in spec['streams']:
    toks = stream.split()
    nobj = 1 + max([int(t[1:].split(':')[0]) for t in toks if t[1:].split(':')[0] != 'N'] + [0])
    objs = [Obj() for _ in range(nobj)]
    for o in objs:
        for _ in range(KEEP): incref(o)
    base = [sys.getrefcount(objs[i]) for i in range(nobj)]
    ctxp = api.SetupContext(b'fn', 7, b'file.c')
    ctxobj = ctypes.cast(ctxp, ctypes.py_object).value
    def ptr(s):
        return None if s == 'N' else id(objs[int(s)])
    for t in toks:
        c = t[0]
        if c == 'A':
            incref(objs[int(t[1:])]); continue
        ps, ls = t[1:].split(':')
        p, l = ptr(ps), int(ls)
        if c in 'gvid' and p is None:
            continue
        fn = {'G': api.GOTREF, 'V': api.GIVEREF, 'I': api.INCREF, 'D': api.DECREF,
              'g': api.GOTREF, 'v': api.GIVEREF, 'i': api.INCREF, 'd': api.DECREF}[c]
        fn(ctxp, p, l)
    ids = {id(o): i for i, o in enumerate(objs)}
    refs = ';'.join('%d=%d[%s]' % (ids.get(k, -1), v[0], ', '.join(map(str, v[1]))) for k, v in ctxobj.refs.items())
    nerr = len(ctxobj.errors)
    del ctxobj
    buf = io.StringIO()
    cell = P(ctxp)
    with contextlib.redirect_stdout(buf):
        api.FinishContext(ctypes.byref(cell))
    text = buf.getvalue()
    lines = text.split('\n')
    rep = 'None'
    if text:
        head_ok = lines[0] == 'file.c: fn()'
        rep = '|'.join(l for l in lines[1:] if l != '') if head_ok else 'BADHEAD ' + text[:80]
    deltas = [sys.getrefcount(objs[i]) - base[i] for i in range(nobj)]
    cleared = cell.value is None
    out.write(json.dumps({'report': rep, 'deltas': deltas, 'refs': refs, 'cleared': cleared}) + '\n')
    out.flush()
    # restore: drop the extra references that are still there
    for o, d in zip(objs, deltas):
        for _ in range(KEEP + d): decref(o)
'''


def run_streams(ctx, nanny_so, streams):
    spec = {"nanny_dir": os.path.dirname(nanny_so), "streams": streams}
    sp = os.path.join(ctx.scratch, "nanny_streams.json")
    with open(sp, "w") as f:
        json.dump(spec, f)
    child = os.path.join(ctx.scratch, "c35_nanny_child.py")
    with open(child, "w") as f:
        f.write(CHILD)
    p = subprocess.run([lib.PYTHON, child, sp], stdout=subprocess.PIPE, stderr=subprocess.PIPE, text=True,
                       env=lib._clean_env({"PYTHONPATH": ctx.stage}), timeout=900)
    res = [json.loads(l) for l in p.stdout.split("\n") if l.startswith("{")]
    if len(res) != len(streams):
        # a crash of the real checker on some stream is an observation
        return res, {"rc": p.returncode, "stderr": p.stderr[-300:], "at": streams[len(res)] if len(res) < len(streams) else None}
    return res, None


def spec_balanced(toks):
    """the counting specification, computed independently of the model"""
    held = {}
    for t in toks:
        c = t[0]
        if c == "A":
            continue
        ps = t[1:].split(":")[0]
        if ps == "N":
            if c in "gvid":
                continue
            return False
        o = int(ps)
        if c in "GIgi":
            held[o] = held.get(o, 0) + 1
        else:
            if held.get(o, 0) == 0:
                return False
            held[o] -= 1
    return all(v == 0 for v in held.values())


def spec_deltas(toks, nobj):
    """net refcount when every DECREF is carried out (only valid for balanced streams)"""
    d = [0] * nobj
    for t in toks:
        c = t[0]
        if c == "A":
            d[int(t[1:])] += 1
            continue
        ps = t[1:].split(":")[0]
        if ps == "N":
            continue
        if c in "Ii":
            d[int(ps)] += 1
        elif c in "Dd":
            d[int(ps)] -= 1
    return d


def random_stream(rng, n, nobj, style):
    toks, held = [], {}
    line = 0
    for _ in range(n):
        line += rng.randint(1, 9)
        o = rng.randrange(nobj)
        x = rng.random()
        if style == "random":
            c = rng.choice("AGVIDgvid")
            p = "N" if rng.random() < 0.08 else str(o)
            toks.append("A%d" % o if c == "A" else "%s%s:%d" % (c, p, line))
            continue
        # balanced by construction
        live = [k for k, v in held.items() if v > 0]
        if live and x < 0.45:
            o = rng.choice(live)
            held[o] -= 1
            toks.append("%s%d:%d" % (rng.choice("VDvd"), o, line))
        elif x < 0.55:
            toks.append("%sN:%d" % (rng.choice("gvid"), line))
        elif x < 0.8:
            toks += ["A%d" % o, "%s%d:%d" % (rng.choice("Gg"), o, line)]
            held[o] = held.get(o, 0) + 1
        else:
            toks.append("%s%d:%d" % (rng.choice("Ii"), o, line))
            held[o] = held.get(o, 0) + 1
    if style != "random":
        for o, v in held.items():
            for _ in range(v):
                line += 1
                toks.append("%s%d:%d" % (rng.choice("VD"), o, line))
        if style == "drop" and toks:
            idx = [i for i, t in enumerate(toks) if t[0] != "A" and ":" in t and t[1] != "N"]
            if idx:
                del toks[rng.choice(idx)]
        elif style == "dup" and toks:
            idx = [i for i, t in enumerate(toks) if t[0] != "A" and t[1] != "N"]
            if idx:
                i = rng.choice(idx)
                toks.insert(rng.randint(i, len(toks)), toks[i])
        elif style == "null" and toks:
            toks.insert(rng.randrange(len(toks) + 1), "%sN:%d" % (rng.choice("GVID"), 1))
    return " ".join(toks)


def check_streams(ctx, nanny_so, streams, label):
    streams = [s for s in streams if s]
    mouts = ctx.drv.batch(["C35 nanny " + s for s in streams])
    res, crashed = run_streams(ctx, nanny_so, streams)
    for s, mo, r in zip(streams, mouts, res):
        toks = s.split()
        nobj = 1 + max([int(t[1:].split(":")[0]) for t in toks if t[1:].split(":")[0] != "N"] + [0])
        impl = "ok %s # %s # %s" % (r["report"], ",".join(map(str, r["deltas"])), r["refs"])
        bal = spec_balanced(toks)
        ctx.count("%s:%s" % (label, "balanced" if bal else "unbalanced"))
        ctx.seen(("nanny", s), nontrivial=len(toks) > 1)
        replay = {"leg": "nanny", "events": s}
        if (r["report"] == "None") != bal:
            ctx.violation("refnanny-misses-imbalance" if not bal else "refnanny-false-alarm",
                          ("events %s: counting spec says %s, the compiled refnanny reports %s"
                           % (s[:200], "balanced" if bal else "unbalanced", r["report"][:100])), replay)
        elif bal and r["deltas"] != spec_deltas(toks, nobj):
            ctx.violation("refnanny-refcount", "events %s: refcount deltas %s, expected %s" % (s[:200], r["deltas"], spec_deltas(toks, nobj)), replay)
        if not r["cleared"]:
            ctx.violation("refnanny-context-not-cleared", "FinishContext left the context pointer set: " + s[:200], replay)
        if impl != mo:
            ctx.tie_break("refnanny-vs-model", "events %s | impl %s | model %s" % (s[:120], impl[:130], mo[:130]), replay)
    if crashed:
        ctx.violation("refnanny-crash", ("the compiled refnanny died rc=%s on %s" % (crashed["rc"], str(crashed["at"])[:200]))[:380],
                      {"leg": "nanny", "events": crashed["at"]})
    if streams:
        ctx.sample({"leg": "nanny-" + label, "events": streams[len(streams) // 2][:200]})


# ---------------------------------------------------------------------------
# the abstract generated function (Model/C35Func.lean): disciplined statement sequences are
# generated against the REAL FunctionState, run through the model, and the event stream the model
# produces is replayed on the real refnanny.

def disciplined(rng, Code, T, fsmod, n):
    fs = Code.FunctionState(fsmod.StubOwner(), names_taken=set(), scope=fsmod.StubScope(False))
    owned, stmts = {}, []
    obj_toks = ["0:1000", "1:1000", "2:1000"]
    other = ["4:0000", "5:0000", "4:0010"]
    for _ in range(n):
        x = rng.random()
        try:
            fs.temps_in_use()
        except Exception:
            break
        holding = [fsmod.num(nm) for nm, t in fs.temps_holding_reference()]
        inuse = [fsmod.num(nm) for nm, t, m in fs.temps_in_use()]
        empty = [t for t in holding if t not in owned]
        if x < 0.3 or not inuse:
            tok = rng.choice(obj_toks) if rng.random() < 0.8 else rng.choice(other)
            m = rng.random() < 0.9
            try:
                fs.allocate_temp(T.by_tok[tok], m, static=False, reusable=True)
            except Exception:
                break
            stmts.append("a%d01:%s" % (m, tok))
        elif x < 0.55 and empty:
            t = rng.choice(empty)
            o = rng.randrange(4)
            owned[t] = o
            stmts.append("%s%d:%d" % (rng.choice("nnb"), t, o))
        elif x < 0.8 and owned:
            t = rng.choice(sorted(owned))
            del owned[t]
            stmts.append("%s%d" % (rng.choice("dds"), t))
        else:
            cand = [t for t in inuse if t not in owned]
            if cand:
                t = rng.choice(cand)
                try:
                    fs.release_temp(fsmod.PREFIX + str(t))
                except Exception:
                    break
                stmts.append("r%d" % t)
    full = all(t in owned for t in [fsmod.num(nm) for nm, t in fs.temps_holding_reference()])
    return stmts, full


def check_func_machine(ctx, Code, T, fsmod, nanny_so, count):
    cases, lines = [], []
    for _ in range(count):
        stmts, full = disciplined(ctx.rng, Code, T, fsmod, ctx.rng.choice((3, 6, 12, 30, 60)))
        if full and ctx.rng.random() < 0.5:
            ex = "R"
        else:
            ex = "E%d" % ctx.rng.randint(0, len(stmts))
        cases.append((ex, stmts, full))
        lines.append("C35 func - %s %s" % (ex, " ".join(stmts)))
    outs = ctx.drv.batch(lines)
    streams = []
    for (ex, stmts, full), line, mo in zip(cases, lines, outs):
        replay = {"leg": "func", "line": line}
        ctx.count("func:" + ("return" if ex == "R" else "error-exit"))
        if not mo.startswith("ok ") or " => " not in mo:
            ctx.tie_break("func-machine-discipline", "model rejects a sequence built on the real FunctionState: %s -> %s" % (line[:200], mo[:80]), replay)
            continue
        evs, tail = mo[3:].split(" => ")
        rep = tail.split(" # ")[0]
        if rep != "None":
            ctx.tie_break("func-machine-theorem", "disciplined sequence with a report (contradicts error_path_balanced / return_path_balanced): %s -> %s"
                          % (line[:200], rep[:100]), replay)
        streams.append(evs)
    check_streams(ctx, nanny_so, streams, "func-machine")

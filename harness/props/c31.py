"""C31 — match statements behave like CPython.

impl   = generated `match` statements inside functions, compiled by the staged compiler (+ gcc), run on generated subjects
model  = CyVerif.C31 `cy <variant>` (two-phase model of MatchCaseNodes.py + MatchCase.c); `ref` = PEP 634 reference
oracle = CPython 3.12 executing the very same source text (independent); additionally `ref` must equal CPython
"""
import os
import cybuild
import lib

# ----------------------------------------------------------------------------------------------
# support module shared (as pure Python) by the compiled functions and by the CPython oracle
SUP = r'''
import collections.abc
LOG = []
UNB = '<unbound>'
class K:
    c0 = 1; c1 = 1; c2 = 2; c3 = 's0'; c4 = None; c5 = True; c6 = -1; c7 = 0
class E:
    def __init__(self, tag, n): self.tag, self.n = tag, n
    def __eq__(self, o):
        LOG.append('eq%d' % self.tag)
        return isinstance(o, int) and self.n == o
    __hash__ = None
class LMap(collections.abc.Mapping):
    def __init__(self, d): self.d = d
    def __getitem__(self, k): return self.d[k]
    def __iter__(self): return iter(self.d)
    def __len__(self): return len(self.d)
    def get(self, k, default=None):
        LOG.append('get' + canon(k))
        return self.d.get(k, default)
class CSeq(collections.abc.Sequence):
    def __init__(self, xs): self.xs = list(xs)
    def __getitem__(self, i): return self.xs[i]
    def __len__(self): return len(self.xs)
class DSub(dict):
    # dict subclass that does NOT override get; everything the helpers must not call is logged
    def __getitem__(self, k): LOG.append('getitem'); return dict.__getitem__(self, k)
    def __contains__(self, k): LOG.append('contains'); return dict.__contains__(self, k)
    def keys(self): LOG.append('keys'); return dict.keys(self)
    def __len__(self): return dict.__len__(self)
class DGet(dict):
    # dict subclass overriding get: call log, hidden keys and aliased values come from `view`
    def __init__(self, raw, view): dict.__init__(self, raw); self.view = view
    def get(self, k, default=None):
        LOG.append('get' + canon(k))
        return self.view.get(k, default)
def _rev(cls, self): return [cls.__getitem__(self, j) for j in range(cls.__len__(self) - 1, -1, -1)]
class RevList(list):
    # coherent overrides: len / indexing / iteration all present the reversed storage
    def __len__(self): return list.__len__(self)
    def __iter__(self): return iter(_rev(list, self))
    def __getitem__(self, i): return _rev(list, self)[i]
class RevTuple(tuple):
    def __len__(self): return tuple.__len__(self)
    def __iter__(self): return iter(_rev(tuple, self))
    def __getitem__(self, i): return _rev(tuple, self)[i]
class MyStr(str): pass
class MyBytes(bytes): pass
class MyBA(bytearray): pass
class TupSub(tuple): pass
import collections, array
class Base:
    def __init__(self, **kw): self.__dict__.update(kw)
class C0(Base): __match_args__ = ('a0', 'a1')
class C1(C0): __match_args__ = ('a1', 'a0', 'a2')
class C2(Base): pass
class C3(Base): __match_args__ = ['a0']
class C4(Base): __match_args__ = ('a0', 7)
class C5(Base): __match_args__ = ('a0', 'a0')
class C6(Base): __match_args__ = ()
class C7(Base):
    __match_args__ = ('a0', 'a1')
    @property
    def a1(self): raise ValueError('a1')
class C8(Base): __match_args__ = TupSub(('a0', 'a1'))     # tuple subclass: TypeError like any non-tuple
class C9(Base): __match_args__ = ('a0', MyStr('a1'))       # str subclass element: TypeError like any non-str
class C10:
    # attribute access goes through an overriding __getattribute__ (the instance dict holds none of a0..a3)
    __match_args__ = ('a0', 'a1', 'a2')
    def __init__(self, **kw): object.__setattr__(self, '_view', kw)
    def __getattribute__(self, name):
        if len(name) == 2 and name[0] == 'a' and name[1].isdigit():
            v = object.__getattribute__(self, '_view')
            if name in v: return v[name]
            raise AttributeError(name)
        return object.__getattribute__(self, name)
CLASSES = [C0, C1, C2, C3, C4, C5, C6, C7, C8, C9, C10]
def canon(v):
    t = type(v)
    if t is bool: return 'bT' if v else 'bF'
    if t is int: return 'i%d' % v
    if v is None: return 'N'
    if t is str: return v if v[:1] == 's' and v[1:].isdigit() else 'str?' + v
    if t is bytes: return v.decode()
    if t is MyStr: return 'z0:' + str.__str__(v)[1:]
    if t is MyBytes: return 'z1:' + v.decode()[1:]
    if t is bytearray: return 'z2:' + v.decode()[1:]
    if t is MyBA: return 'z3:' + v.decode()[1:]
    if t is DSub: return 'DS{' + ','.join(canon(k) + ':' + canon(x) for k, x in dict.items(v)) + '}'
    if t is DGet: return 'DG{' + ','.join(canon(k) + ':' + canon(x) for k, x in dict.items(v)) + '}'
    if t is RevList: return 'U0[' + ','.join(map(canon, _rev(list, v))) + ']'
    if t is RevTuple: return 'U1[' + ','.join(map(canon, _rev(tuple, v))) + ']'
    if t is collections.deque: return 'U2[' + ','.join(map(canon, v)) + ']'
    if t is array.array: return 'U3[' + ','.join(map(canon, v)) + ']'
    if t is range: return 'U4[' + ','.join(map(canon, v)) + ']'
    if t is C10:
        items = sorted((int(a[1:]), x) for a, x in object.__getattribute__(v, '_view').items())
        return 'O10{' + ''.join('a%d=%s;' % (a, canon(x)) for a, x in items) + '}'
    if t is E: return 'e%d:%d' % (v.tag, v.n)
    if t is list: return 'L[' + ','.join(map(canon, v)) + ']'
    if t is tuple: return 'T[' + ','.join(map(canon, v)) + ']'
    if t is CSeq: return 'Q[' + ','.join(map(canon, v.xs)) + ']'
    if t is dict: return 'D{' + ','.join(canon(k) + ':' + canon(x) for k, x in v.items()) + '}'
    if t is LMap: return 'M{' + ','.join(canon(k) + ':' + canon(x) for k, x in v.d.items()) + '}'
    if t in CLASSES:
        items = sorted((int(a[1:]), x) for a, x in v.__dict__.items())
        if t is C7: items = sorted(items + [(1, None)])
        return 'O%d{' % CLASSES.index(t) + ''.join(
            ('a%d=!;' % a) if (t is C7 and a == 1) else ('a%d=%s;' % (a, canon(x))) for a, x in items) + '}'
    return '?' + t.__name__ + ':' + repr(v)[:40]
def G(i, val):
    LOG.append('g%d' % i)
    return val
def fin(sel, vs):
    env = ','.join('v%d=%s' % (i, canon(x)) for i, x in enumerate(vs) if x is not UNB)
    return 'ok sel=%d env=%s log=%s' % (sel, env, ';'.join(LOG))
def wrapped(f, s):
    del LOG[:]
    try:
        return f(s)
    except Exception as e:
        return 'err %s log=%s' % (type(e).__name__, ';'.join(LOG))
'''
NNAMES = 4
CONSTS = [("i", 1), ("i", 1), ("i", 2), ("s", 0), ("n",), ("b", 1), ("i", -1), ("i", 0)]
# class table of the model: (supers, match_args) ; match_args: None absent, 'nt' non-tuple, list of attr ids / None (non-str)
CLASSTAB = [([], [0, 1]), ([0], [1, 0, 2]), ([], None), ([], "nt"), ([], [0, None]), ([], [0, 0]), ([], []), ([], [0, 1]),
            ([], "nt"), ([], [0, None]), ([], [0, 1, 2])]


def tab_tokens():
    t = [str(len(CLASSTAB))]
    for sup, ma in CLASSTAB:
        t += [str(len(sup))] + [str(x) for x in sup]
        if ma is None:
            t.append("-1")
        elif ma == "nt":
            t.append("-2")
        else:
            t += [str(len(ma))] + [("-1" if a is None else str(a)) for a in ma]
    t.append(str(len(CONSTS)))
    for c in CONSTS:
        t += [str(x) for x in c]
    return t


# ----------------------------------------------------------------------------------------------
# literals / values / patterns as tuples; printers to model tokens and to Python source
def lit_tok(l):
    return [str(x) for x in l]


def lit_src(l):
    if l[0] == "i":
        return str(l[1])
    if l[0] == "b":
        return "True" if l[1] else "False"
    if l[0] == "n":
        return "None"
    return "'s%d'" % l[1]


def lit_pyval(l):
    return {"i": lambda: l[1], "b": lambda: bool(l[1]), "n": lambda: None, "s": lambda: "s%d" % l[1]}[l[0]]()


def val_tok(v):
    k = v[0]
    if k in "ibns":
        return lit_tok(v)
    if k == "y":
        return ["y", str(v[1])]
    if k == "e":
        return ["e", str(v[1]), str(v[2])]
    if k in "LTQ":
        return [k, str(len(v[1]))] + [t for x in v[1] for t in val_tok(x)]
    if k in ("D", "M", "DS"):
        return [k, str(len(v[1]))] + [t for kk, x in v[1] for t in lit_tok(kk) + val_tok(x)]
    if k == "DG":
        return (["DG", str(len(v[1]))] + [t for kk, x in v[1] for t in lit_tok(kk) + val_tok(x)]
                + [str(len(v[2]))] + [t for kk, x in v[2] for t in lit_tok(kk) + val_tok(x)])
    if k == "U":
        return ["U", str(v[1]), str(len(v[2]))] + [t for x in v[2] for t in val_tok(x)]
    if k == "z":
        return ["z", str(v[1]), str(v[2])]
    if k == "O":
        out = ["O", str(v[1]), str(len(v[2]))]
        for a, x in v[2]:
            out += [str(a)] + (["r"] if x is None else ["v"] + val_tok(x))
        return out
    raise ValueError(v)


def val_src(v):
    k = v[0]
    if k in "ibns":
        return lit_src(v)
    if k == "y":
        return "b'y%d'" % v[1]
    if k == "e":
        return "E(%d, %d)" % (v[1], v[2])
    if k == "L":
        return "[" + ", ".join(map(val_src, v[1])) + "]"
    if k == "T":
        return "(" + "".join(val_src(x) + ", " for x in v[1]) + ")"
    if k == "Q":
        return "CSeq([" + ", ".join(map(val_src, v[1])) + "])"
    if k in ("D", "M", "DS"):
        d = "{" + ", ".join(lit_src(kk) + ": " + val_src(x) for kk, x in v[1]) + "}"
        return d if k == "D" else ("LMap(%s)" if k == "M" else "DSub(%s)") % d
    if k == "DG":
        return "DGet(%s, %s)" % tuple("{" + ", ".join(lit_src(kk) + ": " + val_src(x) for kk, x in its) + "}" for its in (v[1], v[2]))
    if k == "U":
        xs = [val_src(x) for x in v[2]]
        if v[1] == 0:
            return "RevList([" + ", ".join(reversed(xs)) + "])"
        if v[1] == 1:
            return "RevTuple([" + ", ".join(reversed(xs)) + "])"
        if v[1] == 2:
            return "collections.deque([" + ", ".join(xs) + "])"
        if v[1] == 3:
            return "array.array('i', [" + ", ".join(xs) + "])"
        return "range(%d, %d)" % ((v[2][0][1], v[2][0][1] + len(v[2])) if v[2] else (0, 0))
    if k == "z":
        return ["MyStr('s%d')", "MyBytes(b'y%d')", "bytearray(b'y%d')", "MyBA(b'y%d')"][v[1]] % v[2]
    if k == "O":
        return "C%d(%s)" % (v[1], ", ".join("a%d=%s" % (a, val_src(x)) for a, x in v[2] if x is not None))
    raise ValueError(v)


def pat_tok(p):
    k = p[0]
    if k == "l":
        return ["l"] + lit_tok(p[1])
    if k == "k":
        return ["k", str(p[1])]
    if k == "c":
        return ["c", str(p[1])]
    if k == "w":
        return ["w"]
    if k == "S":
        _, ps, star, qs = p
        st = "-1" if star is None else ("-2" if star == "_" else str(star))
        return ["S", str(len(ps))] + [t for x in ps for t in pat_tok(x)] + [st, str(len(qs))] + [t for x in qs for t in pat_tok(x)]
    if k == "M":
        out = ["M", str(len(p[1]))]
        for key, x in p[1]:
            out += (["l"] + lit_tok(key[1]) if key[0] == "l" else ["k", str(key[1])]) + pat_tok(x)
        return out + ["-1" if p[2] is None else str(p[2])]
    if k == "C":
        _, c, pos, kw = p
        out = ["C"] + (["u", str(c[1])] if isinstance(c, (tuple, list)) else [c])
        out += [str(len(pos))] + [t for x in pos for t in pat_tok(x)] + [str(len(kw))]
        for a, x in kw:
            out += [str(a)] + pat_tok(x)
        return out
    if k == "O":
        return ["O", str(len(p[1]))] + [t for x in p[1] for t in pat_tok(x)]
    if k == "A":
        return ["A"] + pat_tok(p[1]) + [str(p[2])]
    raise ValueError(p)


def pat_src(p):
    k = p[0]
    if k == "l":
        return lit_src(p[1])
    if k == "k":
        return "K.c%d" % p[1]
    if k == "c":
        return "v%d" % p[1]
    if k == "w":
        return "_"
    if k == "S":
        _, ps, star, qs = p
        items = [pat_src(x) for x in ps]
        if star is not None:
            items.append("*_" if star == "_" else "*v%d" % star)
        items += [pat_src(x) for x in qs]
        return "[" + ", ".join(items) + "]"
    if k == "M":
        items = [(lit_src(key[1]) if key[0] == "l" else "K.c%d" % key[1]) + ": " + pat_src(x) for key, x in p[1]]
        if p[2] is not None:
            items.append("**v%d" % p[2])
        return "{" + ", ".join(items) + "}"
    if k == "C":
        _, c, pos, kw = p
        name = "C%d" % c[1] if isinstance(c, (tuple, list)) else ("K.c0" if c == "nontype" else c)
        return name + "(" + ", ".join([pat_src(x) for x in pos] + ["a%d=%s" % (a, pat_src(x)) for a, x in kw]) + ")"
    if k == "O":
        return "(" + " | ".join(pat_src(x) for x in p[1]) + ")"
    if k == "A":
        return "(" + pat_src(p[1]) + " as v%d)" % p[2]
    raise ValueError(p)


def irrefutable(p):
    k = p[0]
    return k in "cw" or (k == "A" and irrefutable(p[1])) or (k == "O" and any(irrefutable(a) for a in p[1]))


def has_irref_or_inside(p, top=True):
    """an irrefutable or-pattern below a sequence/mapping/class pattern (sub-pattern test skipped by the current source)"""
    k = p[0]
    if k == "O":
        if not top and irrefutable(p):
            return True
        return any(has_irref_or_inside(a, top) for a in p[1])
    if k == "A":
        return has_irref_or_inside(p[1], top)
    if k == "S":
        return any(has_irref_or_inside(x, False) for x in p[1] + p[3])
    if k == "M":
        return any(has_irref_or_inside(x, False) for _, x in p[1])
    if k == "C":
        return any(has_irref_or_inside(x, False) for x in p[2]) or any(has_irref_or_inside(x, False) for _, x in p[3])
    return False


def simple_or(p):
    """or-pattern of value patterns / wildcards without any target (`is_really_simple_value_comparison`), possibly under `as`"""
    while p[0] == "A":
        p = p[1]
    return p[0] == "O" and all(a[0] in "lkw" or simple_or(a) for a in p[1])


LITS = [("i", 0), ("i", 1), ("i", 2), ("i", -1), ("i", 3), ("s", 0), ("s", 1), ("n",), ("b", 1), ("b", 0)]


def py_eq(a, b):
    return lit_pyval(a) == lit_pyval(b) and (a[0] in "ib") == (b[0] in "ib")


class Gen:
    def __init__(self, rng, allow_irref_or, avoid_mapwild_as=False, avoid_simple_or=False):
        self.avoid_simple_or = avoid_simple_or
        self.rng = rng
        self.allow_irref_or = allow_irref_or
        self.avoid_mapwild_as = avoid_mapwild_as

    def sub(self, depth, names):
        p = self.pat(depth, names)
        if self.avoid_simple_or and simple_or(p):
            return ("S", [p], None, [])
        return p

    def mapval(self, depth, names):
        p = self.sub(depth, names)
        if self.avoid_mapwild_as:
            q = p
            while q[0] == "A":
                q = q[1]
            if q[0] == "w" and p[0] == "A":
                return ("S", [p], None, [])
        return p

    def split(self, names, n):
        parts = [[] for _ in range(n)]
        for x in names:
            parts[self.rng.randrange(n)].append(x)
        return parts

    def leaf(self, names):
        r = self.rng
        if not names:
            c = r.random()
            if c < 0.55:
                return ("l", r.choice(LITS))
            if c < 0.75:
                return ("k", r.randrange(len(CONSTS)))
            return ("w",)
        p = ("c", names[0]) if r.random() < 0.6 else ("A", self.leaf([]), names[0])
        for n in names[1:]:
            p = ("A", p, n)
        return p

    def pat(self, depth, names):
        r = self.rng
        if depth <= 0 or r.random() < 0.22:
            return self.leaf(names)
        c = r.random()
        if c < 0.34:
            n = r.randrange(0, 4)
            hasstar = r.random() < 0.5
            star = None
            nm = list(names)
            if hasstar:
                if nm and r.random() < 0.6:
                    star = nm.pop(r.randrange(len(nm)))
                else:
                    star = "_"
            if nm and n == 0:
                n = 1
            parts = self.split(nm, n) if n else []
            subs = [self.pat(depth - 1, part) for part in parts]
            cut = r.randrange(0, n + 1) if hasstar else n
            return ("S", subs[:cut], star, subs[cut:])
        if c < 0.58:
            n = r.randrange(0, 4)
            nm = list(names)
            rest = None
            if nm and r.random() < 0.4:
                rest = nm.pop(r.randrange(len(nm)))
            elif not nm and r.random() < 0.15:
                rest = None
            if nm and n == 0:
                n = 1
            mode = r.random()
            keys = []
            for _ in range(n):
                for _try in range(20):
                    if mode < 0.6 or (mode < 0.8 and r.random() < 0.5):
                        key = ("l", r.choice(LITS))
                    else:
                        key = ("k", r.randrange(len(CONSTS)))
                    # literal keys must be pairwise distinct (compile-time error otherwise)
                    if key[0] == "l" and any(k2[0] == "l" and py_eq(k2[1], key[1]) for k2 in keys):
                        continue
                    if key[0] == "k" and r.random() < 0.85 and any(
                            py_eq(CONSTS[key[1]], (k2[1] if k2[0] == "l" else CONSTS[k2[1]])) for k2 in keys):
                        continue
                    keys.append(key)
                    break
            parts = self.split(nm, len(keys)) if keys else []
            if not keys and nm:
                return self.leaf(names)
            return ("M", [(k, self.mapval(depth - 1, part)) for k, part in zip(keys, parts)], rest)
        if c < 0.82:
            nm = list(names)
            if r.random() < 0.2 and len(nm) <= 1:
                cls = r.choice(["int", "bool", "str", "list", "tuple", "dict"])
                npos = 1 if nm else r.choice([0, 1, 1, 2])
                return ("C", cls, [self.sub(depth - 1, nm if i == 0 else []) for i in range(npos)], [])
            if r.random() < 0.03 and not nm:
                return ("C", "nontype", [("w",)], [])
            u = r.randrange(len(CLASSTAB))
            npos = r.choice([0, 0, 1, 1, 2, 2, 3])
            nkw = r.choice([0, 0, 1, 1, 2])
            if nm and npos + nkw == 0:
                npos = 1
            attrs = r.sample(range(4), nkw)
            parts = self.split(nm, npos + nkw) if npos + nkw else []
            subs = [self.sub(depth - 1, part) for part in parts]
            return ("C", ("u", u), subs[:npos], list(zip(attrs, subs[npos:])))
        if c < 0.95:
            n = r.randrange(2, 4)
            alts = []
            for i in range(n):
                a = self.pat(depth - 1, names)
                if irrefutable(a):
                    if i < n - 1 or not self.allow_irref_or or r.random() < 0.7:
                        a = ("l", r.choice(LITS)) if not names else ("A", ("l", r.choice(LITS)), names[0]) if len(names) == 1 else None
                        if a is None:
                            a = ("S", [self.leaf([x]) for x in names], None, [])
                alts.append(a)
            return ("O", alts)
        p = self.pat(depth - 1, names[:-1]) if names else self.pat(depth - 1, [])
        return ("A", p, names[-1]) if names else p


# ----------------------------------------------------------------------------------------------
# subjects: instantiate a pattern (a value likely to match), then perturb
class VGen:
    def __init__(self, rng):
        self.rng = rng
        self.tag = 0

    def mkseq(self, xs):
        """dynamic class of a sequence subject: exact list/tuple, Sequence-ABC, list/tuple subclass with coherent overrides, deque, array, range"""
        r = self.rng
        c = r.random()
        if c < 0.5:
            return (r.choice("LLTTQ"), xs)
        if c >= 0.82 and xs and all(x[0] == "i" and abs(x[1]) < 2 ** 31 for x in xs):
            if c >= 0.91 and all(b[1] == a[1] + 1 for a, b in zip(xs, xs[1:])):
                return ("U", 4, xs)
            return ("U", 3, xs)
        return ("U", r.choice([0, 1, 2]), xs)

    def mkmap(self, its):
        """dynamic class of a mapping subject: exact dict, Mapping-ABC (logging get), dict subclass without get override (other
        methods overridden + logged), dict subclass overriding get (log, hidden keys, values differing from the hash table)"""
        r = self.rng
        c = r.random()
        if c < 0.35:
            return ("D", its)
        if c < 0.5:
            return ("M", its)
        if c < 0.65:
            return ("DS", its)
        raw = [(k, x if r.random() < 0.55 else self.atom()) for k, x in its]
        view = [(k, x) for k, x in its if r.random() > 0.15]
        return ("DG", raw, view)

    def atom(self):
        r = self.rng
        c = r.random()
        if c < 0.45:
            return r.choice(LITS)
        if c < 0.5:
            return ("z", r.randrange(4), r.randrange(2))
        if c < 0.6:
            return ("y", r.randrange(2))
        if c < 0.8:
            self.tag += 1
            return ("e", self.tag % 50, r.choice([0, 1, 2, -1, 3]))
        return ("i", r.randrange(-2, 5))

    def rand(self, depth):
        r = self.rng
        if depth <= 0 or r.random() < 0.4:
            return self.atom()
        c = r.random()
        if c < 0.4:
            if r.random() < 0.1:
                a = r.randrange(-2, 3)
                return ("U", 4, [("i", a + j) for j in range(r.randrange(0, 5))])
            return self.mkseq([self.rand(depth - 1) for _ in range(r.randrange(0, 5))])
        if c < 0.7:
            return self.mkmap(self.items([r.choice(LITS) for _ in range(r.randrange(0, 4))], depth))
        return self.obj(r.randrange(len(CLASSTAB)), {a: self.rand(depth - 1) for a in r.sample(range(4), r.randrange(0, 4))})

    def items(self, keys, depth, vals=None):
        out = []
        for i, k in enumerate(keys):
            if any(py_eq(k, k2) for k2, _ in out):
                continue
            out.append((k, vals[i] if vals else self.rand(depth - 1)))
        return out

    def obj(self, c, attrs):
        if c == 7:
            attrs = dict(attrs)
            attrs[1] = None          # property that raises
        return ("O", c, sorted(attrs.items()))

    def leafval(self, l):
        r = self.rng
        c = r.random()
        if l[0] in "ib" and c < 0.25:
            self.tag += 1
            return ("e", self.tag % 50, int(l[1]))
        if l[0] == "i" and l[1] in (0, 1) and c < 0.4:
            return ("b", l[1])
        if l[0] == "b" and c < 0.4:
            return ("i", l[1])
        if c < 0.85:
            return l
        return self.atom()

    def inst(self, p, depth=3):
        r = self.rng
        k = p[0]
        if r.random() < 0.07:
            return self.rand(1)
        if k == "l":
            return self.leafval(p[1])
        if k == "k":
            return self.leafval(CONSTS[p[1]])
        if k in "cw":
            return self.rand(1)
        if k == "A":
            return self.inst(p[1], depth)
        if k == "O":
            return self.inst(r.choice(p[1]), depth)
        if k == "S":
            _, ps, star, qs = p
            mid = [self.rand(0) for _ in range(r.randrange(0, 3))] if star is not None else []
            xs = [self.inst(x, depth - 1) for x in ps] + mid + [self.inst(x, depth - 1) for x in qs]
            c = r.random()
            if c < 0.12 and xs:
                xs.pop(r.randrange(len(xs)))
            elif c < 0.2:
                xs.insert(r.randrange(len(xs) + 1), self.atom())
            if r.random() < 0.05:
                return ("z", r.randrange(4), r.randrange(2))       # str / bytes / bytearray (sub)classes must not match
            return self.mkseq(xs)
        if k == "M":
            keys = [(key[1] if key[0] == "l" else CONSTS[key[1]]) for key, _ in p[1]]
            vals = [self.inst(x, depth - 1) for _, x in p[1]]
            c = r.random()
            if c < 0.15 and keys:
                i = r.randrange(len(keys))
                keys.pop(i)
                vals.pop(i)
            extra = [kk for kk in r.sample(LITS, r.randrange(0, 3))]
            its = self.items(keys + extra, 1, vals + [self.rand(0) for _ in extra])
            if r.random() < 0.3:
                r.shuffle(its)
            return self.mkmap(its)
        if k == "C":
            _, c, pos, kw = p
            if not isinstance(c, (tuple, list)):
                if c == "nontype":
                    return self.rand(1)
                if pos:
                    v = self.inst(pos[0], depth - 1)
                    want = {"int": "ib", "bool": "b", "str": "s", "list": "L", "tuple": "T", "dict": ("D", "DS", "DG")}[c]
                    if v[0] in want or (c == "str" and v[:2] == ("z", 0)) or (v[0] == "U" and v[1] == {"list": 0, "tuple": 1}.get(c)):
                        return v
                return {"int": ("i", 1), "bool": ("b", 1), "str": ("s", 0), "list": ("L", []), "tuple": ("T", []),
                        "dict": ("D", [])}[c] if r.random() < 0.8 else self.rand(1)
            u = c[1]
            ma = CLASSTAB[u][1]
            attrs = {}
            for a, x in kw:
                attrs[a] = self.inst(x, depth - 1)
            if isinstance(ma, list):
                for i, x in enumerate(pos):
                    if i < len(ma) and ma[i] is not None and ma[i] not in attrs:
                        attrs[ma[i]] = self.inst(x, depth - 1)
            if r.random() < 0.15 and attrs:
                attrs.pop(r.choice(sorted(attrs)))
            if r.random() < 0.3:
                attrs.setdefault(r.randrange(4), self.rand(0))
            cls = u
            if u == 0 and r.random() < 0.3:
                cls = 1          # subclass instance
            if r.random() < 0.08:
                cls = r.randrange(len(CLASSTAB))
            return self.obj(cls, attrs)
        raise ValueError(p)


# ----------------------------------------------------------------------------------------------
def gen_stmt(rng, allow_irref_or, avoid_mapwild_as=False, avoid_simple_or=False):
    g = Gen(rng, allow_irref_or, avoid_mapwild_as, avoid_simple_or)
    ncases = rng.randrange(1, 5)
    cases = []
    for i in range(ncases):
        names = sorted(rng.sample(range(NNAMES), rng.choice([0, 0, 1, 1, 2, 3])))
        p = g.pat(rng.choice([0, 1, 2, 2, 3]), names)
        guard = rng.choice([None, None, None, 1, 0, 0])
        if irrefutable(p) and guard is None and i < ncases - 1:
            guard = rng.choice([0, 0, 1])
        cases.append((p, guard))
    return cases


def stmt_tokens(cases):
    t = [str(len(cases))]
    for p, g in cases:
        t += pat_tok(p) + ["-1" if g is None else str(g)]
    return t


def func_src(j, cases):
    names = ["v%d" % i for i in range(NNAMES)]
    out = ["def f%d(s):" % j, "    %s = UNB" % " = ".join(names), "    sel = -1", "    match s:"]
    for i, (p, g) in enumerate(cases):
        guard = "" if g is None else " if G(%d, %s)" % (i, "True" if g else "False")
        out.append("        case %s%s:" % (pat_src(p), guard))
        out.append("            sel = %d" % i)
    out.append("    return fin(sel, (%s,))" % ", ".join(names))
    out.append("def r%d(s):\n    return wrapped(f%d, s)" % (j, j))
    return "\n".join(out)


MOD_HEAD = "from c31sup import *\nimport c31sup\ndef _verif_env():\n    return dict(vars(c31sup))\n"


def module_src(stmts):
    return MOD_HEAD + "\n".join(func_src(j, c) for j, c in enumerate(stmts)) + "\n"


def cpython_accepts(src):
    try:
        compile(src, "<c31>", "exec")
        return True
    except SyntaxError:
        return False


# witnesses of the deviations of the current source (replayed on the real code on every run)
W_TRUE = ("b", 1)
WITNESSES = [
    # key, variant bit index (or None), statement, subject
    ("as-target-binds-pattern-value", 0, [(("A", ("l", ("i", 1)), 0), None)], W_TRUE),
    ("class-keyword-subpatterns-tested-before-positional", 1,
     [(("C", ("u", 0), [("l", ("i", 1))], [(1, ("l", ("i", 2)))]), None)], ("O", 0, [(0, ("e", 1, 1)), (1, ("e", 2, 2))])),
    ("class-positional-attr-non-attributeerror-null-deref", 2, [(("C", ("u", 7), [("w",), ("c", 0)], []), None)],
     ("O", 7, [(0, ("i", 1)), (1, None)])),
    ("irrefutable-or-subpattern-captures-not-bound", 3,
     [(("S", [("O", [("A", ("l", ("i", 1)), 0), ("c", 0)])], None, []), None)], ("L", [("i", 2)])),
    ("irrefutable-or-subpattern-test-skipped", 3, [(("S", [("O", [("l", ("i", 1)), ("w",)])], None, []), None)], ("L", [("e", 3, 1)])),
    ("class-duplicate-attr-check-before-attribute-lookup", None, [(("C", ("u", 5), [("w",), ("w",)], []), None)], ("O", 5, [])),
    ("mapping-duplicate-key-check-before-mapping-test", None,
     [(("M", [(("k", 0), ("w",)), (("k", 1), ("w",))], None), None)], ("i", 3)),
    ("mapping-literal-keys-looked-up-first", None,
     [(("M", [(("k", 2), ("w",)), (("l", ("i", 3)), ("w",))], None), None)], ("M", [(("i", 2), ("i", 0)), (("i", 3), ("i", 0))])),
]


# ----------------------------------------------------------------------------------------------
def norm_impl(o):
    """runner line -> outcome string comparable with the model"""
    if o.startswith("ok str:"):
        return eval(o[len("ok str:"):])
    if o.startswith("crash") or o == "timeout":
        return "err crash log="
    return "?" + o


def same(a, b):
    if a.startswith("err crash") and b.startswith("err crash"):
        return True
    return a == b


def features(cases):
    f = set()

    def walk(p, top):
        k = p[0]
        f.add({"l": "lit", "k": "value", "c": "capture", "w": "wild", "S": "seq", "M": "map", "C": "class", "O": "or", "A": "as"}[k])
        if k == "S":
            if p[2] is not None:
                f.add("star-mid" if p[1] and p[3] else ("star-last" if p[1] else ("star-first" if p[3] else "star-only")))
            for x in p[1] + p[3]:
                walk(x, False)
        elif k == "M":
            ks = [key[0] for key, _ in p[1]]
            if "l" in ks and "k" in ks:
                f.add("map-mixed-keys")
            if "k" in ks:
                f.add("map-value-keys")
            if p[2] is not None:
                f.add("map-rest")
            for _, x in p[1]:
                walk(x, False)
        elif k == "C":
            f.add("class-builtin" if not isinstance(p[1], (tuple, list)) else "class-user")
            if p[2] and p[3]:
                f.add("class-pos+kw")
            for x in p[2]:
                walk(x, False)
            for _, x in p[3]:
                walk(x, False)
        elif k == "O":
            for x in p[1]:
                walk(x, top)
        elif k == "A":
            if p[1][0] in "lk":
                f.add("as-on-value")
            walk(p[1], top)
    for p, g in cases:
        walk(p, True)
        if g is not None:
            f.add("guard")
    return f


def classify(ctx, cases, subject, impl, oracle, mcy, variant, tab):
    """stable key of a deviation impl != oracle"""
    if not same(mcy, impl):
        return "match-statement-deviation"
    body = tab + stmt_tokens(cases) + val_tok(subject)
    flips = []
    for i in range(4):
        if variant[i] == "0":
            v2 = variant[:i] + "1" + variant[i + 1:]
            flips.append((i, v2))
    if flips:
        outs = ctx.drv.batch(["C31 cy %s %s" % (v2, " ".join(body)) for _, v2 in flips])
        for (i, _), o in zip(flips, outs):
            if same(o, oracle):
                return [w[0] for w in WITNESSES if w[1] == i][0]
    f = features(cases)
    if impl.startswith("err TypeError") and not oracle.startswith("err TypeError") and "class-user" in f:
        return "class-duplicate-attr-check-before-attribute-lookup"
    if impl.startswith("err ValueError") and not oracle.startswith("err ValueError") and "map-value-keys" in f:
        return "mapping-duplicate-key-check-before-mapping-test"
    if "map-mixed-keys" in f:
        return "mapping-literal-keys-looked-up-first"
    if len(flips) > 1:
        # several modelled deviations at once: the model with every repair applied must give CPython's outcome
        allfix = ctx.drv.batch(["C31 cy 1111 " + " ".join(body)])[0]
        if same(allfix, oracle):
            return "match-combined-known-deviations"
    return "match-statement-deviation"


def run_batch(ctx, supdir, stmts_by_mod, subjects_by_mod, variant, tab, label):
    """build the modules, run impl + oracle + both models, compare three-way"""
    env_extra = {"PYTHONPATH": ctx.stage + os.pathsep + supdir}
    specs = []
    for mi, stmts in enumerate(stmts_by_mod):
        specs.append({"name": "c31_%s_%d" % (label, mi), "source": module_src(stmts), "ext": ".py"})
    sos = cybuild.build_many(ctx, specs)
    odir = os.path.join(ctx.scratch, "c31orc")
    os.makedirs(odir, exist_ok=True)
    for mi, (spec, so) in enumerate(zip(specs, sos)):
        stmts = stmts_by_mod[mi]
        subs = subjects_by_mod[mi]
        if isinstance(so, cybuild.BuildError):
            ok_py = cpython_accepts(spec["source"])
            rep = {"module": spec["source"][:3000], "log": so.log[-800:]}
            if ok_py:
                ctx.violation("compile-rejects-valid-match", "staged compiler rejects a module CPython accepts: " + so.log[-300:], rep)
            else:
                ctx.tie_break("generator", "generated module is not valid Python", rep)
            continue
        opath = os.path.join(odir, spec["name"] + ".py")
        with open(opath, "w") as fh:
            fh.write(spec["source"])
        cases = [("r%d" % j, "(%s,)" % val_src(s)) for j, ss in enumerate(subs) for s in ss]
        flat = [(j, s) for j, ss in enumerate(subs) for s in ss]
        impl = [norm_impl(o) for o in cybuild.run_cases(ctx, so, cases, env_extra=env_extra)]
        orc = [norm_impl(o) for o in cybuild.run_cases(ctx, opath, cases, env_extra=env_extra, modname=spec["name"] + "_py")]
        lines = []
        for j, s in flat:
            body = " ".join(tab + stmt_tokens(stmts[j]) + val_tok(s))
            lines.append("C31 cy %s %s" % (variant, body))
            lines.append("C31 ref " + body)
        mo = ctx.drv.batch(lines)
        for idx, (j, s) in enumerate(flat):
            mcy, mref = mo[2 * idx], mo[2 * idx + 1]
            im, oc = impl[idx], orc[idx]
            f = features(stmts[j])
            kind = "err" if oc.startswith("err") else ("nomatch" if "sel=-1" in oc else "match")
            ctx.count(kind)
            for x in sorted(f):
                ctx.dist[x] = ctx.dist.get(x, 0) + 1
            sk = "subject-" + s[0] + (str(s[1]) if s[0] in ("U", "z") else "")
            ctx.dist[sk] = ctx.dist.get(sk, 0) + 1
            ctx.seen((tuple(stmt_tokens(stmts[j])), tuple(val_tok(s))), nontrivial=(kind != "nomatch" or "log=g" in oc or "log=e" in oc))
            rep = {"stmt": stmts[j], "subject": s, "source": func_src(0, stmts[j])[:1500], "subject_src": val_src(s)[:300],
                   "impl": im[:300], "oracle": oc[:300], "model_cy": mcy[:300], "model_ref": mref[:300], "variant": variant}
            if not same(im, oc):
                key = classify(ctx, stmts[j], s, im, oc, mcy, variant, tab)
                ctx.violation(key, "subject %s: compiled %s, CPython %s; statement: %s" % (
                    val_src(s)[:80], im[:90], oc[:90], "; ".join("case " + pat_src(p) for p, _ in stmts[j])[:120]), rep)
            if not same(mcy, im):
                ctx.tie_break("D-c cy-model", "model %s impl %s for %s" % (mcy[:120], im[:120], val_src(s)[:80]), rep)
            if not same(mref, oc):
                ctx.tie_break("D-c ref-model vs CPython", "ref %s CPython %s for %s" % (mref[:120], oc[:120], val_src(s)[:80]), rep)
            if len(ctx.samples) < 6 and kind == "match" and idx % 37 == 0:
                ctx.sample({"source": func_src(0, stmts[j])[:400], "subject": val_src(s)[:120], "impl": im[:160], "model": mcy[:160]})


INVALID = [
    # statements both compilers must reject at compile time ("invalid uses": static errors)
    "[*v0, *v1]", "[v0, v0]", "(v0 | 1)", "(1 | v0)", "{1: _, 1: _}", "{1: _, True: _}", "C0(a0=1, a0=2)", "{**_}",
    "(_ | 1)", "(v0 | v0 | 1)", "{**v0, 1: _}", "[v0, {1: v0}]", "(v0 as v0)", "C0(a0=1, 2)",
]


def static_specs(ctx):
    specs = []
    pats = INVALID if not ctx.quick else [INVALID[i] for i in sorted(ctx.rng.sample(range(len(INVALID)), 7))]
    for i, ps in enumerate(pats + ["[v0, *v1]", "{1: v0, **v1}"]):
        src = MOD_HEAD + "def f0(s):\n    match s:\n        case %s:\n            return 1\n    return 0\n" % ps
        specs.append({"name": "c31_inv_%d" % i, "source": src, "ext": ".py"})
    return specs


def static_leg(ctx, specs, res):
    """compile-time rejections: CPython's SyntaxError <-> staged compiler error, one module per statement"""
    expect = [cpython_accepts(sp["source"]) for sp in specs]
    for spec, ok_py, so in zip(specs, expect, res):
        ok_cy = not isinstance(so, cybuild.BuildError)
        if isinstance(so, cybuild.BuildError) and so.stage != "cython":
            ok_cy = True
            ctx.tie_break("static", "C compiler failed: " + so.log[-200:], {"module": spec["source"]})
        ctx.count("static-" + ("valid" if ok_py else "invalid"))
        if ok_cy != ok_py:
            ctx.violation("static-acceptance-" + ("rejects-valid" if ok_py else "accepts-invalid"),
                          "CPython %s, staged compiler %s: %s" % ("accepts" if ok_py else "rejects", "accepts" if ok_cy else "rejects",
                                                                  spec["source"].split("case ")[1][:60]), {"module": spec["source"]})


def run(ctx):
    ctx.rule = ("match statements generated from a pattern AST (1-4 cases, nesting <= 3: literal / value / capture / wildcard / sequence with a star at any "
                "position / mapping with literal and dotted-name keys and **rest / class with positional + keyword sub-patterns on 8 classes (subclass, no "
                "__match_args__, non-tuple, non-str element, duplicate, empty, raising property) and builtin self-matching types / or / as; opaque logging "
                "guards) x subjects instantiated from the patterns and perturbed (list/tuple/Sequence-ABC instance, dict/logging Mapping-ABC instance, "
                "str/bytes, bool-vs-int, objects whose __eq__ logs, missing attributes, wrong lengths, missing keys); every case is run compiled, under "
                "CPython and through both Lean models; non-trivial = a case is selected, or a guard / __eq__ / .get side effect is logged")
    ctx.explanation = ("cy_agrees_ref_partial covers selection, bindings, side-effect log and exceptions of the modelled constructs; NOT covered by a theorem: that the "
                       "model is the generated C (tie only), sequence_mapping_temp caching (pre-3.10 / Limited API / PyPy branches of IsSequence/IsMapping), typed "
                       "(cdef) subjects and memoryview slices (StaticTypeCheckNode shortcuts, MatchCase_Cy.pyx), refcounting / temp release, float/complex/bytes "
                       "literals, str subclasses, ill-behaved Sequence/Mapping classes (len/iter/getitem disagreeing), exception messages")
    ctx.assumptions = ["subjects are immutable during the match; custom Sequence/Mapping classes are coherent (len, iteration, indexing, get agree)",
                       "CPython >= 3.10 configuration of MatchCase.c (Py_TPFLAGS_SEQUENCE / Py_TPFLAGS_MAPPING available)"]
    ctx.extra_trusted = ["CPython 3.12 executing the same source text is the oracle; `ref` (Lean) is tied to it on every case"]
    supdir = os.path.join(ctx.scratch, "c31sup")
    os.makedirs(supdir, exist_ok=True)
    with open(os.path.join(supdir, "c31sup.py"), "w") as fh:
        fh.write(SUP)
    tab = tab_tokens()
    env_extra = {"PYTHONPATH": ctx.stage + os.pathsep + supdir}

    # --- replay of a recorded case
    rc = getattr(ctx, "replay_case", None)
    if rc and isinstance(rc.get("case"), dict) and "stmt" in rc["case"]:
        c = rc["case"]
        run_batch(ctx, supdir, [[c["stmt"]]], [[[c["subject"]]]], c.get("variant", "0000"), tab, "replay")
        return

    # --- probe: which variant is the current source?  (witnesses of the known deviations)
    wst = [w[2] for w in WITNESSES]
    mw_src = MOD_HEAD + "def f0(s):\n    v0 = UNB\n    match s:\n        case {1: (_ as v0)}:\n            return fin(0, (v0,))\n    return fin(-1, (v0,))\ndef r0(s):\n    return wrapped(f0, s)\n"
    so_st = [[(("C", ("u", 0), [("l", ("i", 2)), ("O", [("l", ("i", 2)), ("l", ("i", 1))])], []), None)],
             [(("M", [(("l", ("i", 1)), ("l", ("i", 2))), (("l", ("i", 2)), ("O", [("l", ("i", 2)), ("l", ("i", 1))]))], None), None)]]
    sspecs = static_specs(ctx)
    pre = cybuild.build_many(ctx, [{"name": "c31_probe", "source": module_src(wst), "ext": ".py"},
                                   {"name": "c31_mapwild", "source": mw_src, "ext": ".py"},
                                   {"name": "c31_simpleor", "source": module_src(so_st), "ext": ".py"}] + sspecs)
    so = pre[0]
    if isinstance(so, cybuild.BuildError):
        ctx.tie_break("D-c build", so.stage + ": " + so.log[-600:], {"module": module_src(wst)[:3000]})
        return
    opath = os.path.join(ctx.scratch, "c31_probe_orc.py")
    with open(opath, "w") as fh:
        fh.write(module_src(wst))
    wcases = [("r%d" % j, "(%s,)" % val_src(w[3])) for j, w in enumerate(WITNESSES)]
    wimpl = [norm_impl(o) for o in cybuild.run_cases(ctx, so, wcases, env_extra=env_extra)]
    worc = [norm_impl(o) for o in cybuild.run_cases(ctx, opath, wcases, env_extra=env_extra, modname="c31_probe_py")]
    bits = ["1"] * 4
    for (key, bit, st, sub), im, oc in zip(WITNESSES, wimpl, worc):
        if bit is not None and not same(im, oc):
            bits[bit] = "0"
    variant = "".join(bits)
    ctx.notes["variant"] = {"bits(asSubject,posFirst,attrErr,orTested)": variant}
    wref = ctx.drv.batch(["C31 ref " + " ".join(tab + stmt_tokens(w[2]) + val_tok(w[3])) for w in WITNESSES])
    wcy = ctx.drv.batch(["C31 cy %s %s" % (variant, " ".join(tab + stmt_tokens(w[2]) + val_tok(w[3]))) for w in WITNESSES])
    gone = []
    for (key, bit, st, sub), im, oc, mr, mc in zip(WITNESSES, wimpl, worc, wref, wcy):
        ctx.count("witness")
        rep = {"stmt": st, "subject": sub, "source": func_src(0, st), "subject_src": val_src(sub), "impl": im, "oracle": oc, "variant": variant}
        if not same(mr, oc):
            ctx.tie_break("D-c ref-model vs CPython (witness)", "%s: ref %s CPython %s" % (key, mr[:120], oc[:120]), rep)
        if not same(im, oc):
            ctx.violation(key, "subject %s: compiled %s, CPython %s; statement: case %s" % (val_src(sub)[:80], im[:100], oc[:100], pat_src(st[0][0])[:80]), rep)
            if key != "irrefutable-or-subpattern-captures-not-bound" and not same(mc, im):
                ctx.tie_break("D-c cy-model (witness)", "%s: model %s impl %s" % (key, mc[:120], im[:120]), rep)
        else:
            gone.append(key)
    if gone:
        ctx.notes["witness no longer reproduces"] = gone

    import time as _t
    t_probe = _t.time()
    # compile-time crash of the current source: `{k: (_ as v)}`
    avoid_mw = False
    try:
        mso = pre[1]
        if isinstance(mso, cybuild.BuildError):
            raise mso
        got = norm_impl(cybuild.run_cases(ctx, mso, [("r0", "({1: 5},)")], env_extra=env_extra)[0])
        ctx.count("witness")
        if got != "ok sel=0 env=v0=i5 log=":
            ctx.violation("mapping-wildcard-as-target", "case {1: (_ as v0)} on {1: 5}: compiled %s, CPython binds v0=5" % got[:100], {"module": mw_src})
    except cybuild.BuildError as e:
        avoid_mw = True
        ctx.count("witness")
        ctx.violation("mapping-wildcard-as-target-compiler-crash", "staged compiler crashes on the valid statement `case {1: (_ as v0)}` (%s): %s" % (
            e.stage, e.log.strip().splitlines()[-1][:160] if e.log.strip() else ""), {"module": mw_src})
    ctx.notes["avoid {k: (_ as v)} in generation"] = avoid_mw
    # untyped `or` of value patterns below a class / mapping pattern: C int cast to PyObject*
    avoid_so = False
    try:
        sso = pre[2]
        if isinstance(sso, cybuild.BuildError):
            raise sso
        sopath = os.path.join(ctx.scratch, "c31_simpleor_orc.py")
        with open(sopath, "w") as fh:
            fh.write(module_src(so_st))
        socases = [("r0", "([1, -1, 3],)"), ("r1", "(3,)"), ("r0", "(C0(a0=2, a1=1),)"), ("r1", "({1: 2, 2: 1},)")]
        soi = [norm_impl(o) for o in cybuild.run_cases(ctx, sso, socases, env_extra=env_extra)]
        soo = [norm_impl(o) for o in cybuild.run_cases(ctx, sopath, socases, env_extra=env_extra, modname="c31_simpleor_py")]
        for (fn, arg), im, oc in zip(socases, soi, soo):
            ctx.count("witness")
            if not same(im, oc):
                avoid_so = True
                ctx.violation("value-or-subpattern-of-class-or-mapping-null-deref", "%s %s: compiled %s, CPython %s; statement: case %s" % (
                    fn, arg, im[:60], oc[:60], pat_src(so_st[int(fn[1])][0][0])), {"stmt": so_st[int(fn[1])], "subject_src": arg, "module": module_src(so_st)})
    except cybuild.BuildError as e:
        ctx.tie_break("D-c build", e.stage + ": " + e.log[-600:], {"module": module_src(so_st)[:3000]})
    ctx.notes["avoid target-free value or-patterns below class/mapping patterns in generation"] = avoid_so
    static_leg(ctx, sspecs, pre[3:])
    t_static = _t.time()

    # --- random statements x subjects
    rng = ctx.rng
    nmods = ctx.n(6, 36)
    per = ctx.n(16, 28)
    nsub = ctx.n(8, 16)
    vg = VGen(rng)
    stmts_by_mod, subs_by_mod = [], []
    for mi in range(nmods):
        stmts, subs = [], []
        while len(stmts) < per:
            st = gen_stmt(rng, allow_irref_or=(variant[3] == "1"), avoid_mapwild_as=avoid_mw, avoid_simple_or=avoid_so)
            if variant[3] == "0" and any(has_irref_or_inside(p) for p, _ in st):
                continue
            stmts.append(st)
            ss = []
            for _ in range(nsub):
                p = rng.choice(st)[0]
                ss.append(vg.inst(p) if rng.random() < 0.85 else vg.rand(2))
            subs.append(ss)
        stmts_by_mod.append(stmts)
        subs_by_mod.append(subs)
    run_batch(ctx, supdir, stmts_by_mod, subs_by_mod, variant, tab, "m")
    ctx.notes["modules"] = nmods
    ctx.notes["seconds(probe+static, random)"] = [round(t_static - t_probe, 1), round(_t.time() - t_static, 1)]
    ctx.notes["statements"] = nmods * per

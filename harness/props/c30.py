"""C30 — cdef dataclasses behave like standard dataclasses.

model  = CyVerif.C30 (`py`: CPython 3.12 _process_class decision logic; `cy`: Cython/Compiler/Dataclass.py decision logic,
         parametrised by the detected repair variant)
impl   = staged Cython: (a) front end with a tap on Dataclass.TemplateCode.generate_tree (the text of the synthesised methods,
         the resolved Field objects, the reported errors), (b) modules compiled with the staged compiler + gcc and run
oracle = the SAME class built by CPython's dataclasses.dataclass (class-creation errors, inspect.signature, behaviour)
"""
import ast
import json
import os
import re
import subprocess
import concurrent.futures as cf

import lib
import cybuild

OPT_NAMES = ["init", "repr", "eq", "order", "unsafe_hash", "frozen", "kw_only", "match_args"]
USER_NAMES = ["init", "repr", "eq", "lt", "le", "gt", "ge", "setattr", "delattr", "match_args", "post_init"]
VAR_NAMES = ["matchArgsInit", "orderNeedsEq", "orderClash", "frozenInherit", "frozenSetattr", "fieldKwOnly", "hashCompare"]

TYPES = {  # type key -> (pyx annotation, py annotation, default literal, factory name, sample values)
    "int": ("int", "int", "3", "fac_int", [10, 11, 12, 13]),
    "cint": ("cython.int", "int", "4", "fac_int", [20, 21, 22, 23]),
    "double": ("cython.double", "float", "1.5", "fac_dbl", [0.5, 2.25, 3.0, 4.75]),
    "str": ("str", "str", "'d'", "fac_str", ["p", "q", "r", "s"]),
    "object": ("object", "object", "(0,)", "fac_obj", [(1,), (2,), (3, 4), (5,)]),
    "list": ("list", "list", "[]", "fac_obj", [[1], [2], [3], [4]]),
}

PREAMBLE_COMMON = '''
import dataclasses
from dataclasses import field, KW_ONLY, InitVar
from typing import ClassVar
_calls = []
_post = []
def fac_int():
    _calls.append('int'); return 7
def fac_dbl():
    _calls.append('dbl'); return 8.5
def fac_str():
    _calls.append('str'); return 'fs'
def fac_obj():
    _calls.append('obj'); return ['fresh']
def _verif_state():
    return _calls, _post
'''


def none_opts():
    return {k: None for k in OPT_NAMES}


def no_user():
    u = {k: False for k in USER_NAMES}
    u["hash"] = "a"
    return u


def mkfield(name, kind="p", typ="int", dflt="n", init=None, repr_=None, cmp=None, hash_="-", kw=None):
    return {"name": name, "kind": kind, "type": typ, "dflt": dflt, "init": init, "repr": repr_, "cmp": cmp, "hash": hash_, "kw": kw}


def has_field_call(f):
    return (f["dflt"] in ("f", "b") or f["init"] is not None or f["repr"] is not None or f["cmp"] is not None
            or f["hash"] != "-" or f["kw"] is not None)


def render_field(f, cy):
    ann_cy, ann_py, lit, fac, _ = TYPES[f["type"]]
    ann = ann_cy if cy else ann_py
    if f["kind"] == "s":
        return "%s: KW_ONLY" % f["name"]
    if f["kind"] == "c":
        return "%s: ClassVar[%s]%s" % (f["name"], ann_py, " = " + lit if f["dflt"] == "v" else "")
    if f["kind"] == "i":
        ann = "InitVar[%s]" % ann_py
    if not has_field_call(f):
        if f["dflt"] == "n":
            return "%s: %s" % (f["name"], ann)
        return "%s: %s = %s" % (f["name"], ann, lit)      # 'v' and 'm' (list display)
    args = []
    if f["dflt"] in ("v", "b", "m"):
        args.append("default=" + lit)
    if f["dflt"] in ("f", "b"):
        args.append("default_factory=" + fac)
    for key, name in (("init", "init"), ("repr", "repr"), ("cmp", "compare"), ("kw", "kw_only")):
        if f[key] is not None:
            args.append("%s=%s" % (name, f[key]))
    if f["hash"] != "-":
        args.append("hash=%s" % {"N": "None", "0": "False", "1": "True"}[f["hash"]])
    return "%s: %s = field(%s)" % (f["name"], ann, ", ".join(args))


USER_BODIES_CY = {
    "init": "def __init__(self, *a, **k): pass",
    "repr": "def __repr__(self): return 'USER_REPR'",
    "eq": "def __eq__(self, other): return 'USER_EQ'",
    "lt": "def __lt__(self, other): return 'USER_LT'",
    "le": "def __le__(self, other): return 'USER_LE'",
    "gt": "def __gt__(self, other): return 'USER_GT'",
    "ge": "def __ge__(self, other): return 'USER_GE'",
    "setattr": "def __setattr__(self, n, v): object.__setattr__(self, n, v)",
    "delattr": "def __delattr__(self, n): object.__delattr__(self, n)",
    "match_args": "__match_args__ = ('USER',)",
    "post_init": "def __post_init__(self, *a): _post.append(a)",
}


def render_class(spec, cname, cy, bname=None):
    o = spec["opts"]
    given = ["%s=%s" % (k, o[k]) for k in OPT_NAMES if o[k] is not None]
    deco = ("@cython.dataclasses.dataclass" if cy else "@dataclasses.dataclass") + ("(%s)" % ", ".join(given) if given else "")
    head = ("cdef class " if cy else "class ") + cname + ("(%s)" % bname if bname else "") + ":"
    body = [render_field(f, cy) for f in spec["fields"]]
    u = spec["user"]
    for k in USER_NAMES:
        if u[k]:
            body.append(USER_BODIES_CY[k])
            if not cy and k != "match_args":
                body.append("__%s__._user = 1" % k)
    if u["hash"] == "d":
        body.append("def __hash__(self): return 4242")
        if not cy:
            body.append("__hash__._user = 1")
    elif u["hash"] == "n":
        body.append("__hash__ = None")
    if not body:
        body = ["pass"]
    return "\n".join([deco, head] + ["    " + b for b in body]) + "\n"


def tri(v):
    return "-" if v is None else ("1" if v else "0")


def field_token(f):
    return "/".join([f["name"], f["kind"], f["dflt"], tri(f["init"]), tri(f["repr"]), tri(f["cmp"]), f["hash"], tri(f["kw"])])


def model_line(who, var, spec, base_rf):
    """base_rf: None or (frozen, [rfield tokens])"""
    o = "".join(tri(spec["opts"][k]) for k in OPT_NAMES)
    u = "".join("1" if spec["user"][k] else "0" for k in USER_NAMES) + spec["user"]["hash"]
    if base_rf is None:
        b = ["-", "0"]
    else:
        b = ["f1" if base_rf[0] else "f0", str(len(base_rf[1]))] + list(base_rf[1])
    return " ".join(["C30", who, var, o, u] + b + [field_token(f) for f in spec["fields"]])


# ------------------------------------------------------------------ generator
NAME_POOL = ["a", "b", "c", "x", "y", "z", "w", "k", "self", "v1"]


def gen_field(rng, name, rich=True):
    typ = rng.choice(["int", "int", "cint", "double", "str", "object", "object"])
    f = mkfield(name, typ=typ)
    r = rng.random()
    if r < 0.08:
        f["kind"] = "i"
        f["type"] = rng.choice(["int", "object"])
    f["dflt"] = rng.choice(["n", "n", "n", "v", "v", "f"])
    if not rich:
        if f["dflt"] == "f" and f["kind"] == "i":
            f["dflt"] = "v"
        return f
    if rng.random() < 0.03:
        f["dflt"] = "b"
    if rng.random() < 0.25:
        f["init"] = rng.choice([False, False, True])
    if rng.random() < 0.25:
        f["repr"] = rng.choice([False, False, True])
    if rng.random() < 0.25:
        f["cmp"] = rng.choice([False, False, True])
    if rng.random() < 0.25:
        f["hash"] = rng.choice(["N", "0", "1"])
    if rng.random() < 0.12:
        f["kw"] = rng.choice([True, True, False])
    if f["kind"] == "p" and not has_field_call(f) and rng.random() < 0.04:
        f["type"], f["dflt"] = "list", "m"
    if f["kind"] == "i":
        f["init"] = None if f["init"] is False else f["init"]      # InitVar(init=False) + __post_init__: NameError inside CPython's own __init__
    return f


def gen_opts(rng, p=0.3):
    o = none_opts()
    for k in OPT_NAMES:
        if rng.random() < p:
            o[k] = rng.random() < 0.6
    return o


def gen_spec(rng, allow_base=True):
    names = list(NAME_POOL)
    rng.shuffle(names)
    if rng.random() < 0.9 and "self" in names:
        names.remove("self")
    spec = {"opts": gen_opts(rng), "user": no_user(), "base": None, "fields": []}
    if allow_base and rng.random() < 0.3:
        b = {"opts": gen_opts(rng, 0.15), "user": no_user(), "base": None, "fields": []}
        b["opts"]["order"] = None if b["opts"]["eq"] is False else b["opts"]["order"]
        for _ in range(rng.randrange(0, 4)):
            b["fields"].append(gen_field(rng, names.pop(), rich=rng.random() < 0.5))
            fb = b["fields"][-1]
            fb["kw"] = None
            if fb["dflt"] in ("b", "m"):
                fb["dflt"], fb["type"] = "v", ("int" if fb["type"] == "list" else fb["type"])
        spec["base"] = b
        if rng.random() < 0.7:      # mostly consistent frozen / kw_only flags
            spec["opts"]["frozen"] = b["opts"]["frozen"]
        if rng.random() < 0.6:
            spec["opts"]["kw_only"] = b["opts"]["kw_only"]
    nf = rng.choice([0, 1, 1, 2, 2, 3, 3, 4, 5])
    for _ in range(nf):
        if not names:
            break
        spec["fields"].append(gen_field(rng, names.pop()))
    if spec["base"] and spec["base"]["fields"] and rng.random() < 0.06 and spec["fields"]:
        spec["fields"][0]["name"] = spec["base"]["fields"][0]["name"]      # override in place (Cython: redeclaration)
    if rng.random() < 0.06:
        pos = rng.randrange(0, len(spec["fields"]) + 1)
        spec["fields"].insert(pos, mkfield("_", kind="s", typ="object"))
        if rng.random() < 0.1:
            spec["fields"].append(mkfield("_2", kind="s", typ="object"))
    if rng.random() < 0.1:
        spec["fields"].insert(rng.randrange(0, len(spec["fields"]) + 1), mkfield("cv", kind="c", typ="int", dflt=rng.choice(["n", "v"])))
    u = spec["user"]
    for k in USER_NAMES:
        if rng.random() < 0.06:
            u[k] = True
    if rng.random() < 0.15:
        u["hash"] = rng.choice(["d", "n"])
        if u["hash"] == "n" and rng.random() < 0.5:
            u["eq"] = True
    if u["post_init"] is False and any(f["kind"] == "i" for f in spec["fields"]) and rng.random() < 0.7:
        u["post_init"] = True
    return spec


def boundary_specs():
    """finite option space: all 256 option combinations on one field list; hash table rows x __hash__ definitions"""
    out = []
    fl = [mkfield("x", typ="int"), mkfield("y", typ="object", dflt="v", cmp=False), mkfield("z", typ="object", dflt="f", init=False)]
    for m in range(256):
        o = {k: bool(m >> i & 1) for i, k in enumerate(OPT_NAMES)}
        out.append({"opts": o, "user": no_user(), "base": None, "fields": [dict(f) for f in fl]})
    for m in range(8):
        for hd in "adn":
            for ueq in (False, True):
                o = none_opts()
                o["unsafe_hash"], o["eq"], o["frozen"] = bool(m & 1), bool(m & 2), bool(m & 4)
                u = no_user()
                u["hash"], u["eq"] = hd, ueq
                out.append({"opts": o, "user": u, "base": None, "fields": [mkfield("x", typ="int"), mkfield("y", typ="str", hash_="0")]})
    # hand-written corner cases (each deviation once, each error once)
    def S(fields, opts=None, user=None, base=None):
        o = none_opts(); o.update(opts or {})
        u = no_user(); u.update(user or {})
        return {"opts": o, "user": u, "base": base, "fields": fields}
    B = S([mkfield("p", typ="int"), mkfield("q", typ="object", dflt="v")])
    BF = S([mkfield("p", typ="int")], {"frozen": True})
    BK = S([mkfield("p", typ="int")], {"kw_only": True})
    out += [
        S([mkfield("x"), mkfield("y", typ="object", dflt="v", kw=True)]),
        S([mkfield("x"), mkfield("_", kind="s", typ="object"), mkfield("y", typ="object", dflt="v")]),
        S([mkfield("x")], {"order": True, "eq": False}),
        S([mkfield("x")], {"order": True}, {"lt": True}),
        S([mkfield("x")], {"order": True}, {"ge": True}),
        S([mkfield("y")], base=BF),
        S([mkfield("y")], {"frozen": True}, base=B),
        S([mkfield("y")], {"frozen": True}, base=BF),
        S([mkfield("x")], {"frozen": True}, {"setattr": True}),
        S([mkfield("x")], {"frozen": True}, {"delattr": True}),
        S([mkfield("x", dflt="v"), mkfield("y")]),
        S([mkfield("x", dflt="v"), mkfield("y")], user={"init": True}),
        S([mkfield("x", dflt="v"), mkfield("y")], {"kw_only": True}),
        S([mkfield("x", dflt="v"), mkfield("y", init=False)]),
        S([mkfield("x", dflt="v", init=False), mkfield("y")]),
        S([mkfield("x", dflt="b")]),
        S([mkfield("x", typ="list", dflt="m")]),
        S([mkfield("x", kind="i", typ="int", dflt="f")]),
        S([mkfield("x", kind="i", typ="list", dflt="m"), mkfield("y", typ="object", dflt="v")]),
        S([mkfield("x", kind="i", typ="int"), mkfield("y", typ="object", dflt="v")], user={"post_init": True}),
        S([mkfield("x"), mkfield("y", dflt="v", init=False)]),
        S([mkfield("x"), mkfield("y", dflt="n", init=False)]),
        S([mkfield("self"), mkfield("x", dflt="v")]),
        S([mkfield("y")], base=B),
        S([mkfield("p", typ="int", dflt="v")], base=B),
        S([mkfield("y")], {"kw_only": True}, base=B),
        S([mkfield("y")], base=BK),
        S([mkfield("y", dflt="v")], {"kw_only": True}, base=BK),
        S([mkfield("x")], {"unsafe_hash": True}, {"hash": "n", "eq": True}),
        S([mkfield("x")], {"frozen": True}, {"hash": "n", "eq": True}),
        S([mkfield("x"), mkfield("cv", kind="c", dflt="v"), mkfield("y", dflt="v")]),
        S([mkfield("x", hash_="1", cmp=False), mkfield("y", hash_="0")], {"unsafe_hash": True}),
        S([], {"order": True}),
        S([mkfield("c", typ="object")], {"eq": False, "unsafe_hash": True}, base=B),      # tp_hash alone: inherited __eq__ lost
        S([mkfield("x")], {"eq": False}, {"ge": True}),                                    # richcmp alone: unhashable
        S([mkfield("_", kind="s", typ="object"), mkfield("x"), mkfield("_2", kind="s", typ="object")]),
    ]
    return out


# ------------------------------------------------------------------ canonical decision records
def b01(b):
    return "1" if b else "0"


def lst(xs):
    return "[" + ",".join(xs) + "]"


def hash_state(action, user):
    """same convention as the Lean `hashState` (what the finished class does about __hash__)"""
    if action == "add":
        return None
    if action == "none":
        return "U"
    return {"d": "u", "n": "U", "a": "U" if user["eq"] else "i"}[user["hash"]]


ERR_TAGS = [("unexpected keyword argument 'kw_only'", "field-kw"), ("cannot specify both default and default_factory", "both"),
            ("mutable default", "mutable"), ("Cannot redeclare inherited fields", "redeclare"), ("non-default argument", "non-default"),
            ("Cannot overwrite attribute __hash__", "hash"), ("eq must be true if order is true", "order-eq"),
            ("Cannot overwrite attribute __lt__", "order-clash"), ("Cannot overwrite attribute __le__", "order-clash"),
            ("Cannot overwrite attribute __gt__", "order-clash"), ("Cannot overwrite attribute __ge__", "order-clash"),
            ("Cannot overwrite attribute __setattr__", "frozen-setattr"), ("Cannot overwrite attribute __delattr__", "frozen-setattr"),
            ("cannot inherit", "frozen-inherit")]


def err_tag(msg):
    for pat, tag in ERR_TAGS:
        if pat in msg:
            return tag
    return "other:" + re.sub(r"\s+", "_", msg)[:60]


def canon_err(line):
    """sort the tags of an 'err CompileError a,b' line"""
    if line.startswith("err CompileError "):
        return "err CompileError " + ",".join(sorted(line[len("err CompileError "):].split(",")))
    return line


PH = r"DATACLASS_PLACEHOLDER_\d+"


def tap_to_out(rec, errors, spec):
    """canonical record of what the staged compiler decided for one class (same syntax as Lean `renderRes`)"""
    if errors:
        return "err CompileError " + ",".join(sorted(err_tag(m) for m in errors))
    code = rec.get("code")
    if code is None:
        return "tap-missing"
    blocks, match, cur = {}, None, None
    for l in code.split("\n"):
        m = re.match(r"def (\w+)\((.*)\):\s*$", l)
        if m:
            cur = m.group(1)
            blocks[cur] = {"args": m.group(2), "lines": []}
        elif l.startswith("__match_args__ = "):
            match = list(ast.literal_eval(l[len("__match_args__ = "):]))
            cur = None
        elif l.startswith(" ") and cur:
            blocks[cur]["lines"].append(l.strip())
        elif l.strip():
            cur = None
    flds = rec["fields"]
    bkw = {f["name"]: bool(spec["base"]["opts"]["kw_only"]) for f in spec["base"]["fields"]} if spec["base"] else {}
    F = lst(["/".join([f["name"], b01(f["iv"]), f["dflt"], b01(f["init"]), b01(f["repr"]), b01(f["cmp"]), f["hash"],
                       b01(bkw.get(f["name"], rec["kw_class"]) if f["kw"] is None else f["kw"])]) for f in flds])
    # __init__
    if "__init__" in blocks:
        args = [a.strip() for a in blocks["__init__"]["args"].split(", ")]
        selfname = args[0]
        fph = rec.get("factory_ph") or []
        params, kw = [], False
        for a in args[1:]:
            if a == "*":
                kw = True
                continue
            m = re.match(r"(\w+)(?:\s*:\s*[^=]+?)?(?:\s*=\s*(%s))?$" % PH, a)
            if not m:
                return "tap-unparsed-arg " + a[:40]
            d = "n" if m.group(2) is None else ("f" if m.group(2) in fph else "v")
            params.append("%s/%s/%s" % (m.group(1), b01(kw), d))
        src, post, order_seen = {}, "-", []
        for l in blocks["__init__"]["lines"]:
            if l.startswith("with ") or l == "pass":
                continue
            m = re.match(r"%s\.__post_init__\((.*)\)$" % re.escape(selfname), l)
            if m:
                post = lst([x.strip() for x in m.group(1).split(",") if x.strip()])
                continue
            m = re.match(r"%s\.(\w+) = (.*)$" % re.escape(selfname), l)
            if not m:
                return "tap-unparsed-line " + l[:40]
            n, rhs = m.group(1), m.group(2)
            order_seen.append(n)
            if rhs == n:
                src[n] = "p"
            elif re.fullmatch(r"%s\(\) if %s is (%s) else %s" % (PH, re.escape(n), PH, re.escape(n)), rhs):
                src[n] = "pf"
            elif re.fullmatch(PH + r"\(\)", rhs):
                src[n] = "f"
            elif re.fullmatch(PH, rhs):
                src[n] = "d"
            else:
                src[n] = "?" + rhs[:20]
        if order_seen != [f["name"] for f in flds if f["name"] in src]:
            return "tap-body-order " + ",".join(order_seen)[:60]
        body = ["%s/%s" % (f["name"], src.get(f["name"], "iv" if f["iv"] else "u")) for f in flds]
        I = "d%s:%s:%s:%s" % (b01(selfname == "__dataclass_self__"), lst(params), lst(body), post)
    else:
        I = "-"
    # repr
    R = "-"
    if "__repr__" in blocks:
        rl = [l for l in blocks["__repr__"]["lines"] if l.startswith("return f'{name}(")]
        if len(rl) != 1:
            return "tap-unparsed-repr"
        R = lst(re.findall(r"(\w+)=\{self\.\w+!r\}", rl[0]))
    # comparisons
    def cmp_names(b):
        return [m.group(1) for l in b["lines"] for m in [re.match(r"if self\.(\w+) != other_cast\.\w+: return False$", l)] if m]
    E = "__eq__" in blocks
    O = [k for k in ("lt", "le", "gt", "ge") if "__%s__" % k in blocks]
    cn = None
    for k in (["eq"] if E else []) + O:
        c = cmp_names(blocks["__%s__" % k])
        if cn is not None and c != cn:
            return "tap-cmp-fields-differ"
        cn = c
        if k != "eq":
            opc = {"lt": "<", "le": "<", "gt": ">", "ge": ">"}[k]
            lt = [m.group(1) for l in blocks["__%s__" % k]["lines"] for m in [re.match(r"if self\.(\w+) %s other_cast\.\w+: return True$" % opc, l)] if m]
            fin = [l for l in blocks["__%s__" % k]["lines"] if re.fullmatch(r"return (True|False)", l)]
            if lt != c or fin != ["return " + ("True" if k in ("le", "ge") else "False")]:
                return "tap-order-shape " + k
    # hash
    if "__hash__" in blocks:
        hl = [l for l in blocks["__hash__"]["lines"] if l.startswith("return hash((")]
        H = "g" + lst(re.findall(r"self\.(\w+)", hl[0] if hl else ""))
    elif "__hash__=NoneNode" in rec.get("extra", []):
        H = "U"
    else:
        H = hash_state("nothing", spec["user"])
    M = "-" if match is None else lst(match)
    own = list(rec.get("vis", {}).values())
    if not own:
        Z = b01(bool(spec["opts"]["frozen"]))
    elif all(v == "readonly" for v in own):
        Z = "1"
    elif all(v == "public" for v in own):
        Z = "0"
    else:
        Z = "?"
    return "ok F%s I%s R%s E%s O%s C%s H%s M%s Z%s" % (F, I, R, b01(E), lst(O), lst(cn or []), H, M, Z)


# ------------------------------------------------------------------ CPython oracle (decision level)
def value_for(f, i):
    return TYPES[f["type"]][4][i % 4]


def py_oracle_out(spec, cname="C"):
    """Build the class with CPython's dataclasses and derive the same canonical record from introspection + behaviour."""
    import dataclasses
    import inspect
    ns = {}
    exec(PREAMBLE_COMMON, ns)
    bname = None
    if spec["base"] is not None:
        bname = "B" + cname
        try:
            exec(render_class(spec["base"], bname, False), ns)
        except Exception as e:
            return "base-err " + type(e).__name__
    try:
        exec(render_class(spec, cname, False, bname), ns)
    except Exception as e:
        return "err " + type(e).__name__
    cls = ns[cname]
    user = spec["user"]

    def is_user(name):
        v = cls.__dict__.get(name)
        return getattr(v, "_user", 0) == 1
    allf = [f for f in cls.__dataclass_fields__.values() if f._field_type in (dataclasses._FIELD, dataclasses._FIELD_INITVAR)]
    tspec = {}
    for s in ([spec["base"]] if spec["base"] else []) + [spec]:
        for f in s["fields"]:
            tspec[f["name"]] = f

    def dk(f):
        return "f" if f.default_factory is not dataclasses.MISSING else ("v" if f.default is not dataclasses.MISSING else "n")
    F = lst(["/".join([f.name, b01(f._field_type is dataclasses._FIELD_INITVAR), dk(f), b01(f.init), b01(f.repr), b01(f.compare),
                       "N" if f.hash is None else b01(f.hash), b01(f.kw_only)]) for f in allf])
    real = [f for f in allf if f._field_type is dataclasses._FIELD]
    calls, post = ns["_calls"], ns["_post"]

    def mk(vals):
        """instance with the given attribute values, bypassing __init__ and frozen"""
        o = object.__new__(cls)
        for k, v in vals.items():
            object.__setattr__(o, k, v)
        return o
    base_vals = {f.name: value_for(tspec[f.name], 0) for f in real}
    # __init__
    I = "-"
    if "__init__" in cls.__dict__ and not is_user("__init__"):
        sig = inspect.signature(cls.__init__)
        ps = list(sig.parameters.values())
        params = []
        for p in ps[1:]:
            d = "n" if p.default is inspect.Parameter.empty else ("f" if p.default is dataclasses._HAS_DEFAULT_FACTORY else "v")
            params.append("%s/%s/%s" % (p.name, b01(p.kind is inspect.Parameter.KEYWORD_ONLY), d))
        sent = {p.name: ("S", p.name) for p in ps[1:]}
        body = []
        del post[:]
        o1 = object.__new__(cls)
        cls.__init__(o1, **sent)                                        # every parameter given
        post1 = list(post)
        req = {p.name: ("S", p.name) for p in ps[1:] if p.default is inspect.Parameter.empty}
        o2, o3 = object.__new__(cls), object.__new__(cls)
        n0 = len(calls)
        cls.__init__(o2, **req)                                         # only the required ones: defaults / factories act
        n1 = len(calls)
        cls.__init__(o3, **req)
        n2 = len(calls)
        nfac = sum(1 for f in real if f.default_factory is not dataclasses.MISSING)
        per_call = (n1 - n0 == nfac == n2 - n1)
        for f in allf:
            n = f.name
            if f._field_type is dataclasses._FIELD_INITVAR:
                body.append(n + "/iv")
                continue
            in1 = n in o1.__dict__
            if n in sent:
                if not (in1 and o1.__dict__[n] == ("S", n)):
                    body.append(n + "/?param-not-stored")
                elif f.default_factory is not dataclasses.MISSING:
                    body.append(n + ("/pf" if per_call else "/?factory-not-per-call"))
                else:
                    body.append(n + "/p")
            else:
                if in1:
                    body.append(n + ("/f" if f.default_factory is not dataclasses.MISSING and per_call else "/?stored"))
                elif hasattr(o1, n):
                    body.append(n + "/d")
                else:
                    body.append(n + "/u")
        pst = "-"
        if user["post_init"]:
            pst = lst([x[1] if isinstance(x, tuple) and x[:1] == ("S",) else "?" for x in (post1[0] if post1 else ())])
        I = "d%s:%s:%s:%s" % (b01(ps[0].name == "__dataclass_self__"), lst(params), lst(body), pst)
    # repr
    R = "-"
    if "__repr__" in cls.__dict__ and not is_user("__repr__"):
        R = lst(re.findall(r"(\w+)=", repr(mk(base_vals)).split("(", 1)[1]))
    E = "__eq__" in cls.__dict__ and not is_user("__eq__")
    O = [k for k in ("lt", "le", "gt", "ge") if "__%s__" % k in cls.__dict__ and not is_user("__%s__" % k)]
    C = []
    if E or O:
        for f in real:
            v2 = dict(base_vals)
            v2[f.name] = value_for(tspec[f.name], 1)
            a, b = mk(base_vals), mk(v2)
            if E:
                differs = not (a == b)
            else:
                m = "__%s__" % O[0]
                differs = getattr(cls, m)(a, b) != getattr(cls, m)(a, mk(base_vals))
            if differs:
                C.append(f.name)
    if "__hash__" not in cls.__dict__:
        H = "i"
    elif cls.__dict__["__hash__"] is None:
        H = "U"
    elif is_user("__hash__"):
        H = "u"
    else:
        hn = []
        for f in real:
            v2 = dict(base_vals)
            v2[f.name] = value_for(tspec[f.name], 1)
            if hash(mk(base_vals)) != hash(mk(v2)):
                hn.append(f.name)
        H = "g" + lst(hn)
    M = "-"
    if "__match_args__" in cls.__dict__ and cls.__dict__["__match_args__"] != ("USER",):
        M = lst(list(cls.__match_args__))
    Z = b01("__setattr__" in cls.__dict__ and not is_user("__setattr__"))
    return "ok F%s I%s R%s E%s O%s C%s H%s M%s Z%s" % (F, I, R, b01(E), lst(O), lst(C), H, M, Z)


# ------------------------------------------------------------------ staged compiler front end with a tap (child process)
TAP_CHILD = r'''
"""usage: tapchild.py spec.json  -- runs the staged compiler front end over modules, prints RESULT json"""
import sys, json, re, os, time
spec = json.loads(open(sys.argv[1]).read())
import Cython.Compiler.Code as C
assert C.__file__.endswith('.py'), C.__file__
from Cython.Compiler import Dataclass, Errors, Pipeline, Main, Options
from Cython.Compiler.Main import CompilationOptions, Context, CompilationSource, CompilationResult
try:
    from Cython.Compiler.Main import create_default_resultobj
except ImportError:
    create_default_resultobj = None

cur = {}          # state of the class being handled
records = {}      # class name -> record
errs = []         # (line, message)

orig_report = Errors.report_error
def report_error(err, use_stack=True):
    pos = getattr(err, 'position', None)
    line = pos[1] if pos else 0
    errs.append((line, getattr(err, 'message_only', str(err))))
    if not cut_mode['on']:
        return orig_report(err, use_stack)
Errors.report_error = report_error

orig_dc_error = Dataclass.error
def dc_error(position, message):
    # an inherited entry has no position: Errors.error would raise InternalError and abort the whole module
    if position is None:
        if cur.get('rec') is not None:
            cur['rec'].setdefault('errs_nopos', []).append(message)
        return None
    return orig_dc_error(position, message)
Dataclass.error = dc_error

orig_gt = Dataclass.TemplateCode.generate_tree
def gt(self, level='c_class'):
    if cur.get('rec') is not None and 'code' not in cur['rec']:
        cur['rec']['code'] = self.writer.getvalue()
        cur['rec']['extra'] = [getattr(getattr(s, 'lhs', None), 'name', '?') + '=' + type(getattr(s, 'rhs', None)).__name__
                               for s in (self.extra_stats or [])]
        cur['rec']['factory_ph'] = [k for k, v in self.placeholders.items()
                                    if getattr(v, 'attribute', None) == '_HAS_DEFAULT_FACTORY']
    return orig_gt(self, level)
Dataclass.TemplateCode.generate_tree = gt

orig_h = Dataclass.handle_cclass_dataclass
def h(node, dataclass_args, tr):
    rec = {'name': node.class_name}
    cur['rec'] = rec
    records[node.class_name] = rec
    kw = False
    try:
        if dataclass_args is not None:
            v = dataclass_args[1].get('kw_only')
            kw = bool(getattr(v, 'value', False))
    except Exception:
        pass
    rec['kw_class'] = kw
    try:
        return orig_h(node, dataclass_args, tr)
    finally:
        fl = []
        flds = getattr(node.entry.type, 'dataclass_fields', None) or {}
        for name, f in flds.items():
            def val(n):
                x = getattr(f, n, None)
                return getattr(x, 'value', None)
            hv = getattr(f, 'hash', None)
            hv = 'N' if type(hv).__name__ == 'NoneNode' else ('1' if getattr(hv, 'value', None) else '0')
            kwv = getattr(f, 'kw_only', None)
            kwv = getattr(kwv, 'value', None) if kwv is not None else None
            fl.append({'name': name, 'iv': bool(f.is_initvar),
                       'dflt': 'f' if f.default_factory is not Dataclass.MISSING else ('v' if f.default is not Dataclass.MISSING else 'n'),
                       'init': bool(val('init')), 'repr': bool(val('repr')), 'cmp': bool(val('compare')), 'hash': hv,
                       'kw': kwv})
        rec['fields'] = fl
        vis = {}
        for name in flds:
            e = node.scope.lookup_here(name)
            if e is not None and not getattr(e, 'is_inherited', False):
                vis[name] = e.visibility
        rec['vis'] = vis
        cur['rec'] = None
Dataclass.handle_cclass_dataclass = h

orig_cpp = Pipeline.create_pyx_pipeline
cut_mode = {'on': False}
def cpp(context, options, result, *a, **k):
    pipeline = orig_cpp(context, options, result, *a, **k)
    if not cut_mode['on']:
        return pipeline
    cut = []
    for ph in pipeline:
        cut.append(ph)
        if type(ph).__name__ == 'AnalyseDeclarationsTransform':
            break
    return cut
Pipeline.create_pyx_pipeline = cpp

def front_end(path, full):
    cut_mode['on'] = not full
    options = CompilationOptions(language_level=3)
    res = Main.compile(path, options)
    return res.num_errors

out = []
for m in spec['modules']:
    records.clear(); del errs[:]
    t0 = time.time()
    crash = None
    try:
        front_end(m['path'], m.get('full', False))
    except BaseException as e:
        crash = type(e).__name__ + ': ' + str(e)[:300]
    out.append({'path': m['path'], 'records': dict(records), 'errors': list(errs), 'crash': crash, 'secs': round(time.time() - t0, 2)})
print('RESULT ' + json.dumps(out))
'''

PYX_PREAMBLE = "cimport cython\n" + PREAMBLE_COMMON


def build_pyx(items):
    """items: list of (cname, spec).  Returns (text, ranges) with ranges[cname] = (first_line, last_line) 1-based."""
    lines = PYX_PREAMBLE.split("\n")
    ranges = {}
    for cname, spec in items:
        start = len(lines) + 1
        if spec["base"] is not None:
            lines += render_class(spec["base"], "B" + cname, True).rstrip("\n").split("\n")
            ranges["B" + cname] = (start, len(lines))
            start = len(lines) + 1
            lines += render_class(spec, cname, True, "B" + cname).rstrip("\n").split("\n")
        else:
            lines += render_class(spec, cname, True).rstrip("\n").split("\n")
        ranges[cname] = (start, len(lines))
    return "\n".join(lines) + "\n", ranges


def run_tap(ctx, named_specs, per_module=60, workers=8, full=False, tag="t"):
    """named_specs: list of (cname, spec).  Returns {cname: (record, [error messages])} plus base entries 'B'+cname."""
    mods = []
    for i in range(0, len(named_specs), per_module):
        chunk = named_specs[i:i + per_module]
        text, ranges = build_pyx(chunk)
        d = os.path.join(ctx.scratch, "tap")
        os.makedirs(d, exist_ok=True)
        path = os.path.join(d, "%s%d_%d.pyx" % (tag, len(os.listdir(d)), i))
        with open(path, "w") as f:
            f.write(text)
        mods.append({"path": path, "full": full, "ranges": ranges})
    script = os.path.join(ctx.scratch, "tapchild.py")
    if not os.path.exists(script):
        with open(script, "w") as f:
            f.write(TAP_CHILD)
    groups = [mods[i::workers] for i in range(workers) if mods[i::workers]]

    def one(gi):
        g = groups[gi]
        sp = os.path.join(ctx.scratch, "tapspec_%s_%d_%d.json" % (tag, gi, len(os.listdir(ctx.scratch))))
        with open(sp, "w") as f:
            json.dump({"modules": [{"path": m["path"], "full": m["full"]} for m in g]}, f)
        env = lib._clean_env({"PYTHONPATH": ctx.stage})
        p = subprocess.run([lib.PYTHON, script, sp], stdout=subprocess.PIPE, stderr=subprocess.PIPE, text=True, env=env,
                           cwd=os.path.dirname(g[0]["path"]), timeout=3000)
        for line in p.stdout.split("\n"):
            if line.startswith("RESULT "):
                return json.loads(line[7:])
        raise lib.Infra("tap child produced no result: " + (p.stderr or p.stdout)[-600:])
    with cf.ThreadPoolExecutor(max_workers=workers) as ex:
        results = list(ex.map(one, range(len(groups))))
    out = {}
    for g, res in zip(groups, results):
        for m, r in zip(g, res):
            if r["crash"]:
                for cname in m["ranges"]:
                    out[cname] = ({"crash": r["crash"]}, [])
                continue
            per = {c: [] for c in m["ranges"]}
            stray = []
            for line, msg in r["errors"]:
                hit = [c for c, (a, b) in m["ranges"].items() if a <= line <= b]
                if hit:
                    per[hit[0]].append(msg)
                else:
                    stray.append((line, msg))
            for cname in m["ranges"]:
                rec = r["records"].get(cname, {})
                out[cname] = (rec, per[cname] + list(rec.get("errs_nopos", [])) + (["stray:" + s[1] for s in stray] if stray else []))
    return out


# ------------------------------------------------------------------ translator (G): Dataclass.py -> Lean `Params`
class Untranslatable(Exception):
    pass


def _find(tree, kind, name):
    for n in ast.walk(tree):
        if isinstance(n, kind) and n.name == name:
            return n
    raise Untranslatable("no %s %s" % (kind.__name__, name))


def _calls(node):
    return [c for c in ast.walk(node) if isinstance(c, ast.Call)]


def _call_name(c):
    f = c.func
    return f.id if isinstance(f, ast.Name) else (f.attr if isinstance(f, ast.Attribute) else "?")


def _is_hash_lookup(node):
    return (isinstance(node, ast.Call) and _call_name(node) == "lookup_here" and len(node.args) == 1
            and isinstance(node.args[0], ast.Constant) and node.args[0].value == "__hash__")


def _effects(node):
    """side effects (in source order) of one simple statement / with-header"""
    effs = []
    for c in _calls(node):
        nm = _call_name(c)
        consts = [x.value for x in ast.walk(c) if isinstance(x, ast.Constant) and isinstance(x.value, str)]
        if nm == "error":
            effs.append("error")
        elif nm == "add_extra_statements":
            d = ast.dump(c)
            if "__hash__" in d and "NoneNode" in d:
                effs.append("setNone")
            else:
                raise Untranslatable("add_extra_statements of something else")
        elif nm in ("indenter", "add_code_line", "add_code_chunk") and any("def __hash__" in s for s in consts):
            effs.append("defHash")
        elif nm in ("warning", "declare_var", "append", "extend") or nm.startswith("generate_"):
            raise Untranslatable("unexpected call %s in generate_hash_code" % nm)
    return effs


def translate_hash_tree(fn):
    env = {"unsafe_hash": ".unsafeHash", "eq": ".eq", "frozen": ".frozen"}

    def cond(t):
        if isinstance(t, ast.Name) and t.id in env:
            return env[t.id]
        if _is_hash_lookup(t):
            return ".hashEntry"
        if isinstance(t, ast.UnaryOp) and isinstance(t.op, ast.Not):
            c = cond(t.operand)
            return None if c is None else "(.not %s)" % c
        if isinstance(t, ast.BoolOp):
            cs = [cond(v) for v in t.values]
            if any(c is None for c in cs):
                return None
            op = ".and" if isinstance(t.op, ast.And) else ".or"
            r = cs[0]
            for c in cs[1:]:
                r = "(%s %s %s)" % (op, r, c)
            return r
        return None

    def has_return(n):
        return any(isinstance(x, ast.Return) for x in ast.walk(n))

    def leaf(effs):
        return "(.leaf [%s])" % ", ".join("." + e for e in effs)

    def seq(stmts, effs):
        if not stmts:
            return leaf(effs)
        s, rest = stmts[0], list(stmts[1:])
        if isinstance(s, ast.Return):
            return leaf(effs)
        if isinstance(s, ast.If):
            c = cond(s.test)
            if c is None:
                if _effects(s) or has_return(s):
                    raise Untranslatable("if-statement with an untranslatable test guards an effect (line %d)" % s.lineno)
                return seq(rest, effs)
            return "(.ite %s %s %s)" % (c, seq(list(s.body) + rest, effs), seq(list(s.orelse) + rest, effs))
        if isinstance(s, ast.With):
            e = []
            for it in s.items:
                e += _effects(it.context_expr)
            return seq(list(s.body) + rest, effs + e)
        if isinstance(s, ast.Assign) and len(s.targets) == 1 and isinstance(s.targets[0], ast.Name):
            nm = s.targets[0].id
            if _is_hash_lookup(s.value):
                env[nm] = ".hashEntry"
            elif nm in env:
                raise Untranslatable("%s re-assigned" % nm)
            elif _effects(s.value):
                raise Untranslatable("effect inside an assignment")
            return seq(rest, effs)
        if isinstance(s, (ast.AugAssign, ast.AnnAssign, ast.Pass)):
            if _effects(s):
                raise Untranslatable("effect inside an assignment")
            return seq(rest, effs)
        if isinstance(s, ast.Expr):
            if isinstance(s.value, ast.Constant):
                return seq(rest, effs)
            return seq(rest, effs + _effects(s.value))
        raise Untranslatable("statement %s (line %d)" % (type(s).__name__, s.lineno))
    return seq(list(fn.body), [])


def translate_params(stage):
    """(lean term for Params, echo dict) from the CURRENT Dataclass.py"""
    src = open(os.path.join(stage, "Cython", "Compiler", "Dataclass.py")).read()
    tree = ast.parse(src)
    hash_tree = translate_hash_tree(_find(tree, ast.FunctionDef, "generate_hash_code"))
    # option defaults: kwargs = dict(init=True, ...)
    h = _find(tree, ast.FunctionDef, "handle_cclass_dataclass")
    opts = None
    for n in ast.walk(h):
        if (isinstance(n, ast.Assign) and len(n.targets) == 1 and isinstance(n.targets[0], ast.Name) and n.targets[0].id == "kwargs"
                and isinstance(n.value, ast.Call) and _call_name(n.value) == "dict"):
            opts = {k.arg: k.value.value for k in n.value.keywords if isinstance(k.value, ast.Constant)}
            if len(opts) != len(n.value.keywords):
                raise Untranslatable("non-constant option default")
    if opts is None or sorted(opts) != sorted(OPT_NAMES) or not all(isinstance(v, bool) for v in opts.values()):
        raise Untranslatable("option defaults %r" % (opts,))
    # field defaults: self.repr = repr or ExprNodes.BoolNode(pos, value=True)
    init = _find(_find(tree, ast.ClassDef, "Field"), ast.FunctionDef, "__init__")
    fd = {}
    for n in ast.walk(init):
        if (isinstance(n, ast.Assign) and isinstance(n.targets[0], ast.Attribute) and isinstance(n.value, ast.BoolOp)
                and isinstance(n.value.op, ast.Or) and len(n.value.values) == 2 and isinstance(n.value.values[1], ast.Call)):
            key = n.targets[0].attr
            c = n.value.values[1]
            if _call_name(c) == "BoolNode":
                vals = [k.value.value for k in c.keywords if k.arg == "value" and isinstance(k.value, ast.Constant)]
                if len(vals) == 1 and isinstance(vals[0], bool):
                    fd[key] = vals[0]
            elif _call_name(c) == "NoneNode":
                fd[key] = None
    args = init.args
    sig = dict(zip([a.arg for a in args.args][-len(args.defaults):], args.defaults))
    for k in ("init", "repr", "compare", "hash"):
        if k not in fd:
            raise Untranslatable("field default of %s" % k)
        if not (k in sig and isinstance(sig[k], ast.Constant) and sig[k].value is None):
            raise Untranslatable("Field.__init__ default of %s is not None" % k)
    if fd["hash"] is not None and not isinstance(fd["hash"], bool):
        raise Untranslatable("hash default")

    def lb(b):
        return "true" if b else "false"
    lean = "(Params.mk %s ⟨%s⟩ ⟨%s, %s, %s, %s⟩)" % (
        hash_tree, ", ".join(lb(opts[k]) for k in OPT_NAMES), lb(fd["init"]), lb(fd["repr"]), lb(fd["compare"]),
        "none" if fd["hash"] is None else "some " + lb(fd["hash"]))
    return lean, {"hash_tree": hash_tree, "option_defaults": opts, "field_defaults": fd}


# ------------------------------------------------------------------ D-c: run compiled classes next to CPython's (child process)
OBS_CHILD = r'''
import sys, json, inspect, dataclasses, importlib.util, operator
spec = json.loads(open(sys.argv[1]).read())
so, modname = spec["so"], spec["modname"]
sp = importlib.util.spec_from_file_location(modname, so)
cymod = importlib.util.module_from_spec(sp)
sys.modules[modname] = cymod
sp.loader.exec_module(cymod)
pyns = {"__name__": "oracle_" + modname}
exec(spec["py_source"], pyns)
NAN = float("nan")
VALS = spec["values"]

def val(typ, i):
    v = VALS[typ][i % 4]
    return tuple(v) if typ == "object" else v

def exc_name(e):
    for c in (AttributeError, TypeError, ValueError):
        if isinstance(e, c):
            return c.__name__
    return type(e).__name__

import re as _re
def attempt(f):
    try:
        r = f()
        if isinstance(r, str) and _re.fullmatch(r"<\S+ object at 0x[0-9a-f]+>", r):
            return "ok <default object repr>"
        return "ok " + repr(r)
    except BaseException as e:
        return "err " + exc_name(e)

def observe(cls, meta, state, pysig):
    calls, post = state()
    obs = {}
    types = {f["name"]: f["type"] for f in meta["fields"]}
    real = [f for f in meta["fields"] if f["kind"] != "i"]
    readable = [f for f in real if not f.get("unset")]
    def readout(o):
        out = []
        for f in readable:
            try:
                out.append("%s=%r" % (f["name"], getattr(o, f["name"])))
            except BaseException as e:
                out.append("%s!%s" % (f["name"], exc_name(e)))
        return ",".join(out)
    params = pysig
    def kw(names, i=0):
        return {n: val(types[n], i) for n in names}
    allp = [p[0] for p in params]
    req = [p[0] for p in params if not p[2]]
    pos = [p[0] for p in params if not p[1]]
    probes = [((), kw(allp)), ((), kw(req))]
    for k in range(1, len(pos) + 1):
        probes.append((tuple(val(types[n], 0) for n in pos[:k]), kw([n for n in req if n not in pos[:k]])))
    probes.append((tuple(val(types[n], 0) for n in pos) + (99,), kw([n for n in req if n not in pos])))
    for r in req:
        probes.append(((), kw([n for n in req if n != r])))
    probes.append(((), dict(kw(req), zz_unknown=1)))
    if meta["user_init"] or meta["no_init"]:
        probes = [((), {})]      # no generated __init__: a cdef class ignores constructor arguments, object.__init__ refuses them
    res = []
    for a, k in probes:
        del post[:]
        n0 = len(calls)
        try:
            o = cls(*a, **k)
            res.append("ok %s post=%r calls=%d" % (readout(o), list(post), len(calls) - n0))
        except BaseException as e:
            res.append("err " + exc_name(e))
    obs["ctor"] = res
    def mk(changes=None, i=0):
        d = kw(allp, i) if False else kw(allp)
        if changes:
            d.update(changes)
        return cls(**d)
    if meta["user_init"]:
        obs["skipped"] = "user __init__"
        obs["match_args"] = repr(getattr(cls, "__match_args__", None))
        return obs
    try:
        a, b = mk(), mk()
    except BaseException as e:
        obs["fatal"] = "cannot construct: " + exc_name(e)
        return obs
    variants = []
    for n in allp:
        if types.get(n) is not None and any(f["name"] == n and f["kind"] != "i" for f in meta["fields"]):
            variants.append((n, mk({n: val(types[n], 1)})))
    unset = [f for f in real if f.get("unset")]
    if unset:
        obs["unset_read"] = ["%s:%s" % (f["name"], attempt(lambda: getattr(a, f["name"]))) for f in unset]
    else:
        obs["repr"] = attempt(lambda: repr(a))
    eqs = [attempt(lambda: a == b), attempt(lambda: a != b), attempt(lambda: a == 5)]
    for n, c in variants:
        eqs.append(n + ":" + attempt(lambda: a == c))
    if not unset:
        obs["eq"] = eqs
    od = []
    for nm in ("lt", "le", "gt", "ge"):
        op = getattr(operator, nm)
        od.append(nm + ":" + attempt(lambda: op(a, b)))
        for n, c in variants:
            od.append("%s:%s:%s/%s" % (nm, n, attempt(lambda: op(a, c)), attempt(lambda: op(c, a))))
    if not unset:
        obs["order"] = od
    hs = ["none=%r" % (cls.__hash__ is None)]
    if cls.__hash__ is not None:
        if not unset:
            hs.append(attempt(lambda: hash(a) == hash(b)))
            for n, c in variants:
                hs.append(n + ":" + attempt(lambda: hash(a) == hash(c)))
        if meta["user_hash"]:
            hs.append(attempt(lambda: hash(a)))
    obs["hash"] = hs
    fz = []
    for f in readable:
        t = mk()
        fz.append("set %s:%s" % (f["name"], attempt(lambda: setattr(t, f["name"], val(f["type"], 2)))))
        if meta["frozen"]:
            fz.append("del %s:%s" % (f["name"], attempt(lambda: delattr(t, f["name"]))))
        fz.append("after %s:%s" % (f["name"], readout(t)))
    obs["frozen"] = fz
    obs["match_args"] = repr(getattr(cls, "__match_args__", None))
    fl = []
    try:
        for f in dataclasses.fields(cls):
            fl.append((f.name, f.init, f.repr, f.hash, f.compare, f.default is not dataclasses.MISSING,
                       f.default_factory is not dataclasses.MISSING))
    except BaseException as e:
        fl = "err " + exc_name(e)
    obs["fields"] = repr(fl)
    if not any(f.get("unset") for f in real):
        obs["asdict"] = attempt(lambda: sorted(dataclasses.asdict(a).items()))
        obs["astuple"] = attempt(lambda: dataclasses.astuple(a))
        initreal = [n for n, _ in variants]
        if initreal:
            obs["replace"] = attempt(lambda: readout(dataclasses.replace(a, **{initreal[0]: val(types[initreal[0]], 2)})))
    try:
        x, y = cls(**kw(req)), cls(**kw(req))
        fresh = []
        for f in readable:
            if f["dflt"] == "f" and f["type"] == "object":
                fresh.append("%s:%r" % (f["name"], getattr(x, f["name"]) is not getattr(y, f["name"])))
        obs["factory_fresh"] = fresh
    except BaseException as e:
        obs["factory_fresh"] = "err " + exc_name(e)
    return obs

out = {}
for meta in spec["classes"]:
    cn = meta["cname"]
    pycls = pyns[cn]
    try:
        sig = inspect.signature(pycls)
        pysig = [(p.name, p.kind is inspect.Parameter.KEYWORD_ONLY, p.default is not inspect.Parameter.empty)
                 for p in sig.parameters.values() if p.kind in (inspect.Parameter.POSITIONAL_OR_KEYWORD, inspect.Parameter.KEYWORD_ONLY)]
    except BaseException:
        pysig = []
    rec = {}
    for who, cls, st in (("cy", getattr(cymod, cn), cymod._verif_state), ("py", pycls, pyns["_verif_state"])):
        try:
            rec[who] = observe(cls, meta, st, pysig)
        except BaseException as e:
            rec[who] = {"fatal": "observe failed: %s %s" % (type(e).__name__, str(e)[:200])}
    out[cn] = rec
# comparison probes: k object fields, explicit value vectors
cmpres = []
for pr in spec.get("cmp_probes", []):
    k = len(pr["xs"])
    nans = {}
    def dec(t):
        if t == "N": return None
        if t[0] == "i": return int(t[1:])
        return nans.setdefault(t, float("nan"))
    xs, ys = [dec(t) for t in pr["xs"]], [dec(t) for t in pr["ys"]]
    op = {"eq": operator.eq, "lt": operator.lt, "le": operator.le, "gt": operator.gt, "ge": operator.ge}[pr["op"]]
    row = {}
    for who, ns in (("cy", cymod.__dict__), ("py", pyns)):
        cls = ns["CmpProbe%d" % k]
        try:
            r = op(cls(*xs), cls(*ys))
            row[who] = "ok " + repr(bool(r)) if isinstance(r, bool) else "ok ?" + repr(r)
        except BaseException as e:
            row[who] = "err " + exc_name(e)
    cmpres.append(row)
# cross-class comparisons inside one dataclass hierarchy
hier = []
if spec.get("hier"):
    import itertools
    def pool(ns):
        g = lambda n: ns[n]
        objs = [("HP(1)", g("HP")(1)), ("HP(2)", g("HP")(2)), ("HQ(1)", g("HQ")(1)), ("HQ(2)", g("HQ")(2)), ("HQ(1,0,5)", g("HQ")(1, 0, 5)),
                ("HR(1)", g("HR")(1)), ("HR(2)", g("HR")(2)), ("HS(1)", g("HS")(1)), ("HS(2)", g("HS")(2)), ("HT(1)", g("HT")(1)),
                ("HU(1)", g("HU")(1)), ("5", 5), ("(1,0)", (1, 0)),
                ("EP(1)", g("EP")(1)), ("EP(2)", g("EP")(2)), ("EQ(1)", g("EQ")(1)), ("EQ(1,7)", g("EQ")(1, 7)), ("ES(1)", g("ES")(1)), ("ES(2)", g("ES")(2))]
        return objs
    pc, pp = pool(cymod.__dict__), pool(pyns)
    OPS = [("eq", operator.eq), ("ne", operator.ne), ("lt", operator.lt), ("le", operator.le), ("gt", operator.gt), ("ge", operator.ge)]
    def outcome(f):
        try:
            r = f()
            if r is NotImplemented: return "ok NotImplemented"
            return "ok " + repr(r)
        except BaseException as e:
            return "err " + exc_name(e)
    def enc(v):
        return "i%d" % v if isinstance(v, int) and not isinstance(v, bool) else None
    for (na, ca), (nb, cb), (_, pa), (_, pb) in ((x[0], x[1], y[0], y[1]) for x, y in zip(itertools.product(pc, pc), itertools.product(pp, pp))):
        if na[0] != nb[0] and na[0] in "HE" and nb[0] in "HE":
            continue                      # the two hierarchies are not mixed
        if na[0] not in "HE":
            continue                      # self is always a dataclass instance
        for opn, op in OPS:
            row = {"a": na, "b": nb, "op": opn, "cy": outcome(lambda: op(ca, cb)), "py": outcome(lambda: op(pa, pb))}
            if opn != "ne":
                mname = "__%s__" % opn
                row["cym"] = outcome(lambda: getattr(type(ca), mname)(ca, cb))
                row["pym"] = outcome(lambda: getattr(type(pa), mname)(pa, pb))
                D = next((k for k in type(pa).__mro__ if mname in k.__dict__), None)
                if D is not None and dataclasses.is_dataclass(D) and D is not object:
                    tb, ta = type(pb), type(pa)
                    rel = "same" if tb is ta else ("sub" if issubclass(tb, ta) else ("super" if issubclass(ta, tb) else "unrelated"))
                    ind = isinstance(pb, D)
                    xs = ys = None
                    if ind:
                        names_ = [f.name for f in dataclasses.fields(D) if f.compare]
                        xs = [enc(getattr(pa, n)) for n in names_]
                        ys = [enc(getattr(pb, n)) for n in names_]
                        if None in xs or None in ys:
                            xs = ys = None
                    row.update({"rel": rel, "inDef": ind, "xs": xs if xs is not None else ["i0"], "ys": ys if ys is not None else ["i0"],
                                "model_ok": (xs is not None) or not ind})
            if opn == "eq":
                def hc(a, b):
                    try:
                        if (a == b) is True:
                            return hash(a) == hash(b)
                    except TypeError:
                        return "unhashable"
                    return None
                row["cy_hash_consistent"] = repr(hc(ca, cb))
                row["py_hash_consistent"] = repr(hc(pa, pb))
            hier.append(row)
print("RESULT " + json.dumps({"classes": out, "cmp": cmpres, "hier": hier}))
'''


# ------------------------------------------------------------------ comparison helpers
COMPONENTS = {"F": "fields", "I": "init", "R": "repr", "E": "eq", "O": "order", "C": "cmp-fields", "H": "hash", "M": "match-args", "Z": "frozen"}
DEV_KEYS = ["kw-sentinel", "redeclare-inherited", "initvar-factory", "initvar-mutable", "field-kw-only", "base-kw-only",
            "order-without-eq", "order-clash", "frozen-inherit", "frozen-setattr", "match-args-init-false",
            "user-init-default-order", "hash-none-user-eq", "hash-compare-false"]
# run-time components a deviation can explain (D-c); deviations where CPython rejects the class never reach D-c
RT_EXPLAINS = {"kw-sentinel": None, "redeclare-inherited": None, "base-kw-only": {"ctor", "match_args"},
               "match-args-init-false": {"match_args"}, "hash-compare-false": {"hash"}, "hash-none-user-eq": {"hash"}}


def same_outcome(a, b):
    if a.startswith("err") and b.startswith("err"):
        return True
    return a == b


def diff_components(a, b):
    if a.startswith("err") or b.startswith("err") or not a.startswith("ok ") or not b.startswith("ok "):
        return ["acceptance"]
    ta, tb = a.split(" ")[1:], b.split(" ")[1:]
    return [COMPONENTS.get(x[0], x[0]) for x, y in zip(ta, tb) if x != y] or ["shape"]


def cap(s, n=300):
    s = str(s)
    return s if len(s) <= n else s[:n] + "…"


def parse_base(out):
    """'ok F[...] ... Zb' -> (frozen, [rfield tokens]) or None"""
    if not out.startswith("ok F["):
        return None
    toks = out[5:out.index("]")].split(",")
    return (out.rsplit(" Z", 1)[1] == "1", [t for t in toks if t])


PROBES = {  # index into the hand-written tail of boundary_specs() -> flag
}


def detect_variant(results):
    """results: {name: canonical impl record} of the probe specs"""
    def rejected(k, tag):
        r = results[k]
        return r.startswith("err CompileError") and tag in r
    m = re.search(r" M\[([^\]]*)\]", results["match"])
    h = re.search(r" Hg\[([^\]]*)\]", results["hashcmp"])
    flags = [bool(m) and "y" not in m.group(1).split(","),
             rejected("order_eq", "order-eq"), rejected("order_clash", "order-clash"), rejected("frozen_inherit", "frozen-inherit"),
             rejected("frozen_setattr", "frozen-setattr"), not results["field_kw"].startswith("err"),
             bool(h) and "y" not in h.group(1).split(",")]
    return "".join("1" if f else "0" for f in flags)


def probe_specs():
    def S(fields, opts=None, user=None, base=None):
        o = none_opts(); o.update(opts or {})
        u = no_user(); u.update(user or {})
        return {"opts": o, "user": u, "base": base, "fields": fields}
    BF = S([mkfield("p", typ="int")], {"frozen": True})
    return {
        "match": S([mkfield("x"), mkfield("y", dflt="v", init=False)]),
        "order_eq": S([mkfield("x")], {"order": True, "eq": False}),
        "order_clash": S([mkfield("x")], {"order": True}, {"lt": True}),
        "frozen_inherit": S([mkfield("y")], base=BF),
        "frozen_setattr": S([mkfield("x")], {"frozen": True}, {"setattr": True}),
        "field_kw": S([mkfield("x"), mkfield("y", typ="object", dflt="v", kw=True)]),
        "hashcmp": S([mkfield("x"), mkfield("y", cmp=False)], {"unsafe_hash": True}),
    }


# ------------------------------------------------------------------ decision level: tap vs model vs CPython
def decision_phase(ctx, named, var, tap):
    """named: [(cname, spec)].  Returns list of dicts (one per usable spec) with impl/oracle/model records."""
    drv = ctx.drv
    # base classes first (same model for both sides; a base that is rejected or deviates makes the case unusable)
    bases = [(cn, s) for cn, s in named if s["base"] is not None]
    bl = []
    for cn, s in bases:
        bl.append(model_line("py", var, s["base"], None))
        bl.append(model_line("cy", var, s["base"], None))
    bo = drv.batch(bl) if bl else []
    base_rf = {}
    for i, (cn, s) in enumerate(bases):
        p, c = bo[2 * i], canon_err(bo[2 * i + 1])
        brec, berrs = tap.get("B" + cn, ({}, ["missing"]))
        bimpl = tap_to_out(brec, berrs, s["base"])
        if p.startswith("ok ") and p == c == bimpl:
            base_rf[cn] = parse_base(p)
        else:
            base_rf[cn] = "unusable"
    lines, usable = [], []
    for cn, s in named:
        b = None
        if s["base"] is not None:
            b = base_rf[cn]
            if b == "unusable":
                ctx.count("decision/skipped-base-rejected-or-deviating")
                continue
        for who in ("py", "cy", "hyp"):
            lines.append(model_line(who, var, s, b))
        usable.append((cn, s))
    outs = drv.batch(lines) if lines else []
    results = []
    for i, (cn, s) in enumerate(usable):
        mpy, mcy, hyp = outs[3 * i], canon_err(outs[3 * i + 1]), outs[3 * i + 2]
        rec, errs = tap.get(cn, ({}, ["missing"]))
        if "crash" in rec:
            ctx.tie_break("front end crashed", cap(rec["crash"]), {"spec": s})
            continue
        impl = tap_to_out(rec, errs, s)
        gl = tap_guards(rec)
        if gl and any(g not in GUARD_LINES for g in gl):
            ctx.tie_break("class guard of the synthesised comparison methods", "class %s: %s (modelled: other.__class__ is not self.__class__)" % (cn, cap(gl, 200)), {"spec": s, "variant": var})
        orc = py_oracle_out(s, cn)
        if orc.startswith("base-err"):
            ctx.count("decision/skipped-base-rejected-or-deviating")
            continue
        if mpy == "bad-op" or mcy == "bad-op" or not hyp.startswith("ok "):
            raise lib.Infra("model rejected a generated line: " + cap(lines[3 * i + 1]))
        hyp_ok = hyp.split(" ")[1] == "1"
        devs = [d for d in hyp.split(" ", 2)[2].strip("[]").split(",") if d]
        kind = ("reject" if orc.startswith("err") else "accept") + ("/hyp" if hyp_ok else "/dev")
        ctx.count("decision/" + kind)
        for d in devs:
            ctx.count("deviation/" + d)
        ctx.seen(("dec", lines[3 * i + 1]), nontrivial=bool(s["fields"]))
        replay = {"spec": s, "variant": var}
        r = {"cname": cn, "spec": s, "impl": impl, "orc": orc, "mpy": mpy, "mcy": mcy, "hyp_ok": hyp_ok, "devs": devs}
        results.append(r)
        if hyp_ok != (not devs):
            ctx.tie_break("Hyp vs deviations", "Hyp=%s but deviations=%s" % (hyp_ok, devs), replay)
        if mpy != orc:
            ctx.tie_break("py model vs CPython dataclasses", "differs in %s: model %s / CPython %s" % (diff_components(mpy, orc), cap(mpy, 150), cap(orc, 150)), replay)
        tie_ok = (mcy == impl)
        if not tie_ok:
            ctx.tie_break("cy model vs Dataclass.py (tap)", "differs in %s: model %s / compiler %s" % (diff_components(mcy, impl), cap(mcy, 150), cap(impl, 150)), replay)
        if hyp_ok and not same_outcome(mcy, mpy):
            ctx.tie_break("agree_partial instance", "Hyp holds but the two models differ (driver disagrees with the theorem)", replay)
        if not same_outcome(impl, orc):
            comps = diff_components(impl, orc)
            what = "Cython %s / CPython %s (differs in %s); class:\n%s" % (cap(impl, 160), cap(orc, 160), ",".join(comps), cap(render_class(s, cn, True, "B" + cn if s["base"] else None), 300))
            if tie_ok and devs:
                for d in devs:
                    ctx.violation("dev-" + d, cap(what, 390), replay)
            else:
                ctx.violation("unmodelled-" + comps[0], cap(what, 390), replay)
    return results


# ------------------------------------------------------------------ D-c phase
def _hier(deco, cdef):
    c = "cdef class" if cdef else "class"
    return ("%s(order=True)\n%s HP:\n    x: int\n    y: object = 0\n" % (deco, c)
            + "%s(order=True)\n%s HQ(HP):\n    z: object = 0\n" % (deco, c)
            + "%s(order=True)\n%s HR(HP):\n    w: object = 0\n" % (deco, c)
            + "class HS(HP): pass\nclass HT(HP): pass\nclass HU(HQ): pass\n"
            + "%s(unsafe_hash=True)\n%s EP:\n    x: int\n" % (deco, c)
            + "%s(unsafe_hash=True)\n%s EQ(EP):\n    z: object = 0\n" % (deco, c)
            + "class ES(EP): pass\n")


HIER_CY = _hier("@cython.dataclasses.dataclass", True)
HIER_PY = _hier("@dataclasses.dataclass", False)
GUARD_LINES = {"if other.__class__ is not self.__class__: return NotImplemented": "exact"}


def translate_guard(stage):
    """the class guard in the code template of generate_cmp_code -> 'exact' | 'isinstance' (Untranslatable otherwise)"""
    src = open(os.path.join(stage, "Cython", "Compiler", "Dataclass.py")).read()
    fn = _find(ast.parse(src), ast.FunctionDef, "generate_cmp_code")
    texts, parts = [], set()
    for n in ast.walk(fn):
        if isinstance(n, ast.JoinedStr):
            texts.append("".join(v.value if isinstance(v, ast.Constant) else "{}" for v in n.values))
            parts.update(id(v) for v in n.values)
    for n in ast.walk(fn):
        if isinstance(n, ast.Constant) and isinstance(n.value, str) and id(n) not in parts:
            texts.append(n.value)
    lines = sorted(set(l.strip() for t in texts for l in t.split("\n") if "NotImplemented" in l))
    if len(lines) != 1:
        raise Untranslatable("guard lines of generate_cmp_code: %r" % (lines,))
    g = lines[0]
    if g == "if other.__class__ is not self.__class__: return NotImplemented":
        return "exact", g
    if re.fullmatch(r"if not isinstance\(other, \{\}\): return NotImplemented", g):
        return "isinstance", g
    raise Untranslatable("unknown class guard %r" % g)


def tap_guards(rec):
    """guard lines (the ones answering NotImplemented) of the synthesised comparison methods of one class"""
    return sorted(set(l.strip() for l in (rec.get("code") or "").split("\n") if "NotImplemented" in l))


CMP_PROBE_CY = "".join("@cython.dataclasses.dataclass(order=True)\ncdef class CmpProbe%d:\n%s" % (k, "".join("    f%d: object\n" % i for i in range(k))) for k in (1, 2, 3))
CMP_PROBE_PY = "".join("@dataclasses.dataclass(order=True)\nclass CmpProbe%d:\n%s" % (k, "".join("    f%d: object\n" % i for i in range(k))) for k in (1, 2, 3))


def class_meta(r):
    """meta data of one class for the observer: all fields in resolved order with type / kind / unset flag"""
    s = r["spec"]
    tspec = {}
    for x in ([s["base"]] if s["base"] else []) + [s]:
        for f in x["fields"]:
            tspec[f["name"]] = f
    m = re.search(r" Id[01]:\[[^\]]*\]:\[([^\]]*)\]", r["orc"])
    srcs = dict(t.split("/") for t in m.group(1).split(",") if t) if m else {}
    fields = []
    for tok in parse_base(r["orc"])[1]:
        n, iv = tok.split("/")[0], tok.split("/")[1]
        f = tspec[n]
        fields.append({"name": n, "type": f["type"], "kind": "i" if iv == "1" else "p", "dflt": tok.split("/")[2],
                       "unset": (srcs.get(n) == "u") if m else (iv != "1")})
    return {"cname": r["cname"], "fields": fields, "user_init": s["user"]["init"], "user_hash": s["user"]["hash"] == "d",
            "frozen": r["orc"].endswith("Z1"), "no_init": (not m) and not s["user"]["init"]}


def gen_cmp_probes(rng, n):
    out = []
    pool = ["i1", "i2", "i3", "N", "n1", "n2"]
    fixed = [("eq", ["n1"], ["n1"]), ("le", ["N"], ["N"]), ("lt", ["i1", "N"], ["i1", "N"]), ("eq", ["i1", "n1"], ["i1", "n2"]),
             ("lt", ["i1", "i2"], ["i1", "i3"]), ("ge", ["i2"], ["i2"]), ("gt", ["N"], ["i1"]), ("le", ["n1", "i1"], ["n1", "i2"])]
    for op, xs, ys in fixed:
        out.append({"op": op, "xs": xs, "ys": ys})
    for _ in range(n):
        k = rng.choice([1, 2, 3])
        xs = [rng.choice(pool) for _ in range(k)]
        ys = [x if rng.random() < 0.5 else rng.choice(pool) for x in xs]
        out.append({"op": rng.choice(["eq", "lt", "le", "gt", "ge"]), "xs": xs, "ys": ys})
    return out


def dc_phase(ctx, chosen, var, per_module, cmp_n):
    """chosen: decision records accepted by both sides.  Compile, run next to CPython, compare observations."""
    mods = []
    for i in range(0, max(len(chosen), 1), per_module):
        chunk = chosen[i:i + per_module]
        named = [(r["cname"], r["spec"]) for r in chunk]
        pyx, _ = build_pyx(named)
        py = PREAMBLE_COMMON
        for cn, s in named:
            if s["base"] is not None:
                py += render_class(s["base"], "B" + cn, False)
            py += render_class(s, cn, False, "B" + cn if s["base"] else None)
        first = (i == 0)
        if first:
            pyx += CMP_PROBE_CY + HIER_CY
            py += CMP_PROBE_PY + HIER_PY
        mods.append({"name": "dcm%d" % (i // per_module), "pyx": pyx, "py": py, "chunk": chunk,
                     "cmp": gen_cmp_probes(ctx.rng, cmp_n) if first else []})
    sos = cybuild.build_many(ctx, [{"name": m["name"], "source": m["pyx"]} for m in mods])

    def run_mod(arg):
        m, so = arg
        if isinstance(so, cybuild.BuildError):
            return ("build", so)
        sp = os.path.join(ctx.scratch, "obs_%s.json" % m["name"])
        with open(sp, "w") as f:
            json.dump({"so": so, "modname": m["name"], "py_source": m["py"], "values": {k: v[4] for k, v in TYPES.items()},
                       "classes": [class_meta(r) for r in m["chunk"]], "cmp_probes": m["cmp"], "hier": bool(m["cmp"]) or m["name"] == "dcm0"}, f)
        script = os.path.join(ctx.scratch, "obschild.py")
        if not os.path.exists(script):
            with open(script, "w") as f:
                f.write(OBS_CHILD)
        p = subprocess.run([lib.PYTHON, script, sp], stdout=subprocess.PIPE, stderr=subprocess.PIPE, text=True,
                           env=lib._clean_env({"PYTHONPATH": ctx.stage}), timeout=900)
        for line in p.stdout.split("\n"):
            if line.startswith("RESULT "):
                return ("ok", json.loads(line[7:]))
        return ("crash", "rc=%s %s" % (p.returncode, (p.stderr or "")[-400:]))
    with cf.ThreadPoolExecutor(max_workers=8) as ex:
        outs = list(ex.map(run_mod, zip(mods, sos)))
    for m, (st, res) in zip(mods, outs):
        if st != "ok":
            what = "module of %d accepted classes: %s" % (len(m["chunk"]), cap(res.log if st == "build" else res, 300))
            ctx.tie_break("D-c module did not build/run (%s)" % st, what, {"specs": [r["spec"] for r in m["chunk"]], "variant": var})
            ctx.violation("rt-accepted-class-does-not-build-or-load", cap(what, 390), {"specs": [r["spec"] for r in m["chunk"]], "variant": var})
            continue
        for r in m["chunk"]:
            o = res["classes"][r["cname"]]
            cy, py = o["cy"], o["py"]
            ctx.count("runtime/class")
            replay = {"spec": r["spec"], "variant": var, "runtime": True}
            if "fatal" in py:
                raise lib.Infra("oracle observation failed: " + cap(py["fatal"]))
            model_same = same_outcome(r["mcy"], r["mpy"])
            diffs = [k for k in sorted(set(cy) | set(py)) if cy.get(k) != py.get(k)]
            ctx.seen(("rt", json.dumps(r["spec"], sort_keys=True)))
            for k in set(cy) & set(py):
                ctx.count("runtime/obs-" + k, len(cy[k]) if isinstance(cy[k], list) else 1)
            if not diffs:
                continue
            explained = set()
            for d in r["devs"]:
                if d in RT_EXPLAINS:
                    explained |= set(diffs) if RT_EXPLAINS[d] is None else RT_EXPLAINS[d]
            for k in diffs:
                what = "%s differs: Cython %s / CPython %s; class:\n%s" % (k, cap(cy.get(k), 120), cap(py.get(k), 120),
                                                                     cap(render_class(r["spec"], r["cname"], True, "B" + r["cname"] if r["spec"]["base"] else None), 260))
                u = r["spec"]["user"]
                toks = dict((t[0], t[1:]) for t in r["orc"].split(" ")[1:])
                cmp_slot = toks.get("E") == "1" or toks.get("O") != "[]" or u["eq"] or u["lt"] or u["le"] or u["gt"] or u["ge"]
                hash_slot = toks.get("H", "").startswith("g") or u["hash"] == "d"
                if k in ("eq", "order") and r["spec"]["base"] is not None and hash_slot and not cmp_slot:
                    # extension types inherit tp_richcompare and tp_hash only as a pair (CPython inherit_slots)
                    ctx.violation("rt-cdef-hash-without-eq-drops-inherited-eq", cap(what, 390), replay)
                elif k == "hash" and cy.get(k, [""])[0] == "none=True" and py.get(k, [""])[0] == "none=False" and cmp_slot \
                        and not hash_slot and toks.get("E") != "1" and not u["eq"] and u["hash"] == "a":
                    ctx.violation("rt-cdef-ordering-method-without-hash-unhashable", cap(what, 390), replay)
                elif k == "unset_read" and all(":ok " in x for x in cy.get("unset_read", ["?"])):
                    ctx.violation("rt-unset-field-read", cap(what, 390), replay)
                elif k in explained and r["devs"]:
                    for d in r["devs"]:
                        if d in RT_EXPLAINS and (RT_EXPLAINS[d] is None or k in RT_EXPLAINS[d]):
                            ctx.violation("dev-" + d, cap(what, 390), replay)
                else:
                    if model_same:
                        ctx.tie_break("run-time behaviour vs model", "models agree on this class but %s differs at run time" % k, replay)
                    ctx.violation("rt-unexplained-" + k, cap(what, 390), replay)
        # cross-class operand pairs inside one hierarchy (three-way with C30Cmp's guarded methods)
        rows = res.get("hier") or []
        if rows:
            guard = getattr(ctx, "c30_guard", "exact")
            lines = []
            idx = []
            for j, row in enumerate(rows):
                if "rel" in row and row.get("model_ok"):
                    idx.append(j)
                    for who in ("cy", "py"):
                        lines.append("C30Cmp %s %s %s %s %s %s %s" % (who, row["op"], ",".join(row["xs"]), ",".join(row["ys"]), row["rel"],
                                                                 "1" if row["inDef"] else "0", guard))
            mo = ctx.drv.batch(lines) if lines else []
            pred = {j: (mo[2 * k], mo[2 * k + 1]) for k, j in enumerate(idx)}
            for j, row in enumerate(rows):
                ctx.count("runtime/hier-%s-%s" % (row["op"], row.get("rel", "foreign")))
                ctx.seen(("hier", row["a"], row["b"], row["op"]))
                rp = {"hier": {"a": row["a"], "b": row["b"], "op": row["op"]}}
                if j in pred:
                    if row["cym"] != pred[j][0]:
                        ctx.tie_break("C30Cmp cyMethod vs compiled method", "type(%s).__%s__(%s, %s): model %s compiled %s" % (row["a"], row["op"], row["a"], row["b"], pred[j][0], row["cym"]), rp)
                    if row["pym"] != pred[j][1]:
                        ctx.tie_break("C30Cmp pyMethod vs CPython method", "type(%s).__%s__(%s, %s): model %s CPython %s" % (row["a"], row["op"], row["a"], row["b"], pred[j][1], row["pym"]), rp)
                if row["cy"] != row["py"] or row.get("cym") != row.get("pym"):
                    ctx.violation("rt-cross-class-comparison", "%s %s %s (classes: %s): Cython %s [method: %s] / CPython %s [method: %s]" % (
                        row["a"], row["op"], row["b"], row.get("rel", "foreign operand"), row["cy"], row.get("cym"), row["py"], row.get("pym")), rp)
                if row.get("cy_hash_consistent") != row.get("py_hash_consistent") or row.get("cy_hash_consistent") == "False":
                    ctx.violation("rt-cross-class-hash-eq-inconsistent", "%s == %s and hashes: Cython consistent=%s / CPython consistent=%s" % (
                        row["a"], row["b"], row.get("cy_hash_consistent"), row.get("py_hash_consistent")), rp)
        # comparison probes (three-way with C30Cmp)
        if m["cmp"]:
            lines = []
            for pr in m["cmp"]:
                for who in ("cy", "py"):
                    lines.append("C30Cmp %s %s %s %s" % (who, pr["op"], ",".join(pr["xs"]), ",".join(pr["ys"])))
            mo = ctx.drv.batch(lines)
            for j, (pr, row) in enumerate(zip(m["cmp"], res["cmp"])):
                mcy, mpy = mo[2 * j], mo[2 * j + 1]
                ctx.count("runtime/cmp-" + pr["op"])
                ctx.seen(("cmp", pr["op"], tuple(pr["xs"]), tuple(pr["ys"])))
                rp = {"cmp_probe": pr}
                if row["cy"] != mcy:
                    ctx.tie_break("C30Cmp cy model vs compiled __%s__" % pr["op"], "%r: model %s compiled %s" % (pr, mcy, row["cy"]), rp)
                if row["py"] != mpy:
                    ctx.tie_break("C30Cmp py model vs CPython dataclass", "%r: model %s CPython %s" % (pr, mpy, row["py"]), rp)
                if row["cy"] != row["py"]:
                    pairs = list(zip(pr["xs"], pr["ys"]))
                    nanid = any(x == y and x.startswith("n") for x, y in pairs)
                    nonepair = any(x == y == "N" for x, y in pairs)
                    what = "CmpProbe%d(%s) %s CmpProbe%d(%s): Cython %s / CPython %s" % (len(pairs), ",".join(pr["xs"]), pr["op"], len(pairs), ",".join(pr["ys"]), row["cy"], row["py"])
                    if nanid and row["cy"] == mcy:
                        ctx.violation("rt-cmp-same-nan-object", what, rp)
                    elif nonepair and pr["op"] != "eq" and row["cy"] == mcy:
                        ctx.violation("rt-order-equal-unorderable-values", what, rp)
                    else:
                        ctx.violation("rt-unexplained-comparison", what, rp)


# ------------------------------------------------------------------ entry point
def run(ctx):
    ctx.rule = ("(G) hash decision tree of generate_hash_code, dataclass option defaults and field() defaults extracted from the current Dataclass.py, "
                "kernel-checked against CPython's _hash_action / defaults; (T) generated @dataclass cdef classes (all 256 option combinations, all hash-table rows x "
                "__hash__/__eq__ definitions, hand-written corner cases, then random: 0-5 fields of int/cython.int/cython.double/str/object, default/default_factory/"
                "init/repr/hash/compare/kw_only options, InitVar/ClassVar/KW_ONLY, user-defined methods, a dataclass base) compiled by the staged front end with a tap on the "
                "synthesised method text, compared with the Lean model and with the SAME class built by CPython's dataclasses (class-creation error, inspect.signature, behaviour); "
                "(D-c) accepted classes compiled with gcc and run next to the CPython class: constructor probes, repr, ==/ordering matrices, hash, frozen assignment, "
                "factory freshness, __match_args__, fields()/asdict()/astuple()/replace(); comparison probes with NaN/None. non-trivial = a class with at least one field")
    ctx.explanation = ("Theorems: agree_partial (every repair variant, every regenerated parameter set passing WF, every class specification admitted by Hyp: same rejection or identical "
                       "decision record), the per-list structural theorems, hash_agree_partial over the whole option space, cmp_agree_partial (if-chain = tuple comparison on sane values). "
                       "NOT covered by a theorem: that the emitted method text is compiled to code with that meaning (parser, type coercion of typed fields, critical sections, the "
                       "recursive-repr guard), the Dataclasses.c helper that filters keyword arguments by inspect.getfullargspec, __dataclass_fields__ types/metadata, slots/weakref_slot, "
                       "fields of C types that cannot become Python objects (private fields), base classes from other modules; those are only exercised by the differential run.")
    ctx.assumptions = ["a dataclass base is described by its resolved fields and its frozen flag (one level; the base itself is checked as a class of its own)",
                       "field names are distinct identifiers; ClassVar fields carry no field() options"]
    ctx.extra_trusted = ["the tap parser (harness) that turns the synthesised method text into a decision record",
                         "the behavioural probes that recover CPython's decisions from the finished class"]
    rng = ctx.rng
    # ---------------- (G) regenerated parameters
    try:
        lean_term, echo = translate_params(ctx.stage)
        ctx.notes["regenerated"] = echo
        ctx.lean_obligation("Params.WF(current Dataclass.py)",
                            "import CyVerif.Model.C30\nopen CyVerif.C30 in\nexample : %s.WF := by decide\n" % lean_term,
                            "hash decision tree = CPython _hash_action on all 16 rows; dataclass()/field() option defaults = CPython's")
        ctx.count("regenerated-params")
    except Untranslatable as e:
        ctx.obligation("translator: Dataclass.py -> Params", False, "cannot translate any more: %s" % e)
        ctx.budget_scale = 2.0
    try:
        ctx.c30_guard, gline = translate_guard(ctx.stage)
        ctx.notes["cmp_guard"] = gline
        ctx.lean_obligation("GuardWF(current generate_cmp_code)",
                            "import CyVerif.Model.C30Cmp\nexample : CyVerif.C30Cmp.GuardWF .%s := by decide\n" % ctx.c30_guard,
                            "the class guard of the synthesised comparison methods passes exactly same-class operands: " + gline)
    except Untranslatable as e:
        ctx.c30_guard = "exact"
        ctx.obligation("translator: class guard of generate_cmp_code", False, "cannot translate any more: %s" % e)
    if any(not o["ok"] for o in ctx.obligations):
        ctx.budget_scale = 2.0
    # ---------------- specs
    replay = ctx.replay_case.get("case", ctx.replay_case) if ctx.replay_case else None
    probes = probe_specs()
    named = [("P_" + k, s) for k, s in probes.items()]
    if replay and "spec" in replay:
        named.append(("R0", replay["spec"]))
    elif replay and "specs" in replay:
        named += [("R%d" % i, s) for i, s in enumerate(replay["specs"])]
    else:
        named += [("K%d" % i, s) for i, s in enumerate(boundary_specs())]
        named += [("G%d" % i, gen_spec(rng)) for i in range(ctx.n(160, 2600))]
    tap = run_tap(ctx, named, per_module=32 if ctx.quick else 48, workers=16)
    impl_probe = {}
    for k, s in probes.items():
        rec, errs = tap["P_" + k]
        impl_probe[k] = tap_to_out(rec, errs, s)
    var = detect_variant(impl_probe)
    ctx.notes["variant"] = dict(zip(VAR_NAMES, var))
    results = decision_phase(ctx, named, var, tap)
    for r in results[:3]:
        ctx.sample({"class": cap(render_class(r["spec"], r["cname"], True, "B" + r["cname"] if r["spec"]["base"] else None), 200),
                    "compiler": cap(r["impl"], 200), "CPython": cap(r["orc"], 200)})
    # ---------------- (D-c)
    # (a user __setattr__/__delattr__ only matters for the frozen clash decision; at run time a cdef class cannot delegate to
    #  object.__setattr__ and assigns its own attributes directly, which is not dataclass behaviour)
    ok_both = [r for r in results if r["impl"].startswith("ok ") and r["orc"].startswith("ok ")
               and not r["spec"]["user"]["setattr"] and not r["spec"]["user"]["delattr"]]
    ok_both.sort(key=lambda r: r["impl"] == r["mcy"])       # classes on which the tie is broken go first
    if replay and ("spec" in replay or "specs" in replay):
        chosen = [r for r in ok_both if r["cname"].startswith("R")]
    else:
        wit = [r for r in ok_both if r["cname"].startswith("K") and int(r["cname"][1:]) >= 256 + 48]
        pool = [r for r in ok_both if r["cname"].startswith("G")]
        rng.shuffle(pool)
        dev = [r for r in pool if r["devs"]][:ctx.n(4, 40)]
        good = [r for r in pool if not r["devs"] and r["spec"]["fields"]][:ctx.n(14, 170)]
        opt = [r for r in ok_both if r["cname"].startswith("K") and int(r["cname"][1:]) < 256]
        rng.shuffle(opt)
        broken = [r for r in ok_both if r["impl"] != r["mcy"]][:ctx.n(10, 40)]
        chosen = broken + [r for r in wit + opt[:ctx.n(6, 40)] + dev + good if r["impl"] == r["mcy"]]
    cmp_n = 0 if (replay and "cmp_probe" not in replay and ("spec" in replay or "specs" in replay)) else ctx.n(60, 600)
    if chosen or cmp_n:
        if not chosen:
            chosen = [r for r in ok_both if r["cname"] == "P_match"][:1] or ok_both[:1]
        dc_phase(ctx, chosen, var, per_module=8 if ctx.quick else 12, cmp_n=cmp_n)
    if replay and "cmp_probe" in replay:
        ctx.notes["replayed_cmp_probe"] = replay["cmp_probe"]

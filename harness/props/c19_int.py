"""C19 part 5: `PyObjectCompare` on int / float objects (`__Pyx_PyObject_CompareIntInt`, `…IntFloat`, `…FloatInt`,
float/float) for untyped and `int` / `float`-typed operands.  Three-way for exact ints (compiled, Lean model
`C19 intcmp`, CPython); floats, bools and int subclasses: compiled vs CPython."""
import cybuild
import lib

CAP = 300
OPS = [("lt", "<"), ("le", "<="), ("eq", "=="), ("ne", "!="), ("gt", ">"), ("ge", ">=")]


def cap(s, n=CAP):
    s = str(s)
    return s if len(s) <= n else s[:n] + "..."


def module_source(py=False):
    """pure-Python-mode source (.py): `a: int` declares a Python int object (in a .pyx `int a` would be a C int)"""
    A = (lambda t: "") if py else (lambda t: ": " + t)      # noqa: E731
    six = "(" + ", ".join("a %s b" % o for _, o in OPS) + ")"
    sixb = "(" + ", ".join("(1 if a %s b else 0)" % o for _, o in OPS) + ")"
    L = ["class MyInt(int):\n    def __lt__(self, o): return 'lt'\n    def __eq__(self, o): return 'eq'\n    def __ge__(self, o): return []\n    __hash__ = int.__hash__\n",
         "class SubInt(int):\n    pass\n",
         "def mk(kind, v):\n    return MyInt(v) if kind == 'my' else (SubInt(v) if kind == 'sub' else v)\n"]
    for pre, ta, tb in (("oo", "", ""), ("ii", "int", "int"), ("io", "int", ""), ("oi", "", "int")):
        sa = A(ta) if ta else ""
        sb = A(tb) if tb else ""
        L.append("def %s_val(a%s, b%s): return %s" % (pre, sa, sb, six))
        L.append("def %s_truth(a%s, b%s): return %s" % (pre, sa, sb, sixb))
    for pre, t in (("oo", ""), ("ii", "int")):
        s = A(t) if t else ""
        L.append("def %s_chain(a%s, b%s, c%s): return (a < b <= c, a == b != c, a >= b > c, (1 if a <= b < c else 0))" % (pre, s, s, s))
        L.append("def %s_elif(a%s, b%s):\n    if a == b:\n        return 0\n    elif a < b:\n        return -1\n    elif a > b:\n        return 1\n    return 2" % (pre, s, s))
    return "\n".join(L) + "\n"


def digits_be(v):
    v = abs(v)
    ds = []
    while v:
        ds.append(v & ((1 << 30) - 1))
        v >>= 30
    return ".".join(str(d) for d in reversed(ds)) or "-"


def gen_pairs(rng, n):
    B = 1 << 30
    singles = [0, 1, -1, 2, -2, B - 1, B, B + 1, -B, -B + 1, -B - 1]
    for k in (2, 3, 4, 10):
        for d in (-1, 0, 1):
            singles += [B ** k + d, -(B ** k) + d]
    singles += [(1 << 63) - 1, 1 << 63, -(1 << 63), (1 << 64) - 1, 1 << 64]
    pairs = [(a, b) for a in singles for b in singles if rng.random() < 0.35 or a == b or abs(abs(a) - abs(b)) <= 2]
    # equal in all but ONE digit position (every position, incl. least / most significant), both signs
    for nd in (1, 2, 3, 4, 5, 11):
        base = [rng.randrange(1, B - 1) for _ in range(nd)]
        val = lambda ds: sum(d << (30 * i) for i, d in enumerate(ds))      # noqa: E731
        for j in range(nd):
            for delta in (1, -1):
                other = list(base)
                other[j] += delta
                for sa, sb in ((1, 1), (-1, -1), (1, -1)):
                    pairs.append((sa * val(base), sb * val(other)))
                    pairs.append((sb * val(other), sa * val(base)))
        pairs.append((val(base), val(base)))
        pairs.append((-val(base), -val(base)))
        pairs.append((val(base), val(base[:-1]) if nd > 1 else 0))       # different digit count, same sign
        pairs.append((-val(base), -(val(base[:-1]) if nd > 1 else 0)))
    for _ in range(n):
        nd = rng.choice([1, 2, 3, 3, 4, 6])
        a = rng.randrange(B ** (nd - 1), B ** nd) * rng.choice([1, -1])
        r = rng.random()
        b = a if r < 0.15 else (a + rng.choice([-1, 1]) * (1 << (30 * rng.randrange(nd))) if r < 0.6
                                else rng.randrange(B ** (nd - 1), B ** nd) * rng.choice([1, -1]))
        pairs.append((a, b))
    return pairs


def b2(v):
    return "bool:True" if v == "1" else "bool:False"


def canon_py(v):
    if isinstance(v, tuple):
        return "tuple:[" + ";".join(canon_py(x) for x in v) + "]"
    if isinstance(v, float):
        return "float:" + (v.hex() if v == v and v not in (float("inf"), float("-inf")) else repr(v))
    return type(v).__name__ + ":" + repr(v)


def run(ctx, info):
    rng = ctx.rng
    try:
        so = cybuild.build_module(ctx, "c19int", module_source(), ext=".py")
    except cybuild.BuildError as e:
        ctx.tie_break("D-c build of the int/float comparison module", e.stage + ": " + cap(e.log[-500:], 300), {})
        return
    pyns = {}
    exec(compile(module_source(True), "c19int_oracle.py", "exec"), pyns)
    cases, metas, mlines = [], [], []
    rp = ctx.replay_case["case"] if ctx.replay_case and ctx.replay_case.get("case", {}).get("part") == "int" else None
    pairs = [tuple(rp["pair"])] if rp and "pair" in rp else gen_pairs(rng, ctx.n(150, 3000))
    for a, b in pairs:
        ml = ["C19 intcmp %s %d %s %d %s" % (op, a < 0, digits_be(a), b < 0, digits_be(b)) for op, _ in OPS]
        for pre in ("oo", "ii", "io", "oi"):
            if pre != "oo" and rng.random() < 0.5 and not rp:
                continue
            for ctxk in ("val", "truth"):
                cases.append(("%s_%s" % (pre, ctxk), "(%d, %d)" % (a, b)))
                metas.append(((a, b), "int-compare", len(mlines), ctxk))
        mlines += ml
    # chains / if-elif on triples built from the pairs
    for a, b in pairs[::3]:
        c = rng.choice([a, b, a + 1, b - 1, -a])
        for pre in ("oo", "ii"):
            cases.append((pre + "_chain", "(%d, %d, %d)" % (a, b, c)))
            metas.append(((a, b, c), "int-compare-chain", None, None))
            cases.append((pre + "_elif", "(%d, %d)" % (a, b)))
            metas.append(((a, b), "int-compare-elif", None, None))
    # bools and int subclasses must not take the exact-int path; floats: all siblings
    specials = ["True", "False", "mod.mk('my', 5)", "mod.mk('sub', 5)", "mod.mk('sub', 2**60 + 1)", "mod.mk('my', 2**60)", "5", "2**60", "2**60 + 1", "0", "1"]
    for a in specials:
        for b in specials:
            cases.append(("oo_val", "(%s, %s)" % (a, b)))
            metas.append(((a, b), "int-subclass-compare", None, None))
            cases.append(("oo_truth", "(%s, %s)" % (a, b)))
            metas.append(((a, b), "int-subclass-compare", None, None))
    fl = ["0.0", "-0.0", "1.0", "-1.0", "0.5", "2.5", "float('inf')", "float('-inf')", "float('nan')", "2.0**53", "2.0**53 + 2", "-2.0**53",
          "2.0**30", "2.0**60", "2.0**62", "-2.0**62", "2.0**63", "1e300", "-1e300", "1073741824.5", "4611686018427387904.0"]
    it = ["0", "1", "-1", "2**30", "2**30 - 1", "-2**30", "2**53", "2**53 + 1", "-2**53 - 1", "2**60", "2**62", "-2**62", "2**62 + 1", "2**63", "2**64",
          "2**1024", "-2**1024", "10**300", "1073741824", "4611686018427387904", "4611686018427387905"]
    for _ in range(ctx.n(120, 1200)):
        f1, f2, i1 = rng.choice(fl), rng.choice(fl), rng.choice(it)
        for fn, args in (("oo", (f1, f2)), ("io", (i1, f1)), ("oi", (f1, i1)), ("oo", (i1, f1)), ("oo", (f1, i1)),
                         ("oo", (rng.choice(fl + it), rng.choice(fl + it)))):
            k = rng.choice(["val", "truth"])
            cases.append(("%s_%s" % (fn, k), "(%s, %s)" % args))
            metas.append((args, "float-compare", None, None))
    outs = cybuild.run_cases(ctx, so, cases)
    mout = ctx.drv.batch(mlines) if mlines else []
    env = dict(pyns)
    env["mod"] = type("M", (), {"mk": staticmethod(pyns["mk"])})
    for (fn, argsrc), (args, key, mi, ctxk), out in zip(cases, metas, outs):
        try:
            oracle = "ok " + canon_py(pyns[fn](*eval(argsrc, env)))
        except Exception as e:      # noqa: B902
            oracle = "err " + type(e).__name__
        ctx.count("int/" + key + "/" + fn)
        ctx.seen((fn, argsrc))
        rj = {"part": "int", "func": fn, "args": cap(argsrc, 250), "compiled": cap(out), "cpython": cap(oracle)}
        if key == "int-compare":
            rj["pair"] = list(args)
        exp = None
        if mi is not None:
            ans = mout[mi:mi + 6]
            if not all(a.startswith("ok ") for a in ans):
                raise lib.Infra("model line rejected: " + cap(ans, 200))
            bits = [a[3:] for a in ans]
            exp = "ok tuple:[" + ";".join((b2(x) if ctxk == "val" else "int:%d" % int(x)) for x in bits) + "]"
        if out != oracle:
            ctx.violation(key + ("-unexplained" if exp is not None and exp != out else ""),
                          "%s%s: compiled %s, CPython %s" % (fn, cap(argsrc, 130), cap(out, 110), cap(oracle, 110)), rj)
        if exp is not None and exp != out:
            ctx.tie_break("D-c %s vs CyVerif.C19.compareIntInt" % fn, "%s%s: compiled %s, model %s" % (fn, cap(argsrc, 130), cap(out, 100), cap(exp, 100)), rj)
    if cases:
        ctx.sample({"int_case": cap(cases[len(cases) // 7], 200), "outcome": cap(outs[len(cases) // 7], 160)})

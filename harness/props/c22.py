"""C22 — exception handling: compiled code (Cython protocol) vs CPython vs the two Lean interpreters.

Programs of the mini-language of lean/CyVerif/Model/C22.lean are generated as trees, printed (a) as prefix tokens
for the Lean driver and (b) as Python source (one function per program, `s` = selector vector).  The same module text
is compiled with the staged compiler (implementation) and executed by CPython (oracle).  Compared per case:
outcome / propagating exception, event log (blocks, `sys.exc_info()` probes with a heap snapshot of every
`__context__`/`__cause__`/`__suppress_context__`), `sys.exc_info()` after the call, final heap."""
import json
import os
import re
import subprocess
import sys

import lib
import cybuild

HERE = os.path.dirname(os.path.abspath(__file__))

# ---------------------------------------------------------------------------------------------------------
# trees:  ("sk",) ("sq",a,b) ("lg",k) ("pr",) ("ri",c,k,cause) ("rn",c,cls) ("rr",c) ("rt",c) ("bk",c) ("ct",c)
#         ("te",body,[(pat,asn,body)...],els) ("tf",body,fin) ("wi",er,ex,body) ("lp",n,body)
# c: None or selector index; cause: "-" | "N" | j; pat: None or class index (9 = Exception); ex: "F" | "T" | k


def o2s(x):
    return "-" if x is None else str(x)


def toks(t):
    k = t[0]
    if k in ("sk", "pr"):
        return [k]
    if k == "sq":
        return ["sq"] + toks(t[1]) + toks(t[2])
    if k == "lg":
        return ["lg", str(t[1])]
    if k == "ri":
        return ["ri", o2s(t[1]), str(t[2]), str(t[3])]
    if k == "rn":
        return ["rn", o2s(t[1]), str(t[2])]
    if k in ("rr", "rt", "bk", "ct"):
        return [k, o2s(t[1])]
    if k == "te":
        out = ["te"] + toks(t[1])
        for pat, asn, body in t[2]:
            out += ["hc", o2s(pat), "1" if asn else "0"] + toks(body)
        return out + ["hn"] + toks(t[3])
    if k == "tf":
        return ["tf"] + toks(t[1]) + toks(t[2])
    if k == "wi":
        return ["wi", o2s(t[1]), str(t[2])] + toks(t[3])
    if k == "lp":
        return ["lp", str(t[1])] + toks(t[2])
    raise ValueError(k)


def is_skip(t):
    return t[0] == "sk" or (t[0] == "sq" and is_skip(t[1]) and is_skip(t[2]))


def pysrc(t, ind, patstyle):
    """list of source lines; patstyle: 0 local alias names (simple match path), 1 module globals (fetch/restore path)"""
    p = "    " * ind
    k = t[0]

    def guard(c, stmt):
        return [p + stmt] if c is None else [p + "if s[%d]: %s" % (c, stmt)]
    if k == "sk":
        return [p + "pass"]
    if k == "sq":
        return pysrc(t[1], ind, patstyle) + pysrc(t[2], ind, patstyle)
    if k == "lg":
        return [p + "w.log(%d)" % t[1]]
    if k == "pr":
        return [p + "w.probe(locals().get('n'))"]
    if k == "ri":
        ca = "" if t[3] == "-" else " from None" if t[3] == "N" else " from X[%d]" % t[3]
        return guard(t[1], "raise X[%d]%s" % (t[2], ca))
    if k == "rn":
        return guard(t[1], "raise %s" % clsname(t[2], patstyle))
    if k == "rr":
        return guard(t[1], "raise")
    if k == "rt":
        return guard(t[1], "return 7")
    if k == "bk":
        return guard(t[1], "break")
    if k == "ct":
        return guard(t[1], "continue")
    if k == "te":
        out = [p + "try:"] + pysrc(t[1], ind + 1, patstyle)
        for pat, asn, body in t[2]:
            h = "except" if pat is None else "except %s" % clsname(pat, patstyle)
            if asn:
                h += " as n"
            out += [p + h + ":"] + pysrc(body, ind + 1, patstyle)
        if not is_skip(t[3]):
            out += [p + "else:"] + pysrc(t[3], ind + 1, patstyle)
        return out
    if k == "tf":
        return [p + "try:"] + pysrc(t[1], ind + 1, patstyle) + [p + "finally:"] + pysrc(t[2], ind + 1, patstyle)
    if k == "wi":
        ex = repr(t[2]) if isinstance(t[2], str) else str(t[2])
        return [p + "with w.cm(%s, %s):" % (t[1], ex)] + pysrc(t[3], ind + 1, patstyle)
    if k == "lp":
        return [p + "for _i in range(%d):" % t[1]] + pysrc(t[2], ind + 1, patstyle)
    raise ValueError(k)


def clsname(c, patstyle):
    if c == 9:
        return "Exception"
    return ("A%d" if patstyle == 0 else "E%d") % c


def funcsrc(name, t, patstyle):
    lines = ["def %s(w, s):" % name, "    X = w.X"]
    if patstyle == 0:
        lines.append("    A0 = E0; A1 = E1; A2 = E2; A3 = E3")
    return "\n".join(lines + pysrc(t, 1, patstyle)) + "\n"


PRELUDE = "import sys\nfrom c22_rt import E0, E1, E2, E3\n\n"

# ---------------------------------------------------------------------------------------------------------
# intermediate representation + canonical form (object ids renamed: registered objects by creation order,
# runtime-created ones (RuntimeError) by first appearance; unreferenced runtime-created objects dropped)


def parse_model(line, mode):
    """model line -> IR dict (same shape as c22_rt.run)"""
    if line == "ok crash":
        return {"out": ["crash"], "slots": [], "events": [], "heap": {}}
    if not line.startswith("ok "):
        return None
    parts = line[3:].split(" | ")
    if len(parts) != 4:
        return None
    o, slots, evs, heap = parts

    def ref(x):
        return None if x == "-" else int(x)

    def heapd(txt):
        d = {}
        if txt:
            for i, e in enumerate(txt.split(",")):
                m = re.fullmatch(r"(\d+)c(-|\d+)k(-|\d+)s([01])", e)
                d[i] = [int(m.group(1)), ref(m.group(2)), ref(m.group(3)), m.group(4) == "1"]
        return d
    out = ["exc", int(o[3:])] if o.startswith("exc") else [o]
    sl = [ref(x) for x in slots.split(",")]
    if mode == 2:
        top = next((x for x in sl if x is not None), None)
        sl = [sl[0], top]
    else:
        sl = [next((x for x in sl if x is not None), None)]
    events = []
    for e in evs.split(" ") if evs else []:
        if e[0] == "L":
            events.append(["L", int(e[1:])])
        elif e[0] == "P":
            m = re.fullmatch(r"P(-|\d+)n(-|\d+)\[(.*)\]", e)
            events.append(["P", ref(m.group(1)), ref(m.group(2)), heapd(m.group(3))])
        elif e[0] == "E":
            events.append(["E", ref(e[1:])])
        elif e[0] == "X":
            m = re.fullmatch(r"X(-|\d+)t(-|\d+)", e)
            events.append(["X", ref(m.group(1)), ref(m.group(2))])
    return {"out": out, "slots": sl, "events": events, "heap": heapd(heap)}


def canon(ir):
    """canonical string of an IR"""
    if ir is None:
        return "unparsable"
    heap = {int(k): v for k, v in ir["heap"].items()}
    reg = sorted(i for i, v in heap.items() if v[0] < 100)
    name = {i: "r%d" % n for n, i in enumerate(reg)}
    disc = []

    def nm(i, snap):
        if i is None:
            return "-"
        if i not in name:
            name[i] = "d%d" % len(disc)
            disc.append(i)
        return name[i]

    def snapstr(snap):
        snap = {int(k): v for k, v in snap.items()}
        done = set()
        out = []
        pending = [i for i in reg if i in snap]
        while pending:
            i = pending.pop(0)
            if i in done or i not in snap:
                continue
            done.add(i)
            c, ctx, cau, sup = snap[i]
            out.append("%s:%d/%s/%s/%d" % (nm(i, snap), min(c, 101), nm(ctx, snap), nm(cau, snap), int(sup)))
            for j in (ctx, cau):
                if j is not None and j not in done:
                    pending.append(j)
        return ",".join(out)

    def withroots(snap, roots):
        # runtime-created roots are dumped too
        s = snapstr(snap)
        extra = []
        snap = {int(k): v for k, v in snap.items()}
        for r in roots:
            if r is not None and r in snap and snap[r][0] >= 100:
                c, ctx, cau, sup = snap[r]
                extra.append("%s:%d/%s/%s/%d" % (nm(r, snap), min(c, 101), nm(ctx, snap), nm(cau, snap), int(sup)))
        return s + ("+" + ",".join(extra) if extra else "")
    evs = []
    for e in ir["events"]:
        if e[0] == "L":
            evs.append("L%d" % e[1])
        elif e[0] == "P":
            evs.append("P%s,n%s[%s]" % (nm(e[1], e[3]), nm(e[2], e[3]), withroots(e[3], [e[1], e[2]])))
        elif e[0] == "E":
            evs.append("E%s" % nm(e[1], None))
        elif e[0] == "X":
            evs.append("X%s,%s" % (nm(e[1], None), nm(e[2], None)))
    out = ir["out"]
    o = out[0] + (nm(out[1], None) if out[0] == "exc" else "" if len(out) == 1 else str(out[1]))
    if out[0] == "crash":
        return "crash"
    roots = [out[1]] if out[0] == "exc" else []
    return "%s | %s | %s | %s" % (o, ",".join(nm(x, None) for x in ir["slots"]), " ".join(evs), withroots(heap, roots))

# ---------------------------------------------------------------------------------------------------------
# generator

NSEL = 6
NX = 3


def term(t):
    """is_terminator of RemoveUnreachableCode"""
    k = t[0]
    if k in ("ri", "rn", "rr", "rt", "bk", "ct"):
        return t[1] is None
    if k == "sq":
        return term(t[1]) or term(t[2])
    if k == "tf":
        return term(t[2])
    return False


def has_simple_handler(t):
    if not isinstance(t, tuple):
        return False
    if t[0] == "te" and any(h[2] in (("sk",), ("rt", None)) for h in t[2]):
        return True
    return any(has_simple_handler(x) for x in t[1:]) or (t[0] == "te" and any(has_simple_handler(h[2]) for h in t[2]))


def seqof(items):
    for i, x in enumerate(items):          # no unreachable statements
        if term(x):
            items = items[:i + 1]
            break
    t = items[-1]
    for x in reversed(items[:-1]):
        t = ("sq", x, t)
    return t


class Gen:
    def __init__(self, rng, avoid_ret=False):
        self.rng = rng
        self.lg = 0
        # pinned variant: `return` inside a try/finally body nested in an except clause is a separate, unmodelled
        # deviation (see D4 witnesses): not generated there
        self.avoid_ret = avoid_ret
        self.noret = False

    def cond(self, p_uncond=0.3):
        return None if self.rng.random() < p_uncond else self.rng.randrange(NSEL)

    def leaf(self, inloop, inhandler):
        r = self.rng
        x = r.random()
        if x < 0.16:
            self.lg += 1
            return ("lg", self.lg)
        if x < 0.36:
            return ("pr",)
        if x < 0.56:
            ca = r.choice(["-", "-", "-", "N", r.randrange(NX)])
            return ("ri", self.cond(), r.randrange(NX), ca)
        if x < 0.64:
            return ("rn", self.cond(), r.randrange(4))
        if x < 0.78:
            return ("rr", self.cond(0.5 if inhandler else 0.2))
        if x < 0.86:
            return ("sk",) if self.noret else ("rt", self.cond(0.2))
        if inloop and x < 0.96:
            return (r.choice(["bk", "ct"]), self.cond(0.2))
        return ("sk",)

    def block(self, d, inloop, inhandler, maxlen=3):
        n = self.rng.randint(1, maxlen)
        return seqof([self.stmt(d, inloop, inhandler) for _ in range(n)])

    def stmt(self, d, inloop, inhandler):
        r = self.rng
        if d <= 0 or r.random() < 0.3:
            return self.leaf(inloop, inhandler)
        x = r.random()
        if x < 0.42:
            body = self.block(d - 1, inloop, inhandler)
            hs = []
            nh = r.choice([1, 1, 1, 2, 2, 3])
            for i in range(nh):
                last = i == nh - 1
                pat = r.choice([0, 1, 2, 3, 9] + ([None] if last else []))
                hb = ("sk",) if r.random() < 0.08 else ("rt", None) if (r.random() < 0.04 and not self.noret) else self.block(d - 1, inloop, True)
                hs.append((pat, pat is not None and r.random() < 0.3, hb))
            els = self.block(d - 1, inloop, inhandler, 2) if r.random() < 0.25 else ("sk",)
            return ("te", body, hs, els)
        if x < 0.70:
            old = self.noret
            if inhandler and self.avoid_ret:
                self.noret = True
            body = self.block(d - 1, inloop, inhandler)
            self.noret = old
            # a finally clause that always leaves (is_terminator) changes the `can_raise` analysis of an enclosing
            # try (no error exit is emitted for it): approximated by the model, so not generated
            fin = ("pr",)
            for _ in range(6):
                cand = self.block(min(d - 1, 1), inloop, inhandler, 2)
                if not term(cand):
                    fin = cand
                    break
            return ("tf", body, fin)
        if x < 0.85:
            er = r.randrange(NX) if r.random() < 0.1 else None
            ex = r.choice(["F", "F", "T", r.randrange(NX)])
            return ("wi", er, ex, self.block(d - 1, inloop, inhandler))
        return ("lp", r.choice([1, 2, 2, 3]), self.block(d - 1, True, inhandler))

    def program(self, depth=3):
        self.lg = 0
        return self.block(depth, False, False)


def size(t):
    return 1 + sum(size(x) for x in t[1:] if isinstance(x, tuple)) + (
        sum(size(h[2]) for h in t[2]) if t[0] == "te" else 0)


def csize(t):
    """rough size of the generated C (finally bodies are copied per exit)"""
    k = t[0]
    if k == "sq":
        return csize(t[1]) + csize(t[2])
    if k == "te":
        return 2 + csize(t[1]) + sum(csize(h[2]) + (3 if h[1] else 1) for h in t[2]) + csize(t[3])
    if k == "tf":
        return 2 + csize(t[1]) + 4 * csize(t[2])
    if k == "wi":
        return 6 + csize(t[3])
    if k == "lp":
        return 1 + csize(t[2])
    return 1

# ---------------------------------------------------------------------------------------------------------
# hand-written programs: every construct once, and the witnesses of the three deviations of the pinned tree

def P_(*xs):
    return seqof(list(xs))


RAISE0 = ("ri", None, 0, "-")
W_RERAISE_TWICE = ("te", RAISE0, [(9, False, P_(("te", ("rr", None), [(9, False, ("lg", 1))], ("sk",)), ("rr", None)))], ("sk",))
W_BREAK_AFTER_RERAISE = ("lp", 1, ("te", RAISE0, [(9, False, P_(("te", ("rr", None), [(9, False, ("lg", 1))], ("sk",)),
                                                              ("bk", None)))], ("sk",)))
W_STALE_SLOT = P_(("te", RAISE0, [(9, False, ("pr",))], ("sk",)), ("pr",))
W_FIN_RERAISE_TWICE = ("tf", RAISE0, P_(("te", ("rr", None), [(9, False, ("lg", 1))], ("sk",)), ("lg", 2)))

FIXED = [
    W_RERAISE_TWICE, W_BREAK_AFTER_RERAISE, W_STALE_SLOT, W_FIN_RERAISE_TWICE,
    P_(("pr",), ("rr", 0), ("lg", 1)),
    ("te", P_(("pr",), ("ri", 0, 1, "-"), ("lg", 1)), [(1, True, P_(("pr",), ("ri", 1, 2, "-"), ("rr", 2))), (None, False, ("pr",))],
     P_(("lg", 2), ("ri", 3, 0, "N"))),
    ("te", ("ri", None, 0, "-"), [(9, True, P_(("pr",), ("ri", None, 0, "-")))], ("sk",)),            # self re-raise: no context
    ("te", ("ri", None, 0, "-"), [(9, False, ("te", ("ri", None, 1, "-"), [(9, False, P_(("pr",), ("ri", None, 0, "-")))], ("sk",)))], ("sk",)),  # cycle avoidance
    ("te", ("ri", None, 0, 1), [(9, False, P_(("pr",), ("ri", 0, 2, "N"), ("ri", None, 1, 0)))], ("sk",)),
    ("tf", P_(("lg", 1), ("ri", 0, 0, "-")), P_(("pr",), ("ri", 1, 1, "-"), ("rt", 2), ("lg", 2))),
    ("lp", 3, ("tf", P_(("ri", 0, 0, "-"), ("pr",)), P_(("pr",), ("ct", 1), ("bk", 2), ("lg", 3)))),
    ("lp", 2, ("te", ("ri", None, 1, "-"), [(9, True, P_(("pr",), ("ct", 0), ("bk", 1), ("rt", 2)))], ("sk",))),
    ("wi", None, "T", P_(("pr",), ("ri", 0, 0, "-"), ("lg", 1))),
    ("wi", None, "F", P_(("pr",), ("ri", 0, 0, "-"), ("rt", 1))),
    ("wi", None, 2, P_(("ri", 0, 0, "-"), ("lg", 1))),
    ("wi", 1, "F", ("lg", 1)),
    ("lp", 2, ("wi", None, "F", P_(("bk", 0), ("ct", 1), ("ri", 2, 0, "-")))),
    ("te", ("rn", None, 1), [(0, True, P_(("pr",), ("rn", 0, 3), ("rr", None)))], ("sk",)),
    ("te", ("ri", None, 0, "-"), [(9, False, ("sk",))], ("sk",)),
    ("te", ("ri", None, 0, "-"), [(9, False, ("rt", None))], ("sk",)),
    ("te", ("ri", None, 0, "-"), [(9, False, ("tf", ("rr", None), ("pr",)))], ("sk",)),
    ("te", ("ri", None, 0, "-"), [(9, True, ("tf", ("ri", None, 1, "-"), P_(("pr",), ("rr", 0), ("rt", 1))))], ("sk",)),
    ("te", ("tf", ("ri", None, 0, "-"), ("te", ("ri", None, 1, "-"), [(9, False, ("pr",))], ("sk",))), [(9, False, ("pr",))], ("sk",)),
]


# D4: `return` inside try/finally inside an except clause releases the clause's temporaries before the finally copy
# runs (not modelled; compared against CPython only)
D4 = [
    ("te", RAISE0, [(9, False, ("tf", ("rt", None), ("rt", None)))], ("sk",)),
    ("te", RAISE0, [(9, False, ("tf", ("rt", None), ("rr", None)))], ("sk",)),
    ("lp", 2, ("te", RAISE0, [(9, False, ("tf", ("rt", None), ("bk", None)))], ("sk",))),
]
D4KEYS = {"exc-info-after-genframe": "exc-info-stale-in-generator-frame",
          "crash": "return-in-except-then-finally-exit-crash",
          "outcome-SystemError": "return-in-except-then-finally-reraise-systemerror"}


def detect_variant(ctx):
    """which source variant is staged (reraiseClears, saveTopmost); pinned tree = (1, 1)"""
    nodes = open(os.path.join(ctx.stage, "Cython", "Compiler", "Nodes.py")).read()
    m = re.search(r"class ReraiseStatNode\(.*?\n(?=class )", nodes, re.S)
    body = m.group(0) if m else ""
    clears = bool(re.search(r"\{varname\} = 0;|%s = 0;", body)) or not body
    exc = open(os.path.join(ctx.stage, "Cython", "Utility", "Exceptions.c")).read()
    m = re.search(r"__Pyx__ExceptionSave\(PyThreadState \*tstate.*?\n}\n", exc, re.S)
    fn = m.group(0) if m else ""
    br = fn.split("#elif")[0]
    topmost = ("__Pyx_PyErr_GetTopmostException" in br) or not fn
    return (1 if clears else 0, 1 if topmost else 0)


def module_source(progs, patstyles):
    src = PRELUDE
    for i, (t, ps) in enumerate(zip(progs, patstyles)):
        src += funcsrc("f%d" % i, t, ps) + "\n"
    src += "FUNCS = [%s]\n" % ", ".join("f%d" % i for i in range(len(progs)))
    src += ("def R(i, classes, s, mode, j):\n    import c22_rt, json\n"
            "    return json.dumps(c22_rt.run(FUNCS[i], classes, s, mode, j))\n")
    return src


def selvectors(rng, t, k):
    out = ["0" * NSEL, "1" * NSEL]
    for i in range(NSEL):
        out.append("0" * i + "1" + "0" * (NSEL - 1 - i))
    while len(out) < k + 8:
        out.append("".join(rng.choice("01") for _ in range(NSEL)))
    seen = []
    for s in out:
        if s not in seen:
            seen.append(s)
    return seen[:max(k, 2)]


def py_leg(ctx, name, src, cases):
    """oracle: the same module text executed by CPython"""
    d = os.path.join(ctx.scratch, "py_" + name)
    os.makedirs(d, exist_ok=True)
    path = os.path.join(d, name + ".py")
    with open(path, "w") as f:
        f.write(src)
    return cybuild.run_cases(ctx, path, cases, modname=name, env_extra={"PYTHONPATH": ctx.stage + ":" + HERE})


def decode(o):
    import ast
    if o.startswith("ok str:"):
        try:
            return json.loads(ast.literal_eval(o[7:]))
        except Exception:
            return None
    if o.startswith("crash"):
        return {"out": ["crash"], "slots": [], "events": [], "heap": {}}
    return None


def classify(ci, co, mode):
    a, b = ci.split(" | "), co.split(" | ")
    if ci == "crash":
        return "crash"
    if len(a) != 4 or len(b) != 4:
        return "shape"
    if a[0] != b[0]:
        return "outcome-SystemError" if a[0] == "SystemError" else "outcome"
    if a[2] != b[2]:
        return "events"
    if a[3] != b[3]:
        return "chain"
    return "exc-info-after" + ("-genframe" if mode == 2 else "")


KNOWN = {"outcome-SystemError": "reraise-after-caught-reraise-systemerror",
         "crash": "exit-after-caught-reraise-crash",
         "exc-info-after-genframe": "exc-info-stale-in-generator-frame"}


def prepare(ctx, name, progs):
    # quiet handler lists (simple bodies) are modelled with non-failing pattern expressions (locals)
    patstyles = [0 if has_simple_handler(t) else ctx.rng.randrange(2) for t in progs]
    return {"name": name, "progs": progs, "patstyles": patstyles, "src": module_source(progs, patstyles)}


def build_all(ctx, preps):
    sos = cybuild.build_many(ctx, [{"name": p["name"], "source": p["src"], "ext": ".py"} for p in preps])
    for p, so in zip(preps, sos):
        if isinstance(so, cybuild.BuildError):
            raise lib.Infra("C22 module %s does not build (%s): %s" % (p["name"], so.stage, so.log[-1500:]))
        p["so"] = so


def run_batch(ctx, variant, prep, nsel, stats, model=True):
    rng = ctx.rng
    name, progs, patstyles, src, so = prep["name"], prep["progs"], prep["patstyles"], prep["src"], prep["so"]
    cases, meta = [], []
    for i, t in enumerate(progs):
        classes = [rng.randrange(4) for _ in range(NX)]
        for s in selvectors(rng, t, nsel):
            for mode in ((0, 1, 2) if s in ("0" * NSEL, "1" * NSEL) else (rng.choice([0, 0, 1, 2]),)):
                j = rng.randrange(NX)
                sv = "(%s,)" % ",".join("True" if c == "1" else "False" for c in s)
                cases.append(("R", "(%d, %r, %s, %d, %d)" % (i, classes, sv, mode, j)))
                meta.append((i, classes, s, mode, j))
    envx = {"PYTHONPATH": ctx.stage + ":" + HERE}
    impl = cybuild.run_cases(ctx, so, cases, modname=name, env_extra=envx)
    orac = py_leg(ctx, name, src, cases)
    lines = []
    for (i, classes, s, mode, j) in meta:
        slots = "-" if mode == 0 else str(j) if mode == 1 else "-,%d" % j
        tk = " ".join(toks(progs[i]))
        cl = "".join(map(str, classes))
        lines.append("C22 cy %d%d %s %s %s %s" % (variant[0], variant[1], s, cl, slots, tk))
        lines.append("C22 py 00 %s %s %s %s" % (s, cl, slots, tk))
    mo = ctx.drv.batch(lines)
    for n, (i, classes, s, mode, j) in enumerate(meta):
        ci, co = canon(decode(impl[n])), canon(decode(orac[n]))
        mc, mp = canon(parse_model(mo[2 * n], mode)), canon(parse_model(mo[2 * n + 1], mode))
        rep = {"program": toks(progs[i]), "source": funcsrc("f", progs[i], patstyles[i])[:1500], "classes": classes,
               "selector": s, "mode": mode, "handled": j, "impl": ci[:600], "oracle": co[:600], "model_cy": mc[:600],
               "model_py": mp[:600]}
        ctx.count("mode%d" % mode)
        ok_ = "out:" + ci.split(" | ")[0].rstrip("0123456789dr")
        ctx.dist[ok_] = ctx.dist.get(ok_, 0) + 1
        stats["cases"] += 1
        ctx.seen((tuple(toks(progs[i])), s, mode, j, tuple(classes)), nontrivial=("P" in ci or "exc" in ci))
        if not model:
            if ci != co:
                kind = classify(ci, co, mode)
                key = D4KEYS.get(kind, "unmodelled-" + kind)
                stats["dev"][key] = stats["dev"].get(key, 0) + 1
                ctx.violation(key, "compiled %s  cpython %s  [%s]" % (ci[:120], co[:120], " ".join(toks(progs[i]))[:120]), rep)
            continue
        if mp != co:
            ctx.tie_break("reference-model-vs-cpython", "py model %s  cpython %s" % (mp[:150], co[:150]), rep)
        # the model's `crash` stands for undefined behaviour (NULL handed to Py_DECREF / into the EXCINFO tuple of
        # a with statement): when the real run survives it, any behaviour is accepted as "modelled UB"
        ub = mc == "crash" and ci != "crash" and ci != co
        # `can_raise` (does a try body have an error exit?) is approximated by the model (`usesErr`); where the real
        # compiler elides ExceptionSave/Reset but the model does not, the model predicts the stale generator-frame
        # slot of finding exc-info-stale-in-generator-frame while compiled code agrees with CPython: counted, no verdict
        if (mc != ci and mode == 2 and variant[1] == 1 and ci == co
                and [x for n_, x in enumerate(mc.split(" | ")) if n_ != 1] == [x for n_, x in enumerate(ci.split(" | ")) if n_ != 1]):
            stats["dev"]["(model-only) can_raise imprecision"] = stats["dev"].get("(model-only) can_raise imprecision", 0) + 1
            continue
        if mc != ci and not ub:
            ctx.tie_break("protocol-model-vs-compiled", "cy model %s  compiled %s" % (mc[:150], ci[:150]), rep)
        if ci != co:
            kind = classify(ci, co, mode)
            key = KNOWN.get(kind) if mc == ci else None
            if ub:
                key = "lost-exception-enters-with-handler-ub"
            key = key or ("unmodelled-" + kind if mc != ci else "modelled-" + kind)
            stats["dev"][key] = stats["dev"].get(key, 0) + 1
            ctx.violation(key, "compiled %s  cpython %s  [%s sel=%s mode=%d]" % (
                ci[:120], co[:120], " ".join(toks(progs[i]))[:120], s, mode), rep)
        elif len(ctx.samples) < 8 and "P" in ci:
            ctx.sample({"program": " ".join(toks(progs[i]))[:200], "sel": s, "mode": mode, "result": ci[:200]})


def run(ctx):
    variant = detect_variant(ctx)
    ctx.notes["source_variant"] = {"reraiseClears": variant[0], "saveTopmost": variant[1]}
    ctx.rule = ("random statement trees of the mini-language (depth <= 3; try/except with 1-3 clauses, `as n`, else, "
                "try/finally, with (enter/exit scripted), loops with break/continue, return, raise instance / fresh / "
                "from / bare) x selector vectors (all-0, all-1, one-hot, random) x calling convention (plain, inside a "
                "handler, from a generator frame); non-trivial = an exception is raised or a probe is logged")
    ctx.explanation = ("no theorem covers: except* (differential only, not yet), generators crossed by yields (C23), "
                       "tracebacks, the C-level reference counting of the saved exception triples, and the emission "
                       "itself (the protocol interpreter is hand-written from Nodes.py and tied differentially)")
    stats = {"cases": 0, "dev": {}}
    if ctx.replay_case:
        rc = ctx.replay_case.get("case", ctx.replay_case)
        t = untoks(rc["program"])
        pr = prepare(ctx, "c22replay", [t])
        build_all(ctx, [pr])
        run_batch(ctx, variant, pr, 40, stats)
        return
    g = Gen(ctx.rng, avoid_ret=bool(variant[0]))
    nmod = ctx.n(4, 32)
    per = 20
    specs = []
    for m in range(nmod):
        progs = []
        while len(progs) < per:
            t = g.program(3 if ctx.rng.random() < 0.7 else 2)
            if csize(t) <= 110 and size(t) >= 4:
                progs.append(t)
        specs.append(progs)
    preps = [prepare(ctx, "c22fixed", FIXED), prepare(ctx, "c22d4", D4)] + [prepare(ctx, "c22m%d" % m, progs) for m, progs in enumerate(specs)]
    build_all(ctx, preps)
    for n, pr in enumerate(preps):
        if n == 1:
            run_batch(ctx, variant, pr, 2, stats, model=False)
        else:
            run_batch(ctx, variant, pr, 10 if n == 0 else ctx.n(6, 12), stats)
    ctx.notes["deviations_by_key"] = stats["dev"]


def untoks(tk):
    pos = [0]

    def opt(x):
        return None if x == "-" else int(x)

    def st():
        k = tk[pos[0]]
        pos[0] += 1

        def nxt():
            pos[0] += 1
            return tk[pos[0] - 1]
        if k in ("sk", "pr"):
            return (k,)
        if k == "sq":
            a = st()
            return ("sq", a, st())
        if k == "lg":
            return ("lg", int(nxt()))
        if k == "ri":
            c, kk, ca = nxt(), nxt(), nxt()
            return ("ri", opt(c), int(kk), ca if ca in "-N" else int(ca))
        if k == "rn":
            c = nxt()
            return ("rn", opt(c), int(nxt()))
        if k in ("rr", "rt", "bk", "ct"):
            return (k, opt(nxt()))
        if k == "tf":
            a = st()
            return ("tf", a, st())
        if k == "wi":
            er, ex = nxt(), nxt()
            return ("wi", opt(er), ex if ex in "FT" else int(ex), st())
        if k == "lp":
            n = int(nxt())
            return ("lp", n, st())
        if k == "te":
            b = st()
            hs = []
            while tk[pos[0]] == "hc":
                pos[0] += 1
                pat, asn = nxt(), nxt()
                hs.append((opt(pat), asn == "1", st()))
            pos[0] += 1
            return ("te", b, hs, st())
        raise ValueError(k)
    return st()

"""C03 — C-integer `//` and `%` follow Python semantics (cdivision off) / C semantics (cdivision on).

Implementation = modules compiled by the STAGED compiler + gcc: one module per (C integer type, cdivision
setting, gcc -O level) with `a // b`, `a % b` for run-time divisors, compile-time-constant divisors,
in-place forms and `nogil` blocks.  Model = CyVerif.C03 (genDiv / genMod) through cydrv.  Oracle =
CPython `//`, `%` (resp. truncation) on Python ints with a range check against the result type.

Three-way per case.  The model outcome `ub <kind>` (C undefined behaviour: MIN / -1, MIN % -1, x / 0
under cdivision) means "anything may happen" in the model-vs-implementation comparison; the ORACLE leg
still demands a value wherever the property does (MIN % -1 == 0 fits every type).
"""
import concurrent.futures as cf
import ctypes
import glob
import json
import os
import time

import cybuild
import lib

# Model parameters `Cfg.guardMinusOne` (DivInt/ModInt start with an `if (b == -1)` guard) and `Cfg.guardAllWidths`
# (DivNode.minus1_check: OverflowError guard for every signed width and for constant divisors, instead of the old
# `sizeof(T) == sizeof(long)` guard inside the zero-check block).  Both are READ FROM THE STAGED SOURCE on every run
# (detect_variant); theorems exist for all four combinations.
VARIANT = {"guardMinusOne": None, "guardAllWidths": None}
UB_SAMPLES = 2
CRASH_CAP = 6

# key, C declaration, ctypes equivalent, conversion rank (char < short < int < long < others as observed)
TYPES = [
    ("schar", "signed char", ctypes.c_byte, 0),
    ("uchar", "unsigned char", ctypes.c_ubyte, 0),
    ("short", "short", ctypes.c_short, 1),
    ("ushort", "unsigned short", ctypes.c_ushort, 1),
    ("int", "int", ctypes.c_int, 2),
    ("uint", "unsigned int", ctypes.c_uint, 2),
    ("long", "long", ctypes.c_long, 3),
    ("ulong", "unsigned long", ctypes.c_ulong, 3),
    ("llong", "long long", ctypes.c_longlong, 4),
    ("ullong", "unsigned long long", ctypes.c_ulonglong, 4),
    ("ssize", "Py_ssize_t", ctypes.c_ssize_t, 4),
    ("size", "size_t", ctypes.c_size_t, 4),
]
TYPEOF = {  # what cython.typeof() prints -> ctypes type
    "signed char": ctypes.c_byte, "unsigned char": ctypes.c_ubyte, "short": ctypes.c_short,
    "unsigned short": ctypes.c_ushort, "int": ctypes.c_int, "unsigned int": ctypes.c_uint,
    "long": ctypes.c_long, "signed long": ctypes.c_long, "signed int": ctypes.c_int, "signed short": ctypes.c_short,
    "signed long long": ctypes.c_longlong, "unsigned long": ctypes.c_ulong, "long long": ctypes.c_longlong,
    "unsigned long long": ctypes.c_ulonglong, "Py_ssize_t": ctypes.c_ssize_t, "size_t": ctypes.c_size_t,
}
WL = 8 * ctypes.sizeof(ctypes.c_long)


def ct_info(ct):
    w = 8 * ctypes.sizeof(ct)
    signed = ct(-1).value < 0
    return w, signed, (-(1 << (w - 1)) if signed else 0), ((1 << (w - 1)) - 1 if signed else (1 << w) - 1)


def expected_result_type(tkey, const):
    """Independent statement of the typing rule: usual arithmetic conversion of both operand types and `int`;
    an integer literal has type `long`."""
    d = {k: (c, r, ct) for k, c, ct, r in TYPES}
    cname, rank, ct = d[tkey]
    signed = ct_info(ct)[1]
    if const:
        if rank < 3:
            return "long"
        return cname
    if rank < 2:
        return "int"
    return cname


SMALL_CONSTS = [-1, 1, 2, -2, 3, -3, 7, -7, 10, -10, 128, -128, 2147483647, -2147483648, 0]
UNSIGNED_WIDE_CONSTS = [1, 2, 3, 7, 10, 128, 2147483647, 0]
# 64-bit constants need a literal suffix (an unsuffixed literal beyond 32 bits is a Python object in Cython)
BIG_SIGNED = [1099511627776, -1099511627777, 4611686018427387904, -4611686018427387905, 9223372036854775807,
              -9223372036854775807, -9223372036854775808, 6148914691236517205, -3074457345618258603]
BIG_UNSIGNED = [1099511627776, 9223372036854775808, 18446744073709551615, 12297829382473034410]
SUFFIX = {"long": "L", "ssize": "L", "llong": "LL", "ulong": "UL", "size": "UL", "ullong": "ULL"}


def consts_for(tkey):
    """list of (value, source text, result type if it is not the rule's) of the compile-time constant divisors"""
    d = {k: (ct, r) for k, c, ct, r in TYPES}
    ct, rank = d[tkey]
    w, signed = ct_info(ct)[:2]
    if signed or rank < 3:
        out = [(c, str(c), None) for c in SMALL_CONSTS]
    else:
        out = [(c, str(c), None) for c in UNSIGNED_WIDE_CONSTS]
    if rank >= 3 and w == 64:
        sfx = SUFFIX[tkey]
        for c in (BIG_SIGNED if signed else BIG_UNSIGNED):
            if c < 0:
                # a folded negative constant beyond 32 bits stays a C constant only with the LL suffix
                txt = "(-9223372036854775807LL - 1)" if c == -(1 << 63) else "%dLL" % c
                out.append((c, txt, "long long"))
            else:
                out.append((c, "%d%s" % (c, sfx), None))
    return out


def cname_of(tkey):
    return {k: c for k, c, ct, r in TYPES}[tkey]


def module_source(tkey, only_consts=None):
    """(source, function table).  Function table: name -> dict(op, kind, const)."""
    T = cname_of(tkey)
    RT = expected_result_type(tkey, False)
    funcs = {}
    src = ["cimport cython", ""]
    src.append("def run_batch(str fname, list avals, bvals):")
    src.append("    f = globals()[fname]")
    src.append("    out = []")
    src.append("    cdef Py_ssize_t i")
    src.append("    for i in range(len(avals)):")
    src.append("        try:")
    src.append("            if bvals is None:")
    src.append("                out.append(f(avals[i]))")
    src.append("            else:")
    src.append("                out.append(f(avals[i], bvals[i]))")
    src.append("        except Exception as e:")
    src.append("            out.append(type(e).__name__)")
    src.append("    return out")
    src.append("")
    for op, sym in (("div", "//"), ("mod", "%")):
        src += ["def %s_rt(%s a, %s b):" % (op, T, T), "    return a %s b" % sym, ""]
        funcs["%s_rt" % op] = {"op": op, "kind": "rt", "const": None}
        src += ["def ty_%s_rt():" % op, "    cdef %s a = 1, b = 1" % T, "    return cython.typeof(a %s b)" % sym, ""]
        for i, (c, ctext, rtx) in enumerate(consts_for(tkey)):
            if only_consts is not None and c not in only_consts:
                continue
            nm = "%s_c%d" % (op, i)
            src += ["def %s(%s a):" % (nm, T), "    return a %s %s" % (sym, ctext), ""]
            src += ["def ty_%s():" % nm, "    cdef %s a = 1" % T, "    return cython.typeof(a %s %s)" % (sym, ctext), ""]
            funcs[nm] = {"op": op, "kind": "const", "const": c, "rt_expect": rtx}
        # in-place form (result stored back into the operand type: only where that is the result type)
        if RT == T:
            src += ["def i%s_rt(%s a, %s b):" % (op, T, T), "    a %s= b" % sym, "    return a", ""]
            funcs["i%s_rt" % op] = {"op": op, "kind": "inplace", "const": None}
        src += ["def %s_nogil(%s a, %s b):" % (op, T, T), "    cdef %s r" % RT, "    with nogil:", "        r = a %s b" % sym,
                "    return r", ""]
        funcs["%s_nogil" % op] = {"op": op, "kind": "nogil", "const": None}
    return "\n".join(src), funcs


SWEEP_SRC = r'''
cdef extern from *:
    """
    #include <math.h>
    /* independent reference: exact for |a|,|b| <= 2^16 (a non-integral a/b is at least 2^-16 away from an integer) */
    static long verif_fdiv(long a, long b) { return (long) floor((double) a / (double) b); }
    static long verif_fmod(long a, long b) { return a - b * verif_fdiv(a, b); }
    static long verif_tdiv(long a, long b) { return (long) trunc((double) a / (double) b); }
    static long verif_tmod(long a, long b) { return a - b * verif_tdiv(a, b); }
    """
    long verif_fdiv(long, long) nogil
    long verif_fmod(long, long) nogil
    long verif_tdiv(long, long) nogil
    long verif_tmod(long, long) nogil

def sweep(int op, int cmode, long a_lo, long a_hi, long b_lo, long b_hi):
    """all pairs a in [a_lo, a_hi), b in [b_lo, b_hi], b != 0: count, mismatches, first mismatches"""
    cdef %(T)s a, b
    cdef long ia, ib, got, want, n = 0, nbad = 0
    bad = []
    for ia in range(a_lo, a_hi):
        a = <%(T)s> ia
        for ib in range(b_lo, b_hi + 1):
            if ib == 0:
                continue
            b = <%(T)s> ib
            if op == 0:
                got = a // b
                want = verif_tdiv(ia, ib) if cmode else verif_fdiv(ia, ib)
            else:
                got = a %% b
                want = verif_tmod(ia, ib) if cmode else verif_fmod(ia, ib)
            n += 1
            if got != want:
                nbad += 1
                if nbad <= 4:
                    bad.append((ia, ib, got, want))
    return (n, nbad, bad)
'''


# --------------------------------------------------------------------------
# reference semantics


def c_div(a, b):
    q = abs(a) // abs(b)
    return -q if (a < 0) != (b < 0) else q


def oracle(op, cd, rt_ct, a, b):
    """What the property demands: canonical outcome string, or None for "no demand"."""
    w, signed, lo, hi = ct_info(rt_ct)
    if not cd:
        if b == 0:
            return "err ZeroDivisionError"
        v = a // b if op == "div" else a % b
        return "ok %d" % v if lo <= v <= hi else None
    if b == 0:
        return None                 # C: undefined
    if signed and a == lo and b == -1:
        return None                 # C: undefined (quotient not representable)
    q = c_div(a, b)
    return "ok %d" % (q if op == "div" else a - q * b)


def model_line(op, rt_ct, cd, bconst, a, b):
    w, signed = ct_info(rt_ct)[:2]
    return "C03 %s %d %d %d %d %d %d %d %d %d" % (op, w, signed, WL, cd, bconst, VARIANT["guardMinusOne"],
                                                  VARIANT["guardAllWidths"], a, b)


# --------------------------------------------------------------------------
# operand generators


def boundary_values(lo, hi):
    vals = {lo, lo + 1, lo + 2, lo + 3, hi, hi - 1, hi - 2, 0, 1, 2, 3, 5, 7, 10, 100, 127, 128, 255, 256,
            hi // 2, hi // 2 + 1, hi // 3, lo // 2, lo // 2 - 1, lo // 2 + 1}
    if lo < 0:
        vals |= {-1, -2, -3, -5, -7, -10, -100, -127, -128, -129, -255, -256}
    w = hi.bit_length()
    for k in (7, 8, 15, 16, 31, 32, 62, 63):
        if k < w + 1:
            for d in (-1, 0, 1):
                vals |= {(1 << k) + d, -(1 << k) + d}
    return sorted(v for v in vals if lo <= v <= hi)


def random_pairs(rng, lo, hi, n):
    out = []
    w = max(hi.bit_length(), 2)
    for _ in range(n):
        r = rng.random()
        if r < 0.25:
            a, b = rng.randint(lo, hi), rng.randint(lo, hi)
        elif r < 0.5:
            a = rng.randint(lo, hi)
            k = rng.randint(1, w)
            b = rng.randint(max(lo, -(1 << k)), min(hi, 1 << k))
        elif r < 0.8:
            # exact multiples and their neighbours (the r == 0 / r != 0 edge of the adjustment)
            k = rng.randint(1, w - 1)
            b = rng.randint(max(lo, -(1 << k)), min(hi, 1 << k))
            if b == 0:
                b = 1
            q = rng.randint(lo // abs(b) if lo else 0, hi // abs(b))
            a = q * b + rng.choice((0, 0, 1, -1, b - 1 if b > 0 else b + 1))
            a = min(max(a, lo), hi)
        else:
            a = rng.choice((lo, lo + 1, hi, hi - 1, 0, -1 if lo < 0 else 1)) + rng.randint(0, 3) * (1 if rng.random() < .5 else -1)
            a = min(max(a, lo), hi)
            b = rng.choice((-1 if lo < 0 else 1, 1, 2, -2 if lo < 0 else 2, lo, hi, 3, 7)) + rng.randint(0, 2)
            b = min(max(b, lo), hi)
        out.append((a, b))
    return out


# --------------------------------------------------------------------------
# running cases on a built module


def parse_batch(out):
    """'ok list:[int:1;str:'ZeroDivisionError']' -> ['ok 1', 'err ZeroDivisionError']"""
    if not out.startswith("ok list:[") or not out.endswith("]"):
        return None
    body = out[len("ok list:["):-1]
    res = []
    if not body:
        return res
    for el in body.split(";"):
        if el.startswith("int:"):
            res.append("ok " + el[4:])
        elif el.startswith("str:'"):
            res.append("err " + el[5:-1])
        else:
            res.append("ok? " + el)
    return res


def canon_single(out):
    if out.startswith("ok int:"):
        return "ok " + out[7:]
    return out


def eval_cases(ctx, so, cases, single):
    """cases: list of (fname, a, b|None).  `single[i]` true -> run that case on its own line (expected crash).
    Returns impl outcome strings."""
    res = [None] * len(cases)
    CH = 1024
    groups = {}
    singles = []
    for i, (fn, a, b) in enumerate(cases):
        if single[i]:
            singles.append(i)
        else:
            groups.setdefault((fn, b is None), []).append(i)
    lines = []
    owners = []
    for (fn, unary), idx in groups.items():
        for s in range(0, len(idx), CH):
            owners.append(idx[s:s + CH])
    def batch_line(part):
        fn = cases[part[0]][0]
        unary = cases[part[0]][2] is None
        av = "[" + ",".join(str(cases[i][1]) for i in part) + "]"
        bv = "None" if unary else "[" + ",".join(str(cases[i][2]) for i in part) + "]"
        return ("run_batch", "(%r, %s, %s)" % (fn, av, bv))

    def accept(part, out):
        vals = parse_batch(out)
        if vals is not None and len(vals) == len(part):
            for i, v in zip(part, vals):
                res[i] = v
            return True
        return False

    crashes = {}

    def run_singles(part):
        part = [i for i in part if crashes.get(cases[i][0], 0) < CRASH_CAP]
        if not part:
            return
        sl = []
        for i in part:
            fn, a, b = cases[i]
            sl.append((fn, "(%d,)" % a if b is None else "(%d,%d)" % (a, b)))
        outs = cybuild.run_cases(ctx, so, sl)
        for i, o in zip(part, outs):
            res[i] = canon_single(o)
            if not o.startswith(("ok ", "err ")):
                crashes[cases[i][0]] = crashes.get(cases[i][0], 0) + 1

    def localise(part):
        """a batch over `part` (one function) died or answered strangely: bisect down to the culprits"""
        fn = cases[part[0]][0]
        if crashes.get(fn, 0) >= CRASH_CAP:
            return                      # a broken tree can crash on thousands of inputs: leave the rest unevaluated (None)
        if len(part) <= 8:
            run_singles(part)
            return
        h = len(part) // 2
        halves = [part[:h], part[h:]]
        outs = cybuild.run_cases(ctx, so, [batch_line(x) for x in halves])
        for x, o in zip(halves, outs):
            if not accept(x, o):
                localise(x)

    lines = [batch_line(part) for part in owners]
    outs = cybuild.run_cases(ctx, so, lines) if lines else []
    for part, out in zip(owners, outs):
        if not accept(part, out):
            localise(part)
    # expected-UB points: each on its own line
    singles.sort(key=lambda i: (cases[i][0], i))
    for pos in range(0, len(singles), 24):
        run_singles(singles[pos:pos + 24])
    return res


class Mod:
    def __init__(self, tkey, cd, opt):
        self.tkey, self.cd, self.opt = tkey, cd, opt
        self.src, self.funcs = module_source(tkey)
        self.name = "c03_%s_%s_%s" % (tkey, "cdiv" if cd else "py", opt.strip("-"))
        self.so = None
        self.rtypes = {}

    def spec(self):
        return dict(name=self.name, source=self.src, directives={"cdivision": bool(self.cd)}, opt=self.opt)


def sign_class(a, b):
    if b == 0:
        return "zero-divisor"
    return ("-" if a < 0 else "+") + ("-" if b < 0 else "+")


def gen_cases(ctx, m):
    """list of (fname, a, b|None) for one module"""
    rng = ctx.rng
    ct = {k: ct for k, c, ct, r in TYPES}[m.tkey]
    w, signed, lo, hi = ct_info(ct)
    cases = []
    bv = boundary_values(lo, hi)
    if w == 8:
        allv = list(range(lo, hi + 1))
        pairs = [(a, b) for a in allv for b in allv]
        pairs_small = [(a, b) for a in bv for b in bv]
    else:
        pairs = [(a, b) for a in bv for b in bv]
        pairs += random_pairs(rng, lo, hi, ctx.n(1500, 60000 if w == 16 else 30000))
        pairs_small = [(a, b) for a in bv[::2] + [lo, hi] for b in (lo, lo + 1, -2 if signed else 2, -1 if signed else 1, 0, 1, 2, 3, hi - 1, hi)]
        pairs_small += random_pairs(rng, lo, hi, ctx.n(200, 3000))
    for fn, f in m.funcs.items():
        if f["kind"] == "rt":
            cases += [(fn, a, b) for a, b in pairs]
        elif f["kind"] == "const":
            avals = list(range(lo, hi + 1)) if w == 8 else bv + [rng.randint(lo, hi) for _ in range(ctx.n(40, 2000))]
            c = f["const"]
            if w > 8 and c not in (0,):
                # multiples of the constant and neighbours
                for _ in range(ctx.n(20, 500)):
                    q = rng.randint(lo // abs(c), hi // abs(c))
                    avals.append(min(max(q * c + rng.choice((0, 1, -1)), lo), hi))
            cases += [(fn, a, None) for a in avals]
        else:
            cases += [(fn, a, b) for a, b in pairs_small]
    return list(dict.fromkeys(cases))       # distinct cases, generation order kept


def compute(ctx, m, cases):
    """model and implementation outcomes for `cases` (no ctx mutation: safe in a worker thread)"""
    mlines = []
    for fn, a, b in cases:
        f = m.funcs[fn]
        bb = f["const"] if b is None else b
        mlines.append(model_line(f["op"], m.rtypes[fn], m.cd, f["kind"] == "const", a, bb))
    mout = ctx.drv.batch(mlines) if mlines else []
    # points where the model says "C undefined behaviour" usually kill the child process (SIGFPE): each is run on
    # its own line, and only UB_SAMPLES distinct ones per (function, kind) are run at all (nothing is demanded there
    # except at MIN % -1, which is one point per function)
    keep = []
    nub = {}
    seen = set()
    for i, mo in enumerate(mout):
        if mo.startswith("ub"):
            k = (cases[i][0], mo)
            if cases[i] in seen or nub.get(k, 0) >= UB_SAMPLES:
                continue
            seen.add(cases[i])
            nub[k] = nub.get(k, 0) + 1
        keep.append(i)
    cases = [cases[i] for i in keep]
    mout = [mout[i] for i in keep]
    single = [mo.startswith("ub") for mo in mout]
    impl = eval_cases(ctx, m.so, cases, single)
    return cases, mout, impl


def compare(ctx, m, cases, mout, impl):
    """three-way comparison; returns the cases on which model and implementation disagree"""
    disagreements = []
    T = cname_of(m.tkey)
    ubs = ctx.notes.setdefault("ub_points_observed", {})
    for (fn, a, b), mo, io in zip(cases, mout, impl):
        if io is None:
            ctx.notes["not_run_after_%d_crashes_of_one_function" % CRASH_CAP] = ctx.notes.get("not_run_after_%d_crashes_of_one_function" % CRASH_CAP, 0) + 1
            continue
        f = m.funcs[fn]
        bb = f["const"] if b is None else b
        op = f["op"]
        orc = oracle(op, m.cd, m.rtypes[fn], a, bb)
        is_ub = mo.startswith("ub")
        ctx.count("%s/%s/%s/%s" % (op, "cdivision" if m.cd else "python", f["kind"], "ub-point" if is_ub else sign_class(a, bb)))
        ctx.seen((m.tkey, m.cd, m.opt, fn, a, bb), nontrivial=(bb != 0))
        desc = "%s %s %s %s (%s, cdivision=%s, %s divisor, gcc %s)" % (
            T, a, "//" if op == "div" else "%", bb, fn, bool(m.cd), "constant" if f["kind"] == "const" else "run-time", m.opt)
        replay = {"type": m.tkey, "cdivision": m.cd, "opt": m.opt, "func": fn, "a": a, "b": b, "impl": io, "model": mo,
                  "oracle": orc, "module": m.src}
        if is_ub:
            k = "%s | %s" % (mo, io)
            ent = ubs.setdefault(k, {"count": 0, "examples": []})
            ent["count"] += 1
            if len(ent["examples"]) < 4:
                ent["examples"].append(desc)
        elif mo != io:
            ctx.tie_break("D-c generated %s vs CyVerif.C03.gen%s" % ("//" if op == "div" else "%", op.capitalize()),
                          "%s: model %s impl %s" % (desc, mo, io), replay)
            disagreements.append((fn, a, b))
        if orc is not None and io != orc:
            if (not m.cd) and op == "mod" and bb == -1 and a == ct_info(m.rtypes[fn])[2]:
                key = "ModInt-MIN-mod-minus1"
            else:
                key = "%s-%s-%s-%s-%s" % (op, "cdivision" if m.cd else "python", f["kind"],
                                          "zero" if bb == 0 else "value", m.tkey)
            ctx.violation(key, "%s: got %s, required %s" % (desc, io, orc), replay)
        elif len(ctx.samples) < 6 and bb not in (0, 1) and a < 0 < bb and a % bb:
            ctx.sample({"case": desc, "impl": io, "model": mo, "oracle": orc})
    return disagreements


def check_module(ctx, m, cases):
    cases, mout, impl = compute(ctx, m, cases)
    return compare(ctx, m, cases, mout, impl)


def neighbours(m, bad, lo, hi):
    out = []
    seen = set()
    for fn, a, b in bad[:50]:
        for da in (-2, -1, 0, 1, 2):
            for db in ((0,) if b is None else (-2, -1, 0, 1, 2)):
                a2 = min(max(a + da, lo), hi)
                b2 = None if b is None else min(max(b + db, lo), hi)
                if (fn, a2, b2) not in seen:
                    seen.add((fn, a2, b2))
                    out.append((fn, a2, b2))
                for a3, b3 in ((-a2, b2), (a2, None if b2 is None else -b2)):
                    if lo <= a3 <= hi and (b3 is None or lo <= b3 <= hi) and (fn, a3, b3) not in seen:
                        seen.add((fn, a3, b3))
                        out.append((fn, a3, b3))
    return out


def resolve_types(ctx, m):
    """ask the compiled module for the result type of every expression (cython.typeof)"""
    names = list(m.funcs)
    outs = cybuild.run_cases(ctx, m.so, [("ty_" + (n if m.funcs[n]["kind"] == "const" else m.funcs[n]["op"] + "_rt"), "()")
                                         for n in names])
    ok = True
    for n, o in zip(names, outs):
        exp = m.funcs[n].get("rt_expect") or expected_result_type(m.tkey, m.funcs[n]["kind"] == "const")
        got = o[len("ok str:'"):-1] if o.startswith("ok str:'") else o
        if got not in TYPEOF:
            ctx.tie_break("D-c result type of %s" % n, "%s %s: typeof gives %r, not a C integer type (expected %s)" % (
                cname_of(m.tkey), n, got, exp), {"type": m.tkey, "func": n, "module": m.src})
            ok = False
            continue
        norm = lambda t: t[7:] if t.startswith("signed ") and t != "signed char" else t
        if norm(got) != norm(exp):
            ctx.tie_break("D-c result type of %s" % n, "%s %s: typeof gives %r, typing rule says %r" % (
                cname_of(m.tkey), n, got, exp), {"type": m.tkey, "func": n, "module": m.src})
        m.rtypes[n] = TYPEOF[got]
    return ok


# --------------------------------------------------------------------------
# exhaustive 16-bit sweeps (thorough tier): implementation vs an independent C reference inside the module


def run_sweeps(ctx, pool):
    specs = []
    for tkey in ("short", "ushort", "schar", "uchar"):
        for cd in (0, 1):
            specs.append(dict(name="c03_sweep_%s_%s" % (tkey, "cdiv" if cd else "py"), source=SWEEP_SRC % {"T": cname_of(tkey)},
                              directives={"cdivision": bool(cd)}, opt="-O1", ldflags=["-lm"]))
    sos = cybuild.build_many(ctx, specs)
    jobs = []
    for spec, so in zip(specs, sos):
        if isinstance(so, cybuild.BuildError):
            ctx.tie_break("D-c build of " + spec["name"], so.stage + ": " + so.log[-600:], {"module": spec["source"]})
            continue
        tkey = spec["name"].split("_")[2]
        cd = 1 if spec["name"].endswith("cdiv") else 0
        ct = {k: ct for k, c, ct, r in TYPES}[tkey]
        w, signed, lo, hi = ct_info(ct)
        step = max(1, (hi - lo + 1) // 16)
        for op in (0, 1):
            for a0 in range(lo, hi + 1, step):
                jobs.append((so, tkey, cd, op, a0, min(a0 + step, hi + 1), lo, hi))

    def one(job):
        so, tkey, cd, op, a0, a1, lo, hi = job
        return cybuild.run_cases(ctx, so, [("sweep", "(%d,%d,%d,%d,%d,%d)" % (op, cd, a0, a1, lo, hi))], timeout_per_case=600.0)[0]

    results = list(pool.map(one, jobs))
    for job, out in zip(jobs, results):
        so, tkey, cd, op, a0, a1, lo, hi = job
        opn = "div" if op == 0 else "mod"
        T = cname_of(tkey)
        if out.startswith("ok tuple:[int:"):
            parts = out[len("ok tuple:["):-1].split(";", 2)
            n, nbad = int(parts[0][4:]), int(parts[1][4:])
            ctx.count("sweep/%s/%s/%s" % (opn, "cdivision" if cd else "python", tkey), n)
            ctx.seen(("sweep", tkey, cd, op, a0))
            if nbad:
                ctx.violation("%s-%s-rt-value-%s" % (opn, "cdivision" if cd else "python", tkey),
                              "exhaustive sweep %s %s a in [%d,%d): %d mismatches against floor/trunc reference, first (a,b,got,want): %s" % (
                                  T, opn, a0, a1, nbad, parts[2]),
                              {"type": tkey, "cdivision": cd, "sweep": [op, cd, a0, a1, lo, hi], "module": SWEEP_SRC % {"T": T}, "out": out})
        else:
            # the sweep died: localise the row, then the pair
            lo_a, hi_a = a0, a1
            while hi_a - lo_a > 1:
                mid = (lo_a + hi_a) // 2
                o = cybuild.run_cases(ctx, so, [("sweep", "(%d,%d,%d,%d,%d,%d)" % (op, cd, lo_a, mid, lo, hi))], timeout_per_case=600.0)[0]
                if o.startswith("ok tuple"):
                    lo_a = mid
                else:
                    hi_a = mid
            lo_b, hi_b = lo, hi
            while hi_b > lo_b:
                mid = (lo_b + hi_b) // 2
                o = cybuild.run_cases(ctx, so, [("sweep", "(%d,%d,%d,%d,%d,%d)" % (op, cd, lo_a, lo_a + 1, lo_b, mid))], timeout_per_case=600.0)[0]
                if o.startswith("ok tuple"):
                    lo_b = mid + 1
                else:
                    hi_b = mid
            ctx.violation("%s-%s-rt-value-%s" % (opn, "cdivision" if cd else "python", tkey),
                          "exhaustive sweep: %s %d %s %d (cdivision=%s) -> %s, a value is required" % (
                              T, lo_a, "//" if op == 0 else "%", lo_b, bool(cd), out),
                          {"type": tkey, "cdivision": cd, "sweep": [op, cd, lo_a, lo_a + 1, lo_b, lo_b], "module": SWEEP_SRC % {"T": T}, "out": out})


# --------------------------------------------------------------------------


def replay(ctx, case):
    """re-run exactly one recorded case (or one corpus witness)"""
    if "sweep" in case:
        so = cybuild.build_module(ctx, "c03_sweep_replay", case["module"], directives={"cdivision": bool(case["cdivision"])},
                                  opt="-O1", ldflags=["-lm"])
        out = cybuild.run_cases(ctx, so, [("sweep", "(%s)" % ",".join(str(x) for x in case["sweep"]))], timeout_per_case=600.0)[0]
        ctx.count("replay")
        if not out.startswith("ok tuple:[int:") or ";int:0;" not in out:
            ctx.violation("%s-%s-rt-value-%s" % ("div" if case["sweep"][0] == 0 else "mod", "cdivision" if case["cdivision"] else "python", case["type"]),
                          "sweep replay: " + out, case)
        return
    m = Mod(case["type"], int(case["cdivision"]), case.get("opt", "-O0"))
    try:
        m.so = cybuild.build_module(ctx, **m.spec())
    except cybuild.BuildError as e:
        ctx.tie_break("D-c build of " + m.name, e.stage + ": " + e.log[-600:], {"module": m.src})
        return
    resolve_types(ctx, m)
    if case["func"] in m.rtypes:
        check_module(ctx, m, [(case["func"], case["a"], case.get("b"))])


def run(ctx):
    ctx.rule = ("one module per (C integer type in signed/unsigned char, short, int, long, long long, Py_ssize_t, size_t; cdivision off/on"
                "; gcc -O0, thorough also -O2); functions: run-time divisor, 15 compile-time constant divisors within 32 bits plus 4-9 suffixed 64-bit constants for the 64-bit types, in-place, nogil; operands: "
                "ALL 65536 pairs for the 8-bit types, (about 60 width-boundary values)^2 plus seeded random pairs (uniform, small divisors, "
                "exact multiples +-1, near MIN/MAX) for 16/32/64-bit types; thorough: all 2^32 pairs of both 16-bit types against an independent "
                "C reference; non-trivial = divisor != 0; distinct by (type, cdivision, function, a, b)")
    ctx.explanation = ("Theorems cover, for every width w >= 2 and both signednesses, the generated zero check, the b == -1 overflow guard, "
                       "the cdivision selection and the DivInt/ModInt bodies including both b_is_constant forms. NOT covered by a theorem: "
                       "(1) with the overflowcheck directive the guard is also emitted under cdivision and the division goes through the "
                       "Overflow.c helpers: not modelled here (C04); (2) the compiler's choice of the result type and the int <-> Python object conversions around the operation are only "
                       "differentially checked; (3) ModFloat (float operands) belongs to C06.")
    ctx.assumptions = ["two's complement, no padding bits, CHAR_BIT = 8 (width = 8*sizeof, probed with ctypes: long is %d bits)" % WL,
                       "C99/C11 6.5.5 semantics of / and % (truncation; zero divisor and unrepresentable quotient undefined)"]
    detect_variant(ctx)
    ctx.notes["model_variant_read_from_source"] = dict(VARIANT)
    try:
        cur = anchor_hashes(ctx)
        drift = sorted(k for k in cur if ANCHORS.get(k) != cur[k])
    except Exception as e:
        cur, drift = {}, ["<anchor extraction failed: %r>" % e]
    ctx.notes["anchor_drift"] = drift
    if drift and ctx.quick:
        ctx.budget_scale = max(ctx.budget_scale, 15.0)      # modelled source changed: thorough-size random budget
    # 1. replay mode
    if ctx.replay_case:
        replay(ctx, ctx.replay_case.get("case", ctx.replay_case))
        return
    # 2. corpus witnesses first (section-5 F1)
    corpus = sorted(glob.glob(os.path.join(lib.VERIF, "corpus", "C03", "*.json")))
    opts = ["-O0"] if ctx.quick else ["-O0", "-O2"]
    mods = [Mod(tkey, cd, opt) for tkey, _, _, _ in TYPES for cd in (0, 1) for opt in opts]
    sos = cybuild.build_many(ctx, [m.spec() for m in mods])
    live = []
    for m, so in zip(mods, sos):
        if isinstance(so, cybuild.BuildError):
            ctx.tie_break("D-c build of " + m.name, so.stage + ": " + so.log[-600:], {"module": m.src, "cdivision": m.cd})
        else:
            m.so = so
            live.append(m)
    bymod = {(m.tkey, m.cd, m.opt): m for m in live}
    reproduced = {}
    for path in corpus:
        case = json.load(open(path))
        m = bymod.get((case["type"], int(case["cdivision"]), case.get("opt", "-O0")))
        if m is None:
            continue
        if not m.rtypes:
            resolve_types(ctx, m)
        if case["func"] in m.rtypes:
            nv = len(ctx.violations)
            check_module(ctx, m, [(case["func"], case["a"], case.get("b"))])
            reproduced[os.path.basename(path)] = len(ctx.violations) > nv
    ctx.notes["corpus_witness_reproduces"] = reproduced
    if reproduced and not any(reproduced.values()):
        ctx.notes["witness_status"] = "the F1 witnesses no longer fail (repaired helpers: MIN % -1 == 0)"
    # 3. differential correspondence: cases generated sequentially (one seeded rng), model + implementation runs
    #    in worker threads (child processes), three-way comparison sequentially
    t0 = time.time()
    ctx.notes["t_build"] = round(ctx.elapsed(), 1)
    prepared = []
    for m in live:
        if not m.rtypes:
            resolve_types(ctx, m)
        m.funcs = {n: f for n, f in m.funcs.items() if n in m.rtypes}
        prepared.append((m, gen_cases(ctx, m)))
    ctx.notes["t_gen"] = round(time.time() - t0, 1)
    with cf.ThreadPoolExecutor(max_workers=12) as pool:
        futs = [pool.submit(compute, ctx, m, cases) for m, cases in prepared]
        results = []
        for (m, cases), fut in zip(prepared, futs):
            kept, mout, impl = fut.result()
            results.append(compare(ctx, m, kept, mout, impl))
        ctx.notes["t_diff"] = round(time.time() - t0, 1)
        if not ctx.quick:
            run_sweeps(ctx, pool)
            ctx.notes["t_sweep"] = round(time.time() - t0, 1)
    # search around disagreements (only when the correspondence is broken)
    for (m, cases), bad in zip(prepared, results):
        if bad:
            ct = {k: ct for k, c, ct, r in TYPES}[m.tkey]
            w, signed, lo, hi = ct_info(ct)
            extra = neighbours(m, bad, lo, hi)
            for fn in sorted(set(fn for fn, a, b in bad))[:6]:
                if m.funcs[fn]["kind"] == "const":
                    extra += [(fn, a, None) for a, _ in random_pairs(ctx.rng, lo, hi, ctx.n(3000, 30000))]
                else:
                    extra += [(fn, a, b) for a, b in random_pairs(ctx.rng, lo, hi, ctx.n(3000, 30000))]
            check_module(ctx, m, extra)
    ctx.notes["modules"] = len(live)
    try:
        ctx.notes["exprnodes_line_coverage"] = exprnodes_coverage(ctx)
    except Exception as e:      # coverage is reporting only, never a verdict
        ctx.notes["exprnodes_line_coverage"] = {"error": repr(e)}
    ctx.sample({"model_line_format": "C03 <div|mod> w signed wl cdivision bConst guardMinusOne guardAllWidths a b"})


# --------------------------------------------------------------------------
# coverage of the modelled compiler code (DivNode / ModNode methods) by the constructs the modules use


def exprnodes_coverage(ctx):
    """Compile (in-process, staged compiler) one module of each kind under sys.monitoring restricted to the
    methods of DivNode and ModNode; report executed/total lines per method."""
    import sys
    import types
    from Cython.Compiler import ExprNodes
    from Cython.Compiler.Main import compile as cy_compile, CompilationOptions
    mon = sys.monitoring
    tool = mon.COVERAGE_ID
    try:
        mon.use_tool_id(tool, "c03cov")
    except ValueError:
        return {"error": "monitoring tool id in use"}
    hit = {}
    codes = {}
    for cls in (ExprNodes.DivNode, ExprNodes.ModNode):
        for nm, fn in vars(cls).items():
            if isinstance(fn, types.FunctionType):
                codes[fn.__code__] = "%s.%s" % (cls.__name__, nm)

    def on_line(code, line):
        hit.setdefault(code, set()).add(line)
        return mon.DISABLE

    mon.register_callback(tool, mon.events.LINE, on_line)
    for code in codes:
        mon.set_local_events(tool, code, mon.events.LINE)
    try:
        d = os.path.join(ctx.scratch, "cov")
        os.makedirs(d, exist_ok=True)
        for tkey, cd in (("long", False), ("schar", False), ("uint", False), ("int", True)):
            src, _ = module_source(tkey, only_consts=(-1, 7, 0))      # same constructs, fewer constants
            path = os.path.join(d, "c03cov_%s_%d.pyx" % (tkey, cd))
            with open(path, "w") as f:
                f.write(src)
            cy_compile(path, CompilationOptions(language_level=3, compiler_directives={"cdivision": cd}))
    finally:
        for code in codes:
            mon.set_local_events(tool, code, 0)
        mon.register_callback(tool, mon.events.LINE, None)
        mon.free_tool_id(tool)
    rep = {}
    for code, name in sorted(codes.items(), key=lambda kv: kv[1]):
        lines = set(l for _, _, l in code.co_lines() if l is not None and l != code.co_firstlineno)
        got = hit.get(code, set()) & lines
        ent = "%d/%d" % (len(got), len(lines))
        missing = sorted(lines - got)
        rep[name] = ent if not missing else "%s missing lines %s" % (ent, missing)
    rep["note"] = ("lines not executed belong to paths outside C-integer // and %: float / complex / C++ operands, true division, "
                   "cdivision_warnings, compile-time DEF evaluation, type inference of untyped names, Python-object operands")
    return rep


# --------------------------------------------------------------------------
# anchor drift (DESIGN 2.4 layer 3): never a verdict, only raises the differential budget

# name -> sha256[:16] of the whitespace-normalised source at the time the model was last aligned
# (tree with the DivInt/ModInt `b == -1` repair b85f537bc and DivNode.minus1_check 10d370e7a).
ANCHORS = {
    "CMath.c:DivInt": "4ca3c9cfd7b1652a",
    "CMath.c:ModInt": "ca7bb33090c47ff0",
    "Overflow.c:__PYX_MIN defines": "a0df1fc7e2e43d97",
    "ExprNodes.py:DivNode.analyse_operation": "e5398f8014871b4f",
    "ExprNodes.py:DivNode.generate_evaluation_code": "e74e62acf66941a5",
    "ExprNodes.py:DivNode.generate_div_warning_code": "3fc915923f025bd1",
    "ExprNodes.py:DivNode.calculate_result_code": "61e8d1af7a9ee29b",
    "ExprNodes.py:ModNode.analyse_operation": "12f49e39551bf081",
    "ExprNodes.py:ModNode.generate_evaluation_code": "0c9e04ffba186880",
    "ExprNodes.py:ModNode.calculate_result_code": "6206c8538e29f47a",
    "ExprNodes.py:NumBinopNode.compute_c_result_type": "e2ed1d423bc31e7f",
}


def anchor_hashes(ctx):
    import hashlib
    import inspect
    import re
    from Cython.Compiler import ExprNodes
    out = {}
    for fname, sections in (("CMath.c", ("DivInt", "ModInt")),):
        txt = open(os.path.join(ctx.stage, "Cython", "Utility", fname)).read()
        for sec in sections:
            m = re.search(r"^/{5,} %s /{5,}\n(.*?)(?=^/{5,} [\w.]+ /{5,}$|\Z)" % re.escape(sec), txt, re.S | re.M)
            body = m.group(1) if m else "<section missing>"
            out["%s:%s" % (fname, sec)] = hashlib.sha256(" ".join(body.split()).encode()).hexdigest()[:16]
    ov = open(os.path.join(ctx.stage, "Cython", "Utility", "Overflow.c")).read()
    defs = [" ".join(l.split()) for l in ov.split("\n") if re.match(r"#define __PYX_(MIN|HALF_MAX|IS_UNSIGNED)\(", l)]
    out["Overflow.c:__PYX_MIN defines"] = hashlib.sha256("\n".join(defs).encode()).hexdigest()[:16]
    for cls, meths in (("DivNode", ("analyse_operation", "generate_evaluation_code", "generate_div_warning_code", "calculate_result_code")),
                       ("ModNode", ("analyse_operation", "generate_evaluation_code", "calculate_result_code")),
                       ("NumBinopNode", ("compute_c_result_type",))):
        for mname in meths:
            try:
                src = inspect.getsource(getattr(getattr(ExprNodes, cls), mname))
            except Exception as e:
                src = "<%r>" % e
            out["ExprNodes.py:%s.%s" % (cls, mname)] = hashlib.sha256(" ".join(src.split()).encode()).hexdigest()[:16]
    return out


# --------------------------------------------------------------------------
# which variant of the modelled code is in the tree (regenerated model parameters, DESIGN 2.4 layer 2)


def utility_section(ctx, fname, sec):
    import re
    txt = open(os.path.join(ctx.stage, "Cython", "Utility", fname)).read()
    m = re.search(r"^/{5,} %s /{5,}\n(.*?)(?=^/{5,} [\w.]+ /{5,}$|\Z)" % re.escape(sec), txt, re.S | re.M)
    return m.group(1) if m else None


def detect_variant(ctx):
    """literal extraction only; anything unrecognised is a broken tie (reported), never a crash"""
    import inspect
    import re
    from Cython.Compiler import ExprNodes
    problems = []
    div, mod = utility_section(ctx, "CMath.c", "DivInt"), utility_section(ctx, "CMath.c", "ModInt")
    pat = re.compile(r"if\s*\(\s*(?:unlikely\()?\s*b\s*==\s*-1\s*\)?\s*\)\s*return")
    gd = bool(div and pat.search(div))
    gm = bool(mod and re.search(pat.pattern + r"\s+0\s*;", mod))
    if div is None or mod is None:
        problems.append("CMath.c: section DivInt/ModInt not found")
    if gd != gm:
        problems.append("DivInt %s a b == -1 guard but ModInt %s: the model has one switch for both" % (
            "has" if gd else "lacks", "has" if gm else "lacks"))
    VARIANT["guardMinusOne"] = int(gm)
    try:
        ana = inspect.getsource(ExprNodes.DivNode.analyse_operation)
        gen = inspect.getsource(ExprNodes.DivNode.generate_div_warning_code)
    except Exception as e:
        ana = gen = ""
        problems.append("DivNode source not readable: %r" % e)
    new = "self.minus1_check" in ana and "if self.minus1_check" in gen and "__PYX_MIN(" in gen
    old = "sizeof(long)" in gen and "__Pyx_UNARY_NEG_WOULD_OVERFLOW" in gen
    if new == old:
        problems.append("DivNode overflow guard: neither (or both) of the two known forms recognised")
    VARIANT["guardAllWidths"] = int(new)
    if new:
        # the model takes __PYX_MIN(T) = 0 - HALF_MAX(T) - HALF_MAX(T), HALF_MAX(T) = ((T) 1) << (sizeof(T)*8 - 2)
        common = open(os.path.join(ctx.stage, "Cython", "Utility", "Overflow.c")).read()
        norm = "".join(common.split())
        if ("#define__PYX_HALF_MAX(type)((((type)1)<<(sizeof(type)*8-2)))" not in norm or
                "#define__PYX_MIN(type)((__PYX_IS_UNSIGNED(type)?(type)0:0-__PYX_HALF_MAX(type)-__PYX_HALF_MAX(type)))" not in norm):
            problems.append("Overflow.c: __PYX_MIN / __PYX_HALF_MAX differ from the modelled definitions")
    for pr in problems:
        ctx.tie_break("G model variant extraction", pr, {"variant": dict(VARIANT)})

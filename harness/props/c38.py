"""C38 — pure-Python mode: Shadow.cdiv / Shadow.cmod equal C semantics; interpreted == compiled.

Three-way on every case: implementation (staged Cython.Shadow), Lean model (cydrv), oracle (C truncation
semantics computed independently on Python ints).  Compiled leg: the same pure-Python-mode module
compiled by the staged compiler, against the interpreted run with the staged shadow module.
"""
import cybuild

MODULE = '''
import cython

@cython.locals(a=cython.longlong, b=cython.longlong)
def ll_cdiv(a, b):
    return cython.cdiv(a, b)

@cython.locals(a=cython.longlong, b=cython.longlong)
def ll_cmod(a, b):
    return cython.cmod(a, b)

@cython.locals(a=cython.int, b=cython.int)
def i_cdiv(a, b):
    return cython.cdiv(a, b)

@cython.locals(a=cython.int, b=cython.int)
def i_cmod(a, b):
    return cython.cmod(a, b)

@cython.locals(a=cython.short, b=cython.short, r=cython.short)
def s_both(a, b):
    r = cython.cmod(a, b)
    q = cython.declare(cython.short, cython.cdiv(a, b))
    return (q, r)

@cython.cfunc
@cython.returns(cython.long)
@cython.locals(x=cython.long)
def _twice(x):
    return x * 2

@cython.ccall
@cython.locals(x=cython.long)
def cast_chain(x):
    y = cython.declare(cython.long, x)
    z = cython.cast(cython.long, y)
    return _twice(z) - cython.cast(cython.long, y)
'''


def c_div(a, b):
    q = abs(a) // abs(b)
    return -q if (a < 0) != (b < 0) else q


def c_mod(a, b):
    return a - c_div(a, b) * b


def gen_pairs(ctx):
    rng = ctx.rng
    edges = [0, 1, -1, 2, -2, 3, -3, 7, -7]
    for w in (8, 16, 32, 64):
        edges += [2 ** (w - 1) - 1, -2 ** (w - 1), 2 ** (w - 1), -2 ** (w - 1) + 1, 2 ** w - 1, 2 ** w]
    edges += [10 ** 30, -10 ** 30 + 1]
    pairs = [(a, b) for a in edges for b in edges]
    n = ctx.n(20000, 300000)
    for _ in range(n):
        k = rng.choice((4, 8, 16, 32, 63, 64, 100))
        a = rng.randrange(-2 ** k, 2 ** k)
        kb = rng.choice((2, 4, 8, 16, 32, 63, 64, 100))
        b = rng.randrange(-2 ** kb, 2 ** kb)
        if rng.random() < 0.3 and b:
            a = b * rng.randrange(-50, 50) + rng.choice((0, 0, 1, -1))   # exact multiples and neighbours
        pairs.append((a, b))
    return pairs


def run(ctx):
    import Cython.Shadow as shadow
    assert shadow.__file__.startswith(ctx.stage)
    ctx.rule = ("pairs (a,b) of Python ints: all pairs of width boundaries for 8/16/32/64 bits plus seeded random pairs "
                "(magnitudes 2^4..2^100, 30% exact multiples +-1); non-trivial = b != 0; distinct by (op,a,b)")
    ctx.explanation = ("Theorems cover the second sentence of the property at full strength (cdiv/cmod = C semantics for all "
                       "unbounded integers). The first sentence (interpreted == compiled for declare/cast/locals/cfunc/ccall) "
                       "has no theorem beyond cdiv/cmod; it is carried by the compiled-vs-interpreted differential leg only.")
    pairs = ctx.replay_case["case"]["pairs"] if getattr(ctx, "replay_case", None) and "pairs" in ctx.replay_case.get("case", {}) else gen_pairs(ctx)
    lines = []
    for a, b in pairs:
        lines.append("C38 cdiv %d %d" % (a, b))
        lines.append("C38 cmod %d %d" % (a, b))
    mout = ctx.drv.batch(lines)
    k = 0
    for a, b in pairs:
        for op, fn, ref in (("cdiv", shadow.cdiv, c_div), ("cmod", shadow.cmod, c_mod)):
            try:
                impl = "ok %d" % fn(a, b)
            except ZeroDivisionError:
                impl = "err ZeroDivisionError"
            except Exception as e:  # any other exception is an observation
                impl = "err " + type(e).__name__
            oracle = "ok %d" % ref(a, b) if b != 0 else "err ZeroDivisionError"
            model = mout[k]
            k += 1
            ctx.count(op + ("/zero" if b == 0 else "/%s%s" % ("-" if a < 0 else "+", "-" if b < 0 else "+")))
            ctx.seen((op, a, b), nontrivial=(b != 0))
            if op == "cmod":
                ctx.sample({"op": op, "a": a, "b": b, "impl": impl, "model": model, "oracle": oracle})
            if impl != oracle:
                ctx.violation("shadow-%s" % op, "Shadow.%s(%d,%d) = %s, C semantics %s" % (op, a, b, impl, oracle),
                              {"pairs": [[a, b]], "op": op, "impl": impl, "oracle": oracle})
            if model != impl:
                ctx.tie_break("D-py Shadow.%s vs CyVerif.C38.%s" % (op, op), "(%d,%d): model %s impl %s" % (a, b, model, impl),
                              {"pairs": [[a, b]], "op": op})
    # compiled vs interpreted
    try:
        so = cybuild.build_module(ctx, "c38mod", MODULE, ext=".py")
    except cybuild.BuildError as e:
        ctx.tie_break("D-c build of the pure-mode module", e.stage + ": " + e.log[-400:], {"module": MODULE})
        return
    # interpreted: exec the same source with the staged shadow module as `cython`
    import sys
    import types
    interp = types.ModuleType("c38interp")
    sys.modules.setdefault("cython", shadow)
    exec(compile(MODULE, "c38mod.py", "exec"), interp.__dict__)
    cases = []
    rng = ctx.rng
    typed = {"ll": 64, "i": 32, "s": 16}
    for pre, w in typed.items():
        lo, hi = -2 ** (w - 1), 2 ** (w - 1) - 1
        vals = [lo, lo + 1, -7, -2, -1, 0, 1, 2, 7, hi - 1, hi]
        prs = [(a, b) for a in vals for b in vals if b != 0 and not (a == lo and b == -1)]
        for _ in range(ctx.n(300, 5000)):
            a, b = rng.randint(lo, hi), rng.randint(lo, hi)
            if rng.random() < 0.5:
                b = rng.randint(-9, 9)
            if b != 0 and not (a == lo and b == -1):
                prs.append((a, b))
        for a, b in prs:
            if pre == "s":
                cases.append(("s_both", "(%d,%d)" % (a, b)))
            else:
                cases.append((pre + "_cdiv", "(%d,%d)" % (a, b)))
                cases.append((pre + "_cmod", "(%d,%d)" % (a, b)))
    for x in [0, 1, -1, 2 ** 30, -2 ** 30, 12345]:
        cases.append(("cast_chain", "(%d,)" % x))
    outs = cybuild.run_cases(ctx, so, cases)
    for (fn, args), got in zip(cases, outs):
        a = eval(args)
        r = getattr(interp, fn)(*a)
        if isinstance(r, tuple):
            exp = "ok tuple:[" + ";".join("int:%d" % v for v in r) + "]"
        else:
            exp = "ok int:%d" % r
        ctx.count("compiled/" + fn)
        ctx.seen((fn, a))
        if got != exp:
            ctx.violation("compiled-vs-interpreted-%s" % fn,
                          "%s%s compiled=%s interpreted=%s" % (fn, args, got, exp),
                          {"module": MODULE, "func": fn, "args": args, "compiled": got, "interpreted": exp})
    ctx.sample({"compiled_case": cases[3], "outcome": outs[3]})

"""C11 — emitted C string literals denote exactly the original bytes.

Three legs on every case:
  implementation : the staged pure-Python `StringEncoding.escape_byte_string`, `split_string_literal`,
                   `BytesLiteral.as_c_string_literal`, `escape_char`, `Code._split_characters`,
                   `Code._write_cstring_const` / `_write_escaped_cstring_const`
  model          : Lean (`cydrv`, ops of `CyVerif.C11.handle`) with the specials table and the split constants
                   re-extracted from the CURRENT source (kernel-checked against `tableWF` / `SplitParams.WF`)
  oracle         : gcc 12 as the C lexer (`-std=c99 -trigraphs -pedantic-errors` and default gnu mode) reading
                   what the REAL code emitted: the dumped array must equal the original bytes.
Additionally the Lean reference lexer `cLex`/`cCharLex` is compared with gcc on the same emitted literals
and on literals drawn from the whole C99 escape/trigraph grammar.
"""
import ast
import concurrent.futures as cf
import inspect
import itertools
import json
import os
import subprocess
import sys
import textwrap

import cybuild
import lib

MODES = {
    "c99tri": ["-std=c99", "-trigraphs", "-pedantic-errors", "-Wno-overlength-strings"],
    "gnu": ["-pedantic-errors", "-Wno-overlength-strings"],
}
TRI = {"c99tri": "1", "gnu": "0"}
CHUNK = 3000
PH = b"QZJXNAMEQZJX"   # placeholder for the array name in a declaration


def hx(b):
    return bytes(b).hex() if len(b) else "-"


def unhx(s):
    return b"" if s == "-" else bytes.fromhex(s)


# --------------------------------------------------------------------------
# G: constants and tables re-extracted from the current source


def extract_table(S, notes):
    """Ordered (pattern, replacement) list of `_build_specials_replacer`: literal read-out of the
    `replacements` dict captured by the closure; fallback: behavioural probing of `_replace_specials`."""
    rep = S._replace_specials
    try:
        cells = dict(zip(rep.__code__.co_freevars, [c.cell_contents for c in rep.__closure__]))
        inner = cells["replace_specials"]
        icells = dict(zip(inner.__code__.co_freevars, [c.cell_contents for c in inner.__closure__]))
        d = icells["replacements"]
        tbl = [(bytes(k), bytes(v)) for k, v in d.items()]
        if not tbl or not all(isinstance(k, bytes) and k for k, _ in tbl):
            raise ValueError("unexpected table")
        notes["table_source"] = "closure dict `replacements` of _build_specials_replacer (insertion order = alternation order)"
        try:
            notes["regex"] = repr(cells["sub"].__self__.pattern)[:400]
        except Exception:
            pass
        return tbl
    except Exception as e:  # refactored: probe the behaviour (patterns of length 1 and 2)
        notes["table_source"] = "behavioural probing of _replace_specials (closure layout changed: %s)" % type(e).__name__
        single = {}
        for c in range(256):
            r = rep(bytes([c]))
            if r != bytes([c]):
                single[c] = r
        pairs = []
        for a in range(256):
            for b in range(256):
                r = rep(bytes([a, b]))
                if r != rep(bytes([a])) + rep(bytes([b])):
                    pairs.append((bytes([a, b]), r))
        return pairs + [(bytes([c]), r) for c, r in single.items()]


def extract_split_params(S, Code, notes):
    """limit: the default of `split_string_literal` plus every constant limit passed at a call site in
    Code.py / StringEncoding.py; back: the look-back constant (all integer constants >= 3 in the body)."""
    fn = S.split_string_literal
    default = inspect.signature(fn).parameters["limit"].default
    limits = {int(default)}
    nonconst = []
    for mod in (S, Code):
        tree = ast.parse(open(mod.__file__).read())
        for node in ast.walk(tree):
            if isinstance(node, ast.Call):
                f = node.func
                name = f.attr if isinstance(f, ast.Attribute) else getattr(f, "id", None)
                if name == "split_string_literal":
                    lim = None
                    if len(node.args) >= 2:
                        lim = node.args[1]
                    for kw in node.keywords:
                        if kw.arg == "limit":
                            lim = kw.value
                    if lim is not None:
                        if isinstance(lim, ast.Constant) and isinstance(lim.value, int):
                            limits.add(lim.value)
                        else:
                            nonconst.append("%s:%d" % (os.path.basename(mod.__file__), node.lineno))
    src = textwrap.dedent(inspect.getsource(fn))
    ftree = ast.parse(src).body[0]

    def ints(node):
        return [n.value for n in ast.walk(node) if isinstance(n, ast.Constant) and isinstance(n.value, int)
                and not isinstance(n.value, bool) and n.value >= 3]

    def has_mod2(node):
        return any(isinstance(n, ast.BinOp) and isinstance(n.op, ast.Mod) and isinstance(n.right, ast.Constant) and n.right.value == 2
                   for n in ast.walk(node))

    corner_c, back_c = [], []
    for stmt in ftree.body:
        for node in ast.walk(stmt):
            if isinstance(node, (ast.Assign, ast.AugAssign)) and has_mod2(node.value):
                corner_c += ints(node.value)
    allc = [v for stmt in ftree.body for v in ints(stmt)]
    back_c = list(allc)
    for v in corner_c:
        if v in back_c:
            back_c.remove(v)
    notes["split_constants"] = {"default_limit": default, "call_site_limits": sorted(limits), "non_constant_limit_calls": nonconst,
                                "look_back_constants": back_c, "corner_constants": corner_c}
    back = max(set(back_c), key=back_c.count) if back_c else 4
    corner = corner_c[0] if corner_c else back
    single = len(set(back_c)) == 1 and len(corner_c) == 1
    return sorted(limits), back, corner, single, nonconst


def lean_nat_list(bs):
    return "[" + ", ".join(str(x) for x in bs) + "]"


def lean_table(tbl):
    return "[" + ", ".join("(%s, %s)" % (lean_nat_list(k), lean_nat_list(v)) for k, v in tbl) + "]"


def table_arg(tbl):
    return ",".join(hx(k) + ":" + hx(v) for k, v in tbl)


# --------------------------------------------------------------------------
# gcc as the C lexer


class GccReject:
    def __init__(self, msg):
        self.msg = msg

    def __repr__(self):
        return "GccReject(%s)" % self.msg[:200]


DUMP = r'''
int printf(const char*, ...); int putchar(int);
int main(void){unsigned long i,j;for(i=0;i<sizeof(T)/sizeof(T[0]);i++){for(j=0;j<T[i].n;j++)printf("%02x",(unsigned char)T[i].p[j]);putchar(10);}return 0;}
'''


class Gcc:
    """items: (decl_text_with_NAME_placeholder, term) — `term` = number of trailing bytes (the NUL of a
    string literal) not part of the value."""

    def __init__(self, ctx, mode, extra=()):
        self.ctx = ctx
        self.flags = MODES[mode] + list(extra)
        self.mode = mode
        self.seq = itertools.count(1)
        self.dir = os.path.join(ctx.scratch, "gcc")
        os.makedirs(self.dir, exist_ok=True)
        self.compiles = 0

    def _compile(self, items):
        base = os.path.join(self.dir, "%s_%d_%d_%d" % (self.mode, os.getpid(), id(self) % 100000, next(self.seq)))
        with open(base + ".c", "wb") as f:
            for i, (decl, term) in enumerate(items):
                f.write(decl.replace(PH, b"a%d" % i) + b"\n")
            f.write(b"static const struct {const char *p; unsigned long n;} T[] = {\n")
            for i, (decl, term) in enumerate(items):
                f.write(b"{a%d, sizeof(a%d)-%d},\n" % (i, i, term))
            f.write(b"};\n" + DUMP.encode())
        self.compiles += 1
        p = subprocess.run(["gcc", "-O0"] + self.flags + [base + ".c", "-o", base + ".exe"], stdout=subprocess.PIPE,
                           stderr=subprocess.PIPE, timeout=900)
        if p.returncode != 0:
            err = [l.split(".c:", 1)[-1] for l in p.stderr.decode("utf-8", "replace").split("\n") if "error" in l][:2]
            for ext in (".c", ".exe"):
                if os.path.exists(base + ext):
                    os.unlink(base + ext)
            return None, " | ".join(err)[:300]
        q = subprocess.run([base + ".exe"], stdout=subprocess.PIPE, timeout=300)
        for ext in (".c", ".exe"):
            os.unlink(base + ext)
        out = q.stdout.decode().split("\n")
        if out and out[-1] == "":
            out.pop()
        if q.returncode != 0 or len(out) != len(items):
            raise lib.Infra("gcc dump program failed rc=%s lines=%d/%d" % (q.returncode, len(out), len(items)))
        return [bytes.fromhex(x) for x in out], ""

    def _robust(self, items, budget):
        res, err = self._compile(items)
        if res is not None:
            return res
        if len(items) == 1:
            return [GccReject(err)]
        if budget[0] <= 0:
            return [None] * len(items)
        budget[0] -= 1
        mid = len(items) // 2
        return self._robust(items[:mid], budget) + self._robust(items[mid:], budget)

    def read(self, items):
        """list of bytes | GccReject | None (not determined: budget of bisection compiles exhausted)."""
        if not items:
            return []
        # chunk by count and by size (a few MB of C per compile)
        chunks, cur, size = [], [], 0
        for it in items:
            cur.append(it)
            size += len(it[0])
            if len(cur) >= CHUNK or size > 3_000_000:
                chunks.append(cur)
                cur, size = [], 0
        if cur:
            chunks.append(cur)
        with cf.ThreadPoolExecutor(max_workers=min(16, os.cpu_count() or 4)) as ex:
            parts = list(ex.map(lambda ch: self._robust(ch, [40]), chunks))
        return [r for part in parts for r in part]


def strdecl(text):
    """`static const char NAME[] = <literal>;` for a literal text (bytes, already with its quotes)."""
    return (b"static const char " + PH + b"[] = " + text + b";", 1)


# --------------------------------------------------------------------------
# case generators


CRIT = [0x5c, 0x22, 0x27, 0x3f, 0x2f, 0x3d, 0x28, 0x30, 0x37, 0x38, 0x39, 0x61, 0x78, 0x6e, 0x0a, 0x0d, 0x09, 0x00, 0x01,
        0x1f, 0x20, 0x7e, 0x7f, 0x80, 0xff]


def motifs():
    m = []
    for n in range(1, 8):
        m.append(b"\\" * n)
    for n in range(1, 6):
        m.append(b"?" * n)
        m.append(b"?" * n + b"/")
        m.append(b"?" * n + b"=")
    for d in b"0179a":
        m.append(b"\x01" + bytes([d]) * 3)
        m.append(b"\x00\x00" + bytes([d]))
    m += [b'"' * n for n in (1, 2, 3)]
    m += [b"\n\r\t", b"'", b"''", b"\xff", b"\x7f", b"\x7f\xff", b"\\\"", b"\\?\\?", b"?\\?", b"\\n", b"\\x41", b"\\0",
          b"\x1f\x7f", b"a\\" * 4, b"\\a" * 4, b'\\"' * 3, b"\xff\\\\", b"\\\xff", b"??/\n", b"\x80??\x80"]
    return m


def long_cases(ctx, limits):
    """Adversarial byte strings whose ESCAPED text has a motif straddling a multiple of the limit."""
    rng = ctx.rng
    out = []
    ms = motifs()
    real = limits[0]
    small = [6, 7, 8, 9, 12, 31] if ctx.quick else [6, 7, 8, 9, 10, 11, 12, 13, 16, 31, 64]
    for L in [real] + small:
        offs = range(-1, 10)
        ks = (1, 2) if L == real else (1, 2, 3)
        sel = ms if (L != real or not ctx.quick) else ms[::2]
        for mot in sel:
            for k in ks:
                for d in offs:
                    n = k * L - d
                    if n < 0:
                        continue
                    fill = b"a" * n
                    tail = b"z" * rng.choice((0, 1, 5, L // 2))
                    out.append((fill + mot + tail, L))
        # pure backslash runs and runs after a short prefix (the all-backslash corner)
        for n in sorted(set([L // 2 + i for i in range(-4, 5)] + [L + i for i in range(-4, 5)] + [3 * L // 2 + 1, 2 * L, 5 * L // 2 + 3])):
            if n > 0:
                out.append((b"\\" * n, L))
                out.append((b"a" + b"\\" * n, L))
                out.append((b"ab" + b"\\" * n + b'"', L))
                out.append((b"\xff" + b"\\" * n, L))
                # a backslash run (all of it escaped pairs) directly followed by a byte that is emitted as an escape
                # sequence: a cut placed a few characters past the inspected run lands inside that escape
                for tail in (b"\xc3", b"\x01", b"'", b"??", b"\xc3\xa9z", b"\n0"):
                    out.append((b"\\" * n + tail, L))
                    out.append((b"a" + b"\\" * n + tail + b"7", L))
    # random token soup around several limits
    alpha = [b"\\", b"\\", b'"', b"?", b"?", b"\x01", b"\n", b"0", b"7", b"a", b"'", b"\xff", b"\x7f", b"/", b"="]
    for _ in range(ctx.n(400, 6000)):
        L = rng.choice([real] + small + small)
        n = rng.randrange(0, 3 * L if L != real else 2 * L + 50)
        heavy = rng.random() < 0.5
        b = b"".join(rng.choice(alpha[:7] if heavy else alpha) for _ in range(n))
        out.append((b, L))
    return out


def numtab_texts(ctx, limits):
    """Texts shaped like the base-32 number table of Code.py: digits joined by `\\000`."""
    rng = ctx.rng
    digs = b"0123456789abcdefghijklmnopqrstuv"
    out = []
    for L in [limits[0], 8, 13]:
        for _ in range(ctx.n(20, 200)):
            nums = []
            total = 0
            while total < 2 * L + 10:
                k = rng.choice((1, 1, 2, 3, 7, 30))
                w = bytes(rng.choice(digs) for _ in range(k))
                if rng.random() < 0.3:
                    w = b"-" + w
                nums.append(w)
                total += len(w) + 4
            out.append((nums, L))
    return out


def grammar_literals(ctx, tri):
    """Random sequences of adjacent string literals over the whole C99 grammar of escapes (and trigraphs when
    `tri`), valid by construction; used to compare the Lean reference lexer with gcc."""
    rng = ctx.rng
    simple = b"'\"?\\abfnrtv"
    plain = [c for c in range(32, 256) if c not in (0x22, 0x5c)]
    tris = b"=()'<!>-"   # ??/ handled separately (it produces a backslash)

    def esc_after_backslash():
        r = rng.random()
        if r < 0.4:
            return bytes([rng.choice(simple)]), False
        if r < 0.75:
            n = rng.choice((1, 2, 3))
            v = rng.randrange(0, 256 if n == 3 else 8 ** n)
            s = ("%o" % v).rjust(n, "0")[-n:]
            if n == 3 and int(s, 8) > 255:
                s = "377"
            return s.encode(), n < 3   # short octal: next char must not be an octal digit
        n = rng.choice((1, 2))
        v = rng.randrange(0, 16 ** n)
        return b"x" + (("%0" + str(n) + rng.choice("xX")) % v).encode(), "hex"

    out = []
    for _ in range(ctx.n(1500, 20000)):
        text = bytearray(b'"')
        guard = False
        for _ in range(rng.randrange(0, 14)):
            r = rng.random()
            piece = None
            if r < 0.3:
                c = rng.choice(plain) if rng.random() < 0.5 else rng.choice(b"?a0 9/f=")
                if guard is True and c in b"01234567":
                    c = 0x38
                if guard == "hex" and (chr(c) in "0123456789abcdefABCDEF"):
                    c = 0x67
                piece, g = bytes([c]), False
            elif r < 0.6:
                e, g = esc_after_backslash()
                piece = b"\\" + e
            elif r < 0.7 and tri:
                e, g = esc_after_backslash()
                piece = b"??/" + e
            elif r < 0.8:
                piece, g = b"??" + bytes([rng.choice(tris)]), False   # plain characters in gnu mode
            elif r < 0.9:
                piece, g = b"?" * rng.randrange(1, 5), False
            else:
                piece, g = b'""', False
            # a pending short octal / hex escape must not be continued by the next piece
            if guard is True and piece[:1] in b"01234567":
                piece = b"8" + piece
            if guard == "hex" and piece[:1] in b"0123456789abcdefABCDEF":
                piece = b"g" + piece
            if tri and piece[:1] == b"/" and text[-2:] == b"??":
                piece = b"=" + piece[1:]     # `??` followed by `/` would be an accidental `??/` = backslash
            text += piece
            guard = g
        text += b'"'
        out.append(bytes(text))
    return out


# --------------------------------------------------------------------------


def pbatch(ctx, lines, parts=8):
    """ctx.drv.batch over several driver processes (order preserved)."""
    if len(lines) < 2000:
        return ctx.drv.batch(lines) if lines else []
    n = (len(lines) + parts - 1) // parts
    blocks = [lines[i:i + n] for i in range(0, len(lines), n)]
    with cf.ThreadPoolExecutor(max_workers=parts) as ex:
        return [o for part in ex.map(ctx.drv.batch, blocks) for o in part]


class StubWriter:
    def __init__(self):
        self.lines = []

    def putln(self, code="", safe=False):
        self.lines.append(code)



def msvc_array_term(Code, S, PH, StubWriter):
    """1 if the MSVC array form written by the current source carries its own terminating NUL (since fix 83c27dd80), else 0."""
    w = StubWriter()
    Code._write_cstring_const(w, S.escape_byte_string(b"a"), PH.decode(), 65536)
    t = "\n".join(w.lines)
    t = t[t.index("{") + 1:t.index("}")] if "{" in t and "}" in t else ""
    return 1 if len([x for x in t.replace("\n", "").split(",") if x.strip()]) >= 2 else 0


def run(ctx):
    import Cython.Compiler.StringEncoding as S
    import Cython.Compiler.Code as Code
    for m in (S, Code):
        if not m.__file__.startswith(ctx.stage) or not m.__file__.endswith(".py"):
            raise lib.Infra("staged module not in use: %s" % m.__file__)
    notes = ctx.notes
    ctx.rule = ("byte strings: ALL of length <= 2 (quick) / <= 3 (thorough; the gcc leg reads all of length <= 2, all length-3 strings "
                "over a 25-byte critical alphabet and a seeded sample, the model leg all 2^24); adversarial long strings whose escaped "
                "text puts backslash runs, '?' runs, octal escapes followed by digits, quotes, high bytes at offsets -1..9 around "
                "multiples 1..3 of the limit, for the real limit and limits 6..64; all-backslash runs; seeded token soup; "
                "base-32 number-table texts; all 256 bytes for escape_char; random literals over the full C99 escape/trigraph "
                "grammar for the reference lexer. Distinct by (kind, bytes, limit); non-trivial = the emitted text differs from "
                "the raw bytes (something had to be escaped or split)")
    ctx.explanation = ("Theorems cover escape_byte_string + split_string_literal + as_c_string_literal, the chunk structure, the MSVC "
                       "array form, escape_char, for ALL byte strings and all well-formed constants. Not covered by a theorem: that every "
                       "C string literal anywhere in Code.py/ModuleNode.py goes through these functions (call sites are only listed), "
                       "and the C compiler itself (gcc is sampled against the Lean lexer, other compilers are not exhibited).")
    ctx.extra_trusted += ["Lean model `cLex`/`cCharLex` as the meaning of C99 5.1.1.2 phases 1,2,6 + 6.4.4.4/6.4.5 for literals "
                          "(compared with gcc -std=c99 -trigraphs -pedantic-errors and gcc default mode on every run)",
                          "extraction of the specials table from the closure of _build_specials_replacer and of limit/back by ast"]

    # ---------------- G: regenerated parameters
    tbl = extract_table(S, notes)
    limits, back, corner, single, nonconst = extract_split_params(S, Code, notes)
    T = table_arg(tbl)
    notes["table"] = [[k.hex(), v.decode("latin1")] for k, v in tbl]
    g_ok = True
    src = ("import CyVerif.Model.C11\nopen CyVerif.C11 in\nexample : tableWF %s = true := by decide +kernel\n" % lean_table(tbl))
    g_ok &= ctx.lean_obligation("tableWF(current _c_special table)", src,
                                "specials table re-extracted from the staged source satisfies CyVerif.C11.tableWF (%d entries)" % len(tbl))
    src = "import CyVerif.Model.C11\nopen CyVerif.C11 in\n" + "".join(
        "example : SplitParams.WF ⟨%d, %d, %d⟩ := by decide\n" % (l, back, corner) for l in limits)
    g_ok &= ctx.lean_obligation("SplitParams.WF(current limit, look-back)", src,
                                "limits %s (default of split_string_literal + constant call-site limits), look-back %d, corner %d satisfy WF"
                                % (limits, back, corner))
    if nonconst:
        ctx.obligation("constant limits at call sites", False, "non-constant limit passed at " + ", ".join(nonconst))
        g_ok = False
    if not single:
        ctx.obligation("split_string_literal constants translate to (limit, back, corner)", False,
                       "look-back constants %s, corner constants %s" % (notes["split_constants"]["look_back_constants"],
                                                                       notes["split_constants"]["corner_constants"]))
        g_ok = False
    pinned = ctx.drv.batch(["C11 tablewf " + T])[0]
    notes["tablewf_by_driver"] = pinned
    scale = 1 if g_ok else 3

    real_limit = int(inspect.signature(S.split_string_literal).parameters["limit"].default)
    limits_first = [real_limit] + [l for l in limits if l != real_limit]

    gccs = {m: Gcc(ctx, m) for m in MODES}
    import time as _time
    _t = [_time.time()]
    notes["timing_s"] = {}

    def lap(name):
        now = _time.time()
        notes["timing_s"][name] = round(now - _t[0], 1)
        _t[0] = now
    lap("extract+obligations")

    # a case: dict(kind, b (expected value), text (what the real code emitted, bytes), key for violations, replay)
    cases = []

    def impl_literal(b, L):
        """What the real code writes for the byte string b (limit None = the real as_c_string_literal path)."""
        try:
            if L is None:
                t = S.bytes_literal(b, None).as_c_string_literal()
            else:
                t = '"' + S.split_string_literal(S.escape_byte_string(b), L) + '"'
            return t.encode("latin1")
        except Exception as e:
            return e

    # ---------------- replay of one stored case
    rp = getattr(ctx, "replay_case", None)
    if rp and "case" in rp and "bytes" in rp["case"]:
        c = rp["case"]
        b = unhx(c["bytes"])
        L = c.get("limit")
        if c.get("kind") == "numtab":
            t = ('"' + (S.split_string_literal(c["text"]) if L in (None, real_limit) else S.split_string_literal(c["text"], L)) + '"').encode("latin1")
            items = [strdecl(t)]
        elif c.get("kind") == "writer":
            w = StubWriter()
            if c.get("form") == "string":
                Code._write_escaped_cstring_const(w, b, PH.decode())
            else:
                Code._write_cstring_const(w, S.escape_byte_string(b), PH.decode(), 65536)
            items = [("\n".join(w.lines).encode("latin1"), msvc_array_term(Code, S, PH, StubWriter) if c.get("form") == "msvc-array" else 1)]
            if c.get("form") == "msvc-array":
                gccs = {m: Gcc(ctx, m, ("-D_MSC_VER=1900",)) for m in MODES}
        elif c.get("kind", "lit") == "charlit":
            t = S.escape_char(b)
            items = [(b"static const char " + PH + b"[] = {'" + t.encode("latin1") + b"'};", 0)]
        else:
            t = impl_literal(b, L)
            if isinstance(t, Exception):
                ctx.violation("strlit-exception", "replay: %r raises %r" % (b, t), c)
                return
            items = [strdecl(t)]
        for mode, g in gccs.items():
            got = g.read(items)[0]
            ctx.count("replay")
            ctx.sample({"replay": c, "mode": mode, "gcc": repr(got)})
            if got != b:
                ctx.violation(c.get("key", "strlit-misread"), "replay: gcc(%s) reads %r for %r" % (mode, got, b), c)
        return

    # ---------------- 1. escape_byte_string: exhaustive small strings (model vs impl), gcc on all <= 2
    def esc_block(cases_b):
        lines = []
        for i in range(0, len(cases_b), 2048):
            lines.append("C11 esc " + T + " " + " ".join(hx(c) for c in cases_b[i:i + 2048]))
        res = []
        for l in ctx.drv.batch(lines):
            if not l.startswith("ok "):
                raise lib.Infra("driver: " + l[:200])
            res += l[3:].split(" ")
        return res

    small = [bytes(t) for n in range(3) for t in itertools.product(range(256), repeat=n)]
    mres = esc_block(small)
    esc_mismatch = []
    for b, m in zip(small, mres):
        try:
            e = S.escape_byte_string(b).encode("latin1")
        except Exception as ex:
            ctx.violation("escape-exception", "escape_byte_string(%r) raises %r" % (b, ex), {"bytes": hx(b), "kind": "lit", "limit": None})
            continue
        if hx(e) != m:
            esc_mismatch.append(b)
            ctx.tie_break("D-py escape_byte_string vs CyVerif.C11.esc", "%r: impl %r model %r" % (b, e, unhx(m)),
                          {"bytes": hx(b), "kind": "lit", "limit": None})
        cases.append({"kind": "lit", "b": b, "limit": None, "text": impl_literal(b, None), "dist": "exhaustive/len%d" % len(b)})
    ctx.notes["exhaustive"] = "all byte strings of length <= 2 (65793): model = impl text, gcc reads impl literal in both modes"

    crit3 = [bytes(t) for t in itertools.product(CRIT, repeat=3)]
    rnd3 = [bytes(ctx.rng.randrange(256) for _ in range(3)) for _ in range(ctx.n(3000, 200000) * scale)]
    for b in crit3 + rnd3:
        cases.append({"kind": "lit", "b": b, "limit": None, "text": impl_literal(b, None), "dist": "len3/critical+random"})

    if not ctx.quick:
        # all 2^24 strings of length 3: model text == impl text (the theorem then covers each of them)
        bad3 = 0
        escape = S.escape_byte_string
        pool = cf.ThreadPoolExecutor(max_workers=4)
        pending = []

        def flush(a, blk, fut):
            nonlocal bad3
            res = fut.result()
            for b, m in zip(blk, res):
                e = escape(b).encode("latin1")
                if (e.hex() or "-") != m:
                    bad3 += 1
                    if bad3 <= 50:
                        esc_mismatch.append(b)
                        ctx.tie_break("D-py escape_byte_string vs CyVerif.C11.esc", "%r: impl %r model %r" % (b, e, unhx(m)),
                                      {"bytes": hx(b), "kind": "lit", "limit": None})
            ctx.count("exhaustive/len3-model-vs-impl", len(blk))

        for a in range(256):
            blk = [bytes((a, x, y)) for x in range(256) for y in range(256)]
            pending.append((a, blk, pool.submit(esc_block, blk)))
            if len(pending) >= 4:
                flush(*pending.pop(0))
        while pending:
            flush(*pending.pop(0))
        pool.shutdown()
        ctx.notes["exhaustive_len3"] = "all 16777216 byte strings of length 3: model text vs impl text, %d mismatches" % bad3
        for b in esc_mismatch[:2000]:
            if len(b) == 3:
                cases.append({"kind": "lit", "b": b, "limit": None, "text": impl_literal(b, None), "dist": "len3/mismatch"})

    # ---------------- 2. splitting: corpus first, then adversarial long strings
    cdir = os.path.join(lib.VERIF, "corpus", "C11")
    for fn in sorted(os.listdir(cdir)) if os.path.isdir(cdir) else []:
        if fn.endswith(".json"):
            for cc in json.load(open(os.path.join(cdir, fn))).get("cases", []):
                b = b"".join(unhx(h) * n for h, n in cc["parts"])
                L = cc.get("limit")
                cases.append({"kind": "lit", "b": b, "limit": L, "modlimit": L or real_limit, "text": impl_literal(b, L),
                              "dist": "long/corpus"})
    for b, L in long_cases(ctx, limits_first):
        useL = None if (L == real_limit and ctx.rng.random() < 0.5) else L
        cases.append({"kind": "lit", "b": b, "limit": useL, "modlimit": L, "text": impl_literal(b, useL), "dist": "long/limit%d" % L})
    # embed every small mismatch next to a boundary as well (search around a broken correspondence)
    for b in esc_mismatch[:40]:
        for L in (real_limit, 8):
            for d in range(0, 6):
                bb = b"a" * (L - d) + b + b"zz"
                cases.append({"kind": "lit", "b": bb, "limit": L, "text": impl_literal(bb, L), "dist": "long/around-mismatch"})

    # ---------------- 3. number-table texts (the other caller of split_string_literal in Code.py)
    for nums, L in numtab_texts(ctx, limits_first):
        c_string = b"\\000".join(nums).decode("ascii")
        useL = None if L == real_limit else L
        try:
            t = S.split_string_literal(c_string) if useL is None else S.split_string_literal(c_string, L)
        except Exception as e:
            ctx.violation("numtab-exception", "split_string_literal raises %r" % e, {"text": c_string, "limit": L})
            continue
        value = b"\x00".join(nums)
        cases.append({"kind": "numtab", "b": value, "limit": L, "text": ('"' + t + '"').encode("latin1"), "raw": c_string,
                      "dist": "numtab/limit%d" % L})
    lap("generate+impl")
    # model leg for all `lit` cases beyond the exhaustive ones: text and cLex of it
    lit_long = [c for c in cases if c["dist"].startswith("long")]
    lines = ["C11 lit %s %d %d %d %s" % (T, c.get("modlimit") or c["limit"] or real_limit, back, corner, hx(c["b"])) for c in lit_long]
    for c, out in zip(lit_long, pbatch(ctx, lines)):
        c["model"] = out
    # model leg (cLex on the IMPLEMENTATION's text) for the short cases: batch `clex`
    short = [c for c in cases if "model" not in c and not isinstance(c["text"], Exception)]
    for tri in ("1", "0"):
        outs = pbatch(ctx, ["C11 clex %s %s" % (tri, hx(c["text"])) for c in short])
        for c, o in zip(short, outs):
            c["clex" + tri] = o

    nt = [c for c in cases if c["kind"] == "numtab"]
    outs = ctx.drv.batch(["C11 split %d %d %d %s" % (c["limit"], back, corner, hx(c["raw"].encode())) for c in nt]) if nt else []
    for c, o in zip(nt, outs):
        want = "ok " + hx(c["text"][1:-1])
        if o != want:
            ctx.tie_break("D-py split_string_literal vs CyVerif.C11.split", "number-table text, limit %d: model %s impl %s"
                          % (c["limit"], o[:80], want[:80]), {"text": c["raw"], "limit": c["limit"]})

    lap("model-legs")
    # ---------------- oracle leg: gcc reads what the real code emitted
    good = [c for c in cases if not isinstance(c["text"], Exception)]
    for c in cases:
        if isinstance(c["text"], Exception):
            ctx.violation("strlit-exception", "emitting the literal for %r (limit %s) raises %r" % (c["b"][:40], c["limit"], c["text"]),
                          {"bytes": hx(c["b"]), "limit": c["limit"], "kind": "lit"})
    # texts the Lean lexer does not read back as b are compiled one by one (a malformed literal would
    # otherwise poison a whole compilation unit); at most 24 of them, the others stay undetermined
    def lean_reads_back(c):
        if "model" in c:
            parts = c["model"].split(" ")
            return len(parts) == 4 and parts[0] == "ok" and unhx(parts[1]) == c["text"] and \
                parts[2] != "none" and parts[3] != "none" and unhx(parts[2]) == c["b"] and unhx(parts[3]) == c["b"]
        return all(c.get("clex" + t) == "ok " + hx(c["b"]) for t in ("1", "0"))

    suspects = [i for i, c in enumerate(good) if not lean_reads_back(c)]
    notes["literals_not_read_back_by_cLex"] = len(suspects)
    sus = set(suspects)
    bulk_idx = [i for i in range(len(good)) if i not in sus]
    reads = {}
    for m, g in gccs.items():
        r = [None] * len(good)
        for i, v in zip(bulk_idx, g.read([strdecl(good[i]["text"]) for i in bulk_idx])):
            r[i] = v
        pick = sorted(suspects, key=lambda i: len(good[i]["b"]))[:24]
        with cf.ThreadPoolExecutor(max_workers=12) as ex:
            for i, v in zip(pick, ex.map(lambda i: g._robust([strdecl(good[i]["text"])], [0])[0], pick)):
                r[i] = v
        reads[m] = r
    lap("gcc-literals")
    nsample = 0
    for idx, c in enumerate(good):
        b = c["b"]
        text = c["text"]
        ctx.count(c["dist"])
        nontriv = text[1:-1] != b
        ctx.seen((c["kind"], b, c["limit"]), nontrivial=nontriv)
        rep = {"bytes": hx(b), "limit": c["limit"], "kind": "lit" if c["kind"] == "lit" else c["kind"]}
        if c["kind"] == "numtab":
            rep = {"text": c["raw"], "limit": c["limit"], "kind": "numtab", "bytes": hx(b)}
        small_case = len(b) <= 64
        for m in MODES:
            got = reads[m][idx]
            if got is None:
                ctx.count("gcc-undetermined")
                continue
            if isinstance(got, GccReject):
                ctx.violation("%s-rejected" % ("strlit" if c["kind"] == "lit" else c["kind"]),
                              "gcc (%s) rejects the literal emitted for %s (limit %s): %s"
                              % (m, repr(b) if small_case else "%d bytes" % len(b), c["limit"], got.msg), dict(rep, key="%s-rejected" % ("strlit" if c["kind"] == "lit" else c["kind"])))
            elif got != b:
                ctx.violation("%s-misread" % ("strlit" if c["kind"] == "lit" else c["kind"]),
                              "gcc (%s) reads %s instead of %s from the emitted literal (limit %s)"
                              % (m, repr(got) if small_case else "%d bytes" % len(got), repr(b) if small_case else "%d bytes" % len(b),
                                 c["limit"]), dict(rep, key="%s-misread" % ("strlit" if c["kind"] == "lit" else c["kind"])))
            # Lean reference lexer vs gcc on the same text
            if "model" in c:
                parts = c["model"].split(" ")
                if parts[0] != "ok" or len(parts) != 4:
                    ctx.tie_break("model emits a literal", "%r limit %s: %s" % (b[:40], c["limit"], c["model"][:100]), rep)
                    continue
                mtext, lex1, lex0 = parts[1], parts[2], parts[3]
                if m == "c99tri" and unhx(mtext) != text:
                    ctx.tie_break("D-py as_c_string_literal vs CyVerif.C11.asCStringLiteral",
                                  "bytes %s limit %s: texts differ (impl %d chars, model %d chars)" % (hx(b)[:80], c["limit"], len(text), len(unhx(mtext))), rep)
                lexed = lex1 if m == "c99tri" else lex0
                if unhx(mtext) == text and not isinstance(got, GccReject):
                    if lexed == "none" or unhx(lexed) != got:
                        ctx.tie_break("cLex vs gcc (%s)" % m, "emitted text for %s: cLex %s gcc %r" % (hx(b)[:80], lexed[:80], got[:40]), rep)
            else:
                o = c.get("clex" + TRI[m])
                lexed = None if o in (None, "ok none") else unhx(o[3:])
                if isinstance(got, GccReject):
                    if lexed is not None:
                        ctx.tie_break("cLex vs gcc (%s)" % m, "text %r: cLex %r, gcc rejects" % (text[:60], lexed[:40]), rep)
                elif lexed != got:
                    # cLex is deliberately stricter on raw control characters
                    if not (lexed is None and any(x < 32 for x in text)):
                        ctx.tie_break("cLex vs gcc (%s)" % m, "text %r: cLex %r gcc %r" % (text[:60], lexed, got[:40]), rep)
        if nontriv and nsample < 3 and c["dist"].startswith("long") and len(b) < 40:
            nsample += 1
            ctx.sample({"bytes": hx(b), "limit": c["limit"], "emitted": text.decode("latin1"), "gcc_c99tri": hx(reads["c99tri"][idx] or b"")})
    ctx.sample({"bytes": "3f3f2f5c220aff7f", "emitted": impl_literal(b"??/\\\"\n\xff\x7f", None).decode("latin1")})

    lap("compare")
    # ---------------- 4. escape_char: all 256 bytes, three-way
    ch_items = []
    mout = ctx.drv.batch(["C11 escchar %d" % c for c in range(256)])
    impl_ch = []
    for c in range(256):
        try:
            t = S.escape_char(bytes([c])).encode("latin1")
        except Exception as e:
            ctx.violation("charlit-exception", "escape_char(%d) raises %r" % (c, e), {"bytes": hx(bytes([c])), "kind": "charlit"})
            t = b"?"
        impl_ch.append(t)
        if "ok " + hx(t) != mout[c]:
            ctx.tie_break("D-py escape_char vs CyVerif.C11.escapeChar", "byte %d: impl %r model %s" % (c, t, mout[c]),
                          {"bytes": hx(bytes([c])), "kind": "charlit"})
        ch_items.append((b"static const char " + PH + b"[] = {'" + t + b"'};", 0))
    for m, g in gccs.items():
        got = g.read(ch_items)
        lex = ctx.drv.batch(["C11 cchar %s %s" % (TRI[m], hx(b"'" + t + b"'")) for t in impl_ch])
        for c in range(256):
            ctx.count("escape_char")
            ctx.seen(("charlit", c), nontrivial=impl_ch[c] != bytes([c]))
            rep = {"bytes": hx(bytes([c])), "kind": "charlit", "key": "charlit-misread"}
            if isinstance(got[c], GccReject):
                ctx.violation("charlit-rejected", "gcc (%s) rejects '%s' emitted by escape_char(%d)" % (m, impl_ch[c].decode("latin1"), c),
                              dict(rep, key="charlit-rejected"))
            elif got[c] is not None and got[c] != bytes([c]):
                ctx.violation("charlit-misread", "gcc (%s) reads %r from '%s' emitted by escape_char(%d)"
                              % (m, got[c], impl_ch[c].decode("latin1"), c), rep)
            want = "ok %d" % got[c][0] if isinstance(got[c], bytes) and len(got[c]) == 1 else "ok none"
            if got[c] is not None and lex[c] != want:
                ctx.tie_break("cCharLex vs gcc (%s)" % m, "'%s': cCharLex %s gcc %r" % (impl_ch[c].decode("latin1"), lex[c], got[c]), rep)
    ctx.sample({"escape_char": {str(c): impl_ch[c].decode("latin1") for c in (9, 39, 34, 63, 92, 127, 255)}})

    lap("escape_char")
    # ---------------- 5. the string-table writer of Code.py: string form and MSVC array form
    wr_cases = [bytes([c]) for c in range(256)] + [b"", b"??=", b"\\\\\\", b"a\"b'c?d", b"\x01" + b"0" * 5, b"\xff??/"]
    wr_cases += [bytes(ctx.rng.randrange(256) for _ in range(ctx.rng.randrange(2, 30))) for _ in range(ctx.n(300, 3000))]
    wr_cases += [b for b, L in long_cases(ctx, limits_first)[:: (211 if ctx.quick else 23)]]
    w_items, w_items_arr = [], []
    sc_lines = []
    for b in wr_cases:
        try:
            w = StubWriter()
            Code._write_escaped_cstring_const(w, b, PH.decode())
            w2 = StubWriter()
            e = S.escape_byte_string(b)
            Code._write_cstring_const(w2, e, PH.decode(), 65536)       # force the MSVC-guarded array form
            toks = Code._split_characters(e)
        except Exception as ex:
            ctx.violation("writer-exception", "_write_cstring_const for %r raises %r" % (b[:40], ex), {"bytes": hx(b), "kind": "writer"})
            w_items.append(None)
            continue
        w_items.append(("\n".join(w.lines).encode("latin1"), 1, "\n".join(w2.lines).encode("latin1"), ",".join(hx(t.encode("latin1")) for t in toks)))
        sc_lines.append("C11 splitchars " + hx(e.encode("latin1")))
    ok_idx = [i for i, x in enumerate(w_items) if x is not None]
    mout = ctx.drv.batch(sc_lines) if sc_lines else []
    for i, o in zip(ok_idx, mout):
        want = "ok " + w_items[i][3]
        if o != want and not (w_items[i][3] == "" and o == "ok "):
            ctx.tie_break("D-py Code._split_characters vs CyVerif.C11.splitCharacters", "%r: impl %s model %s" % (wr_cases[i][:30], want[:80], o[:80]),
                          {"bytes": hx(wr_cases[i]), "kind": "writer"})
    arr_term = msvc_array_term(Code, S, PH, StubWriter)
    ctx.notes["msvc_array_form_carries_nul"] = bool(arr_term)
    forms = [(form, extra, pick, term, m) for form, extra, pick, term in
             (("string", (), 0, 1), ("string-else-branch", (), 2, 1), ("msvc-array", ("-D_MSC_VER=1900",), 2, arr_term)) for m in MODES]
    with cf.ThreadPoolExecutor(max_workers=6) as ex:
        w_reads = list(ex.map(lambda f: Gcc(ctx, f[4], f[1]).read([(w_items[i][f[2]], f[3]) for i in ok_idx]), forms))
    for (form, extra, pick, term, m), got in zip(forms, w_reads):
        for i, r in zip(ok_idx, got):
            b = wr_cases[i]
            ctx.count("writer/" + form)
            ctx.seen(("writer", form, b))
            rep = {"bytes": hx(b), "kind": "writer", "form": form}
            if b == b"" and form == "msvc-array":
                continue   # `{}` (empty initialiser) is not produced by the compiler: constants >= 64K only
            if isinstance(r, GccReject):
                ctx.violation("writer-%s-rejected" % form, "gcc (%s) rejects the %s form written for %s: %s"
                              % (m, form, repr(b) if len(b) < 60 else "%d bytes" % len(b), r.msg), rep)
            elif r is not None and r != b:
                ctx.violation("writer-%s-misread" % form, "gcc (%s) reads %r from the %s form written for %r" % (m, r[:40], form, b[:40]), rep)

    lap("writer")
    # ---------------- 6. the reference lexer against gcc over the whole escape / trigraph grammar
    for m in MODES:
        lits = grammar_literals(ctx, m == "c99tri")
        got = gccs[m].read([strdecl(t) for t in lits])
        lex = ctx.drv.batch(["C11 clex %s %s" % (TRI[m], hx(t)) for t in lits])
        for t, r, o in zip(lits, got, lex):
            ctx.count("clex-grammar/" + m)
            ctx.seen(("grammar", m, t))
            if r is None:
                continue
            want = "ok none" if isinstance(r, GccReject) else "ok " + hx(r)
            if o != want:
                ctx.tie_break("cLex vs gcc (%s) on the C99 literal grammar" % m, "%r: cLex %s gcc %s" % (t, o, want), {"text": t.decode("latin1"), "mode": m})
    # texts the lexer must reject (gcc -pedantic-errors rejects them too)
    neg = [b'"\\q"', b'"\\400"', b'"\\x"', b'"\\x100"', b'"a\\"', b'"abc', b'"a\nb"', b'"\\e"', b'"\\8"']
    for m in MODES:
        outs = ctx.drv.batch(["C11 clex %s %s" % (TRI[m], hx(t)) for t in neg])
        for t, o in zip(neg, outs):
            res, err = gccs[m]._compile([strdecl(t)])
            ctx.count("clex-negative")
            if (res is None) != (o == "ok none"):
                ctx.tie_break("cLex vs gcc (%s) on malformed literals" % m, "%r: cLex %s, gcc %s" % (t, o, "rejects" if res is None else "accepts"),
                              {"text": t.decode("latin1"), "mode": m})

    lap("grammar")
    # ---------------- 7. line coverage of the modelled functions under the differential inputs
    try:
        cov_in = [(c["b"], c["limit"]) for c in cases if c["dist"].startswith("long")]
        cov_in = cov_in[:60] + cov_in[60::max(1, len(cov_in) // 400)] + [(c["b"], None) for c in cases[:300:7]]
        notes["line_coverage"] = line_coverage(S, Code, cov_in, ctx)
    except Exception as e:   # coverage is supporting information only
        notes["line_coverage"] = "not measured: %r" % e

    # ---------------- 8. end to end: a module compiled by the staged compiler, gcc, constants read back at run time
    lap("coverage")
    e2e(ctx, real_limit)
    lap("end-to-end")
    notes["gcc_compiles"] = sum(g.compiles for g in gccs.values())
    notes["call_sites"] = call_sites(S, Code)


def pylit(b):
    return 'b"' + "".join("\\x%02x" % x for x in b) + '"'


def e2e(ctx, L):
    """Python bytes constants (string table, possibly compressed), C string constants (`const char*`) and
    character constants of a real module: staged compiler -> gcc -> import -> values."""
    rng = ctx.rng
    consts = [b"??/", b"??=??(??)", b"a??", b"\\" * 7, b'"\'"', bytes(range(256)), b"\x7f", b"\x7f\xff", b"\x01" + b"123", b"",
              b"a" * (L - 3) + b"\\\\\\" + b"z" * 9, b"\\" * (L + 7), b"a" * (L - 2) + b"\n\n??" + b"b" * (L + 1),
              b"a" * (L - 1) + b"\x01" + b"7" * L, b"?" * (L + 3), b"x" * (L - 1) + b'"' * 5]
    consts += [bytes(rng.randrange(256) for _ in range(rng.randrange(1, 40))) for _ in range(12)]
    src = ["# cython: language_level=3", "B = ["] + ["    %s," % pylit(b) for b in consts] + ["]", "def pyconsts():", "    return B", ""]
    src += ["def cstr(int i):", "    cdef const char* p = NULL", "    cdef Py_ssize_t n = 0"]
    for i, b in enumerate(consts):
        src += ["    %s i == %d:" % ("if" if i == 0 else "elif", i), "        p = %s" % pylit(b + b"!"), "        n = %d" % len(b)]
    src += ["    return p[:n]", "", "def chars():", "    return ["]
    src += ["        <unsigned char>c'\\x%02x'," % c for c in range(256)] + ["    ]", ""]
    source = "\n".join(src)
    specs = [dict(name="c11e2e", source=source, cflags=[]), dict(name="c11e2e", source=source, cflags=["-DCYTHON_COMPRESS_STRINGS=0"])]
    builds = cybuild.build_many(ctx, specs)
    for spec, so in zip(specs, builds):
        tag = "e2e/" + (" ".join(spec["cflags"]) or "default")
        if isinstance(so, cybuild.BuildError):
            ctx.violation("e2e-build-%s" % so.stage, "module with adversarial constants does not build (%s): %s" % (so.stage, so.log[-300:]),
                          {"module": source, "cflags": spec["cflags"]})
            continue
        cases = [("pyconsts", "()")] + [("cstr", "(%d,)" % i) for i in range(len(consts))] + [("chars", "()")]
        outs = cybuild.run_cases(ctx, so, cases)
        exp = ["ok list:[" + ";".join("bytes:" + repr(b) for b in consts) + "]"] + ["ok bytes:" + repr(b) for b in consts] + \
              ["ok list:[" + ";".join("int:%d" % c for c in range(256)) + "]"]
        for (fn, a), got, want in zip(cases, outs, exp):
            ctx.count(tag + "/" + fn)
            ctx.seen((tag, fn, a))
            if got != want:
                ctx.violation("e2e-%s" % fn, "%s%s of the compiled module returns %s, expected %s" % (fn, a, got[:120], want[:120]),
                              {"module": source, "cflags": spec["cflags"], "func": fn, "args": a})


def call_sites(S, Code):
    """Where the modelled functions are called in Code.py (listed, not verified)."""
    out = []
    for mod in (S, Code):
        for i, line in enumerate(open(mod.__file__), 1):
            for nm in ("split_string_literal(", "escape_byte_string(", "escape_char(", "_split_characters(", "_write_cstring_const(",
                       "_write_escaped_cstring_const("):
                if nm in line and not line.lstrip().startswith("def "):
                    out.append("%s:%d %s" % (os.path.basename(mod.__file__), i, nm[:-1]))
    return out


def line_coverage(S, Code, inputs, ctx):
    """Lines of the modelled functions executed by (a subset of) the differential inputs of this run."""
    funcs = {}

    def add(name, f):
        code = getattr(f, "__code__", None)
        if code is not None:
            funcs[code] = name

    add("escape_byte_string", S.escape_byte_string)
    add("split_string_literal", S.split_string_literal)
    add("escape_char", S.escape_char)
    add("_to_escape_sequence", S._to_escape_sequence)
    add("_build_specials_replacer", S._build_specials_replacer)
    add("_write_cstring_const", Code._write_cstring_const)
    add("_write_escaped_cstring_const", Code._write_escaped_cstring_const)
    for const in S._build_specials_replacer.__code__.co_consts:
        if hasattr(const, "co_name") and const.co_name in ("replace_specials", "replace"):
            funcs[const] = "_build_specials_replacer." + const.co_name
    hit = {c: set() for c in funcs}

    def tracer(frame, event, arg):
        if frame.f_code in hit:
            if event == "line":
                hit[frame.f_code].add(frame.f_lineno)
            return tracer
        return None

    sys.settrace(tracer)
    try:
        rep = S._build_specials_replacer()
        for k, (b, L) in enumerate(inputs):
            rep(b)
            e = S.escape_byte_string(b)
            if L is None:
                S.split_string_literal(e)
            else:
                S.split_string_literal(e, L)
            if k % 5 == 0:
                w = StubWriter()
                Code._write_escaped_cstring_const(w, b, "x")
                Code._write_cstring_const(w, e, "x", 70000)
        for c in range(256):
            S.escape_char(bytes([c]))
    finally:
        sys.settrace(None)
    res = {}
    for code, name in funcs.items():
        lines = set(l for _, _, l in code.co_lines() if l is not None and l != code.co_firstlineno)
        # nested function definitions report their `def` line in the parent; keep it
        miss = sorted(lines - hit[code])
        res[name] = {"lines": len(lines), "executed": len(lines & hit[code]), "missed": miss}
    return res

"""C42: AST scan for order-sensitive consumers of unordered collections (sets) in the compiler sources."""
import ast, os, sys, json
SET_METHODS = {"difference", "union", "intersection", "symmetric_difference"}
ORDER_FREE_WRAPPERS = {"sorted", "set", "frozenset", "len", "min", "max", "sum", "any", "all", "bool"}

def last_name(e):
    if isinstance(e, ast.Name):
        return e.id
    if isinstance(e, ast.Attribute):
        return "." + e.attr
    return None

def is_set_ctor(e, setnames):
    """expression statically known to evaluate to a set/frozenset"""
    if isinstance(e, (ast.Set, ast.SetComp)):
        return True
    if isinstance(e, ast.Call):
        f = e.func
        if isinstance(f, ast.Name) and f.id in ("set", "frozenset"):
            return True
        if isinstance(f, ast.Attribute) and f.attr in SET_METHODS:
            return True
        if isinstance(f, ast.Attribute) and f.attr == "copy" and last_name(f.value) in setnames:
            return True
        if isinstance(f, ast.Attribute) and f.attr == "setdefault" and len(e.args) == 2 and is_set_ctor(e.args[1], setnames):
            return True
    if isinstance(e, ast.BinOp) and isinstance(e.op, (ast.BitOr, ast.BitAnd, ast.Sub, ast.BitXor)):
        return is_set_expr(e.left, setnames) or is_set_expr(e.right, setnames)
    if isinstance(e, ast.IfExp):
        return is_set_ctor(e.body, setnames) or is_set_ctor(e.orelse, setnames)
    if isinstance(e, ast.BoolOp):
        return any(is_set_ctor(v, setnames) for v in e.values)
    return False

def is_set_expr(e, setnames):
    if is_set_ctor(e, setnames):
        return True
    n = last_name(e)
    if n is not None and n in setnames:
        return True
    if isinstance(e, ast.Subscript) and not isinstance(e.slice, ast.Slice):
        n = last_name(e.value)
        if n is not None and (n + "[]") in setnames:
            return True
    return False

def collect_setnames(tree, bare=True):
    """names / attribute names / dict-of-set names bound to sets somewhere in the file (flow-insensitive, to a fixpoint)"""
    return collect_setnames_nodes(tree, set(), walk_all=True)

def collect_setnames_nodes(scope, seed, walk_all=False):
    names = set(seed)
    nodes = list(ast.walk(scope)) if walk_all else ([scope] + scope_nodes(scope))
    for _ in range(4):
        before = len(names)
        for node in nodes:
            targets, value = [], None
            if isinstance(node, ast.Assign):
                targets, value = node.targets, node.value
            elif isinstance(node, ast.AnnAssign):
                targets, value = [node.target], node.value
                ann = node.annotation
                if isinstance(ann, ast.Name) and ann.id in ("set", "frozenset"):
                    n = last_name(node.target)
                    if n: names.add(n)
            elif isinstance(node, ast.AugAssign) and isinstance(node.op, (ast.BitOr, ast.BitAnd, ast.Sub)):
                if is_set_expr(node.value, names):
                    n = last_name(node.target)
                    if n: names.add(n)
            elif isinstance(node, (ast.FunctionDef, ast.AsyncFunctionDef, ast.Lambda)):
                a = node.args
                pos = a.posonlyargs + a.args
                for arg, d in zip(pos[len(pos) - len(a.defaults):], a.defaults):
                    if is_set_ctor(d, names): names.add(arg.arg)
                for arg, d in zip(a.kwonlyargs, a.kw_defaults):
                    if d is not None and is_set_ctor(d, names): names.add(arg.arg)
                for arg in pos + a.kwonlyargs:
                    ann = arg.annotation
                    if isinstance(ann, ast.Name) and ann.id in ("set", "frozenset"): names.add(arg.arg)
            elif isinstance(node, ast.Call):
                f = node.func
                # cython.declare(x=set) / defaultdict(set)
                if isinstance(f, ast.Attribute) and f.attr == "declare":
                    for kw in node.keywords:
                        if isinstance(kw.value, ast.Name) and kw.value.id in ("set", "frozenset") and kw.arg: names.add(kw.arg)
            if value is not None:
                for t in targets:
                    tl = t.elts if isinstance(t, ast.Tuple) and isinstance(value, ast.Tuple) and len(t.elts) == len(value.elts) else None
                    pairs = list(zip(tl, value.elts)) if tl else [(t, value)]
                    for tt, vv in pairs:
                        n = last_name(tt)
                        if n is None and isinstance(tt, ast.Subscript):
                            n0 = last_name(tt.value)
                            if n0 and is_set_expr(vv, names): names.add(n0 + "[]")
                            continue
                        if n is None: continue
                        if is_set_expr(vv, names): names.add(n)
                        if isinstance(vv, ast.Call) and isinstance(vv.func, ast.Name) and vv.func.id == "defaultdict" and vv.args \
                                and isinstance(vv.args[0], ast.Name) and vv.args[0].id in ("set", "frozenset"):
                            names.add(n + "[]")
        if len(names) == before: break
    return names

def nonset_attrs(tree):
    """attribute / bare names that are somewhere bound to something that is definitely not a set"""
    out = set()
    for node in ast.walk(tree):
        if isinstance(node, ast.Assign):
            targets, v = node.targets, node.value
        elif isinstance(node, ast.AnnAssign) and node.value is not None:
            targets, v = [node.target], node.value
        else:
            continue
        bad = isinstance(v, (ast.List, ast.ListComp, ast.Tuple, ast.Dict, ast.DictComp)) or \
            (isinstance(v, ast.Constant) and v.value is not None) or \
            (isinstance(v, ast.Call) and isinstance(v.func, ast.Name) and v.func.id in ("list", "tuple", "dict", "sorted", "OrderedDict"))
        if bad:
            for t in targets:
                n = last_name(t)
                if n and n.startswith("."): out.add(n)
    return out

def scope_nodes(fn):
    """nodes of one function scope, not descending into nested functions/classes (those are scopes of their own)"""
    out = []
    stack = list(ast.iter_child_nodes(fn))
    while stack:
        n = stack.pop()
        out.append(n)
        if isinstance(n, (ast.FunctionDef, ast.AsyncFunctionDef, ast.ClassDef)):
            continue
        stack.extend(ast.iter_child_nodes(n))
    return out

def scan_file(path, rel, attr_pool=()):
    src = open(path).read()
    tree = ast.parse(src)
    allnames = collect_setnames(tree)
    attrs = set(attr_pool) | (set(n for n in allnames if n.startswith(".")) - nonset_attrs(tree))
    # per scope: bare names bound to sets inside that scope (closures: plus the enclosing scopes)
    scope_names = {}
    def visit_scope(fn, inherited):
        mod = ast.Module(body=[], type_ignores=[])
        local = set(n for n in collect_setnames_nodes(fn, attrs) if not n.startswith("."))
        here = inherited | local
        scope_names[fn] = here | attrs
        for n in scope_nodes(fn):
            if isinstance(n, (ast.FunctionDef, ast.AsyncFunctionDef, ast.ClassDef)):
                visit_scope(n, here if not isinstance(fn, ast.ClassDef) else inherited)
    visit_scope(tree, set())
    parents = {}
    for p in ast.walk(tree):
        for c in ast.iter_child_nodes(p):
            parents[c] = p
    def func_of(n):
        q = []
        while n in parents:
            n = parents[n]
            if isinstance(n, (ast.FunctionDef, ast.AsyncFunctionDef, ast.ClassDef)):
                q.append(n.name)
        return ".".join(reversed(q)) or "<module>"
    def names_at(n):
        while n in parents:
            n = parents[n]
            if n in scope_names:
                return scope_names[n]
        return scope_names[tree]
    sites = []
    def add(kind, node, e):
        sites.append({"file": rel, "scope": func_of(node), "kind": kind, "expr": ast.unparse(e)[:80], "line": node.lineno})
    for node in ast.walk(tree):
        names = names_at(node)
        if isinstance(node, (ast.For, ast.AsyncFor)) and is_set_expr(node.iter, names):
            add("for", node, node.iter)
        elif isinstance(node, (ast.ListComp, ast.GeneratorExp, ast.DictComp)):
            for g in node.generators:
                if is_set_expr(g.iter, names):
                    par = parents.get(node)
                    if isinstance(node, ast.GeneratorExp) and isinstance(par, ast.Call) and isinstance(par.func, ast.Name) \
                            and par.func.id in ORDER_FREE_WRAPPERS:
                        continue
                    add("comp", node, g.iter)
        elif isinstance(node, ast.Call):
            f = node.func
            if isinstance(f, ast.Name) and f.id in ("list", "tuple", "enumerate", "zip", "iter", "next", "map", "filter", "reversed") \
                    and node.args and any(is_set_expr(a, names) for a in node.args):
                par = parents.get(node)
                if isinstance(par, ast.Call) and isinstance(par.func, ast.Name) and par.func.id in ORDER_FREE_WRAPPERS:
                    continue
                add("call:" + f.id, node, node)
            elif isinstance(f, ast.Attribute) and f.attr == "join" and node.args and is_set_expr(node.args[0], names):
                add("join", node, node)
            elif isinstance(f, ast.Attribute) and f.attr == "pop" and not node.args and is_set_expr(f.value, names):
                add("pop", node, node)
            elif isinstance(f, ast.Attribute) and f.attr in ("extend",) and node.args and is_set_expr(node.args[0], names):
                add("extend", node, node)
        elif isinstance(node, ast.Starred) and is_set_expr(node.value, names):
            add("star", node, node)
    return sites, attrs


SUBDIRS = ("Compiler", "Build", "Plex", ".")


def scan_tree(root):
    """all order-sensitive consumptions of statically recognisable sets in the compiler sources"""
    files = []
    for sub in SUBDIRS:
        d = os.path.join(root, "Cython", sub)
        for fn in sorted(os.listdir(d)):
            if fn.endswith(".py") and not fn.startswith("Test"):
                files.append((os.path.join(d, fn), os.path.normpath(os.path.join("Cython", sub, fn))))
    pool, bad, trees = set(), set(), {}
    for path, rel in files:
        t = ast.parse(open(path).read())
        pool |= set(n for n in collect_setnames(t) if n.startswith("."))
        bad |= nonset_attrs(t)
    pool -= bad
    sites = []
    for path, rel in files:
        s, _ = scan_file(path, rel, pool)
        sites += s
    return sites


def site_key(s):
    return "%(file)s|%(scope)s|%(kind)s|%(expr)s" % s

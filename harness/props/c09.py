"""C09 — compile-time constants keep their exact Python values.

Legs (three-way wherever an independent oracle exists):
 A1 D-py  Utils.str_to_number / CPython int(text, base)  vs Lean strToNumber / pyInt  vs literal value (ast.literal_eval, int(,8))
 A2 D-py  the real scanner (Lexicon intliteral, strip_underscores) + Parsing.p_int_literal  vs Lean intliteral / pIntLiteral
 A3 D-py  IntNode.generate_evaluation_code / unop_node text  vs Lean genText / negText  (variant detected from the source's behaviour)
 B  D-py + D-c  make_dedup_key / get_py_const captured while compiling generated modules  vs Lean constKey/keyEq;
          run-time values + identity of the compiled functions vs Lean evalConst and vs CPython running the same source
 C  D-c   constant folding and literal emission: compiled value/type/exception vs CPython (no Lean model: ConstantFolding uses
          CPython's own operators at compile time; trusted, differentially checked)
"""
import ast
import concurrent.futures as cf
import itertools
import json
import os
import re
import struct
import subprocess
import sys
import sysconfig

import lib

PYINC = sysconfig.get_paths()["include"]
EXT_SUFFIX = sysconfig.get_config_var("EXT_SUFFIX")
CAP = 300


def cap(s, n=CAP):
    s = " ".join(str(s).split())
    return s if len(s) <= n else s[:n] + "...(%d chars)" % len(s)


def hx(s):
    return s.encode("latin1").hex() or "-"


def unhx(h):
    return "" if h == "-" else bytes.fromhex(h).decode("latin1")


# ---------------------------------------------------------------------------------------------
# canonical form of run-time values (shared by the compiled leg, the CPython oracle and the model)

def fbits(x):
    return struct.unpack(">Q", struct.pack(">d", x))[0]


def canon(v):
    if v is None:
        return "n"
    if v is Ellipsis:
        return "e"
    if isinstance(v, bool):
        return "b%d" % v
    if isinstance(v, int):
        return "i%d" % v
    if isinstance(v, float):
        return "fnan" if v != v else "f%d" % fbits(v)
    if isinstance(v, complex):
        return "c[%s;%s]" % (canon(v.real), canon(v.imag))
    if isinstance(v, str):
        return "s" + (v.encode("utf-8", "surrogatepass").hex() or "-")
    if isinstance(v, bytes):
        return "y" + (v.hex() or "-")
    if isinstance(v, tuple):
        return "t[" + ";".join(canon(x) for x in v) + "]"
    if isinstance(v, list):
        return "l[" + ";".join(canon(x) for x in v) + "]"
    if isinstance(v, frozenset):
        return "F[" + ";".join(sorted(canon(x) for x in v)) + "]"
    if isinstance(v, slice):
        return "S[%s;%s;%s]" % (canon(v.start), canon(v.stop), canon(v.step))
    return "X:" + type(v).__name__


def parse_model_val(s):
    """model `pool val` output -> canonical string (frozenset items sorted, NaN collapsed)."""
    pos = [0]

    def item():
        i = pos[0]
        if s.startswith(("t[", "F[", "S["), i):
            kind = s[i]
            pos[0] = i + 2
            parts = []
            if s[pos[0]] == "]":
                pos[0] += 1
            else:
                while True:
                    parts.append(item())
                    c = s[pos[0]]
                    pos[0] += 1
                    if c == "]":
                        break
            if kind == "F":
                parts.sort()
            return kind + "[" + ";".join(parts) + "]"
        j = i
        while j < len(s) and s[j] not in ";]":
            j += 1
        pos[0] = j
        tok = s[i:j]
        if tok.startswith("f"):
            b = int(tok[1:])
            if (b >> 52) & 0x7FF == 0x7FF and b & ((1 << 52) - 1):
                return "fnan"
        return tok
    r = item()
    assert pos[0] == len(s), (s, pos[0])
    return r


# ---------------------------------------------------------------------------------------------
# leg A1: str_to_number and int()

ALPHA = "019_-+xXoObBaAfFlL 7"


def lit_oracle(tok):
    """Independent value of an integer token: CPython's own parser for Python-3 literals,
    int(tok, 8) for a Python-2 style octal literal; None = no oracle for this string."""
    if re.fullmatch(r"0[0-7]+", tok) and tok.strip("0"):
        return int(tok, 8)
    if not re.fullmatch(r"[0-9][0-9a-fA-FxXoO_]*", tok):
        return None
    try:
        v = ast.literal_eval(tok)
    except (SyntaxError, ValueError, MemoryError):
        return None
    return v if type(v) is int else None


def gen_strings(ctx):
    strs = [""]
    maxlen = 3 if ctx.quick else 4
    for n in range(1, maxlen + 1):
        strs += ["".join(t) for t in itertools.product(ALPHA, repeat=n)]
    rng = ctx.rng
    for _ in range(ctx.n(20000, 150000)):
        strs.append("".join(rng.choice(ALPHA) for _ in range(rng.randint(maxlen + 1, 10))))
    return strs


def gen_tokens(ctx):
    """random members of the scanner language (all four alternatives, underscores, lengths)."""
    rng = ctx.rng
    toks = ["0", "7", "00", "0_0", "09", "0128", "0123", "0x_1f", "0X1F", "0o17", "0O_7", "0b1_01", "0B1", "1_000", "10", "0_0_0",
            "9" * 20, "0x" + "f" * 40, "0b" + "1" * 70, "0o" + "7" * 30, "0" * 50, "0" + "7" * 50]

    def ud(digs, n):
        out = rng.choice(digs)
        for _ in range(n):
            out += ("_" if rng.random() < 0.25 else "") + rng.choice(digs)
        return out
    for _ in range(ctx.n(3000, 30000)):
        k = rng.randrange(6)
        n = rng.choice((0, 1, 2, 5, 17, 40))
        if k == 0:
            t = rng.choice("123456789") + (("_" if rng.random() < 0.3 else "") + ud("0123456789", n) if n or rng.random() < 0.5 else "")
        elif k == 1:
            t = "0" + rng.choice("xX") + ("_" if rng.random() < 0.3 else "") + ud("0123456789abcdefABCDEF", n)
        elif k == 2:
            t = "0" + rng.choice("oO") + ("_" if rng.random() < 0.3 else "") + ud("01234567", n)
        elif k == 3:
            t = "0" + rng.choice("bB") + ("_" if rng.random() < 0.3 else "") + ud("01", n)
        elif k == 4:
            t = ud("0", n)
        else:
            t = "".join(rng.choice("0123456789" if rng.random() < 0.5 else "01234567") for _ in range(n + 1))
        toks.append(t)
    return toks


def outcome(f, *a):
    try:
        v = f(*a)
    except Exception as e:  # any exception is an observation
        return "err " + type(e).__name__
    return "ok " + big_dec(v)


def big_int(txt):
    old = sys.get_int_max_str_digits()
    sys.set_int_max_str_digits(0)
    try:
        return int(txt, 0)
    finally:
        sys.set_int_max_str_digits(old)


def big_dec(v):
    """decimal text of an int of any size (the harness' own conversion is not limited)."""
    old = sys.get_int_max_str_digits()
    sys.set_int_max_str_digits(0)
    try:
        return str(v)
    finally:
        sys.set_int_max_str_digits(old)


def leg_a1(ctx, U):
    strs = ctx.replay_case["case"]["strings"] if ctx.replay_case and "strings" in ctx.replay_case.get("case", {}) else gen_strings(ctx)
    lim = sys.get_int_max_str_digits()
    lines, meta = [], []
    for s in strs:
        lines.append("C09 s2n %d %s" % (lim, hx(s)))
        meta.append(("s2n", s, 0))
        for b in (0, 8, 16) if ctx.quick else (0, 2, 8, 10, 16, 32, 36):
            lines.append("C09 int %d %d %s" % (lim, b, hx(s)))
            meta.append(("int", s, b))
    out = ctx.drv.batch(lines)
    for (op, s, b), model in zip(meta, out):
        if op == "s2n":
            impl = outcome(U.str_to_number, s)
            ctx.count("A1/s2n/" + impl.split()[0])
            ctx.seen(("s2n", s), nontrivial=impl.startswith("ok"))
            if model != impl:
                ctx.tie_break("D-py Utils.str_to_number vs CyVerif.C09.strToNumber", "%r: model %s impl %s" % (s, cap(model, 80), cap(impl, 80)),
                              {"strings": [s]})
            core = s[1:] if s[:1] == "-" else s
            want = lit_oracle(core)
            if want is not None and "_" not in core:
                want = -want if s[:1] == "-" else want
                if impl != "ok " + big_dec(want):
                    ctx.violation("str_to_number-wrong-value", "str_to_number(%r) -> %s, literal value %d" % (s, cap(impl, 80), want), {"strings": [s]})
        else:
            ref = outcome(int, s, b)
            ctx.count("A1/int")
            if model != ref:
                ctx.tie_break("reference model pyInt vs CPython int(text, base)", "int(%r, %d): model %s CPython %s" % (s, b, cap(model, 80), cap(ref, 80)),
                              {"strings": [s], "base": b})
    # tokens of the scanner language: value theorem domain, incl. very long ones and the digit limit
    toks = gen_tokens(ctx)
    rng = ctx.rng
    big = ["1" + "0" * 4299, "1" + "0" * 4300, "9" * 4300, "9" * 4301, "1_" * 4299 + "1", "1_" * 4300 + "1", "0" * 5000, "0" + "7" * 5000,
           "0x" + "f" * 5000, "0b" + "1" * 20000, "0o" + "7" * 7000, "0_" * 3000 + "0"]
    for _ in range(ctx.n(6, 40)):
        n = rng.choice((630, 640, 641, 1000, 4299, 4300, 4301, 6000))
        big.append(rng.choice("123456789") + "".join(rng.choice("0123456789") for _ in range(n - 1)))
    lims = [lim, 0, 640, 1000]
    for L in lims:
        sys.set_int_max_str_digits(L)
        try:
            cur = toks + big if L == lim else big
            lines = ["C09 lit %d %s" % (L, hx(t)) for t in cur]
            out = ctx.drv.batch(lines)
            for t, line in zip(cur, out):
                parts = line.split(" ")
                core = unhx(parts[0])
                mres = " ".join(parts[3:parts.index("spec")])
                spec = parts[-1]
                impl = outcome(U.str_to_number, t.replace("_", ""))
                ctx.count("A1/token/lim%d/%s" % (L, impl.split()[0]))
                ctx.seen(("tok", t, L), nontrivial=impl.startswith("ok"))
                if core != t.replace("_", "") or mres != impl:
                    ctx.tie_break("D-py str_to_number on scanner tokens vs strToNumber", "lim %d token %s: model %s impl %s" % (L, cap(t, 60), cap(mres, 60), cap(impl, 60)),
                                  {"token": t, "lim": L})
                want = lit_oracle(t)          # CPython's own parser (under the same digit limit) / Python-2 octal
                if want is not None:
                    w = "ok " + big_dec(want)
                    if impl != w:
                        ctx.violation("str_to_number-wrong-value", "lim %d: str_to_number(%s) -> %s, CPython literal value %s" % (L, cap(t, 60), cap(impl, 60), cap(w, 60)),
                                      {"token": t, "lim": L})
                    if "ok " + spec != w:
                        ctx.tie_break("spec litValue vs CPython literal value", "token %s: litValue %s CPython %s" % (cap(t, 60), cap(spec, 60), cap(w, 60)), {"token": t})
        finally:
            sys.set_int_max_str_digits(lim)
    ctx.sample({"leg": "A1", "token": "0x_1F_ff", "impl": outcome(U.str_to_number, "0x1Fff"), "oracle": lit_oracle("0x_1F_ff")})


# ---------------------------------------------------------------------------------------------
# leg A2: the real scanner and p_int_literal

SCAN_ALPHA = "0189_xXoObaAfFlLuU"


def leg_a2(ctx):
    import io
    from Cython.Compiler import Main, Parsing
    from Cython.Compiler.Scanning import PyrexScanner, StringSourceDescriptor
    cctx = Main.Context.from_options(Main.CompilationOptions(language_level=3))

    class Scope:
        included_files = []
    strs = []
    maxlen = 3 if ctx.quick else 4
    for n in range(1, maxlen + 1):
        strs += ["".join(t) for t in itertools.product(SCAN_ALPHA, repeat=n)]
    strs = [s for s in strs if s[0] in "0189"]
    rng = ctx.rng
    for _ in range(ctx.n(4000, 40000)):
        strs.append(rng.choice("0189") + "".join(rng.choice(SCAN_ALPHA) for _ in range(rng.randint(maxlen, 9))))
    for t in gen_tokens(ctx)[:ctx.n(1500, 10000)]:
        strs.append(t + rng.choice(("", "", "L", "LL", "U", "UL", "ull", "lu", "LLU", "Ul", "lL")))
    if ctx.replay_case and "scan" in ctx.replay_case.get("case", {}):
        strs = ctx.replay_case["case"]["scan"]
    text = "".join(s + "\n" for s in strs)
    sc = PyrexScanner(io.StringIO(text), StringSourceDescriptor("c09scan", text), source_encoding="UTF-8", context=cctx, scope=Scope())
    lim = sys.get_int_max_str_digits()
    res, cur = [], []
    while sc.sy != "EOF":
        if sc.sy == "NEWLINE":
            res.append(cur)
            cur = []
            sc.next()
        elif sc.sy == "INT":
            raw = sc.systring
            try:
                node = Parsing.p_int_literal(sc)      # consumes the token, builds the IntNode
                cres = node.constant_result
                cur.append(("INT", raw, node.value, len(node.unsigned), len(node.longness),
                            "ok " + big_dec(cres) if isinstance(cres, int) else "err ValueError"))
            except Exception as e:
                cur.append(("INT", raw, "EXC " + type(e).__name__, 0, 0, ""))
        else:
            cur.append((sc.sy, sc.systring))
            sc.next()
    if len(res) != len(strs):
        raise lib.Infra("scanner leg lost lines: %d vs %d" % (len(res), len(strs)))
    lines = []
    for s in strs:
        lines.append("C09 scan " + hx(s))
        lines.append("C09 lit %d %s" % (lim, hx(s)))
    out = ctx.drv.batch(lines)
    npos = 0
    for i, (s, r) in enumerate(zip(strs, res)):
        m_scan, m_lit = out[2 * i].split(), out[2 * i + 1].split(" ")
        real = len(r) == 1 and r[0][0] == "INT"
        ctx.count("A2/scan/" + ("int" if real else "other"))
        ctx.seen(("scan", s), nontrivial=real)
        if ("1" if real else "0") != m_scan[2]:
            ctx.tie_break("D-py Lexicon.intliteral vs CyVerif.C09.intliteral", "%r: scanner %s model %s" % (s, cap(r, 100), m_scan), {"scan": [s]})
            continue
        if not real:
            continue
        npos += 1
        _, raw, value, nu, nl, cres = r[0]
        mres = " ".join(m_lit[3:m_lit.index("spec")])
        if raw != s.replace("_", "") or value != unhx(m_lit[0]) or str(nu) != m_lit[1] or str(nl) != m_lit[2] or cres != mres:
            ctx.tie_break("D-py strip_underscores + p_int_literal vs CyVerif.C09.pIntLiteral",
                          "%r: real (%s, %s, U%d, L%d, %s) model %s" % (s, cap(raw, 40), cap(value, 40), nu, nl, cap(cres, 40), cap(" ".join(m_lit), 120)), {"scan": [s]})
        core = s.rstrip("UuLl")
        want = lit_oracle(core)
        if want is not None and cres != "ok " + big_dec(want):
            ctx.violation("int-literal-constant_result", "token %r: IntNode.constant_result %s, CPython value %d" % (s, cap(cres, 60), want), {"scan": [s]})
    ctx.notes["A2_int_tokens"] = npos
    ctx.sample({"leg": "A2", "text": strs[-1], "scanner": cap(res[-1], 120), "model": out[-1][:120]})


# ---------------------------------------------------------------------------------------------
# leg A3: text of int constants (IntNode.generate_evaluation_code, unop_node)

def leg_a3(ctx):
    from Cython.Compiler import ExprNodes, Builtin
    from Cython.Compiler.Scanning import StringSourceDescriptor
    pos = (StringSourceDescriptor("c09", ""), 1, 0)

    class FakeCode:
        def get_py_int(self, s, longness):
            self.s = s
            return "X"

    def gen(v):
        n = ExprNodes.IntNode(pos, value=hex(v), type=Builtin.int_type)
        f = FakeCode()
        try:
            n.generate_evaluation_code(f)
            return "ok " + hx(f.s)
        except Exception as e:
            return "err " + type(e).__name__

    def neg(v):
        try:
            n = ExprNodes.unop_node(pos, "-", ExprNodes.IntNode(pos, value=hex(v)))
            return "ok " + hx(n.value)
        except Exception as e:
            return "err " + type(e).__name__
    lim = sys.get_int_max_str_digits()
    # which variant is the current source?  (behavioural probe: pinned code prints large negative values in decimal)
    fix_gen = gen(-10 ** 14) == "ok " + hx(hex(-10 ** 14))
    fix_neg = neg(10 ** 14) == "ok " + hx(hex(-10 ** 14))
    ctx.notes["variant_int_text"] = {"generate_evaluation_code_hex_for_negative": fix_gen, "unop_node_hex_for_large": fix_neg}
    rng = ctx.rng
    vals = [0, 1, -1, 9, 10, -10, 10 ** 13 - 1, 10 ** 13, 10 ** 13 + 1, -10 ** 13, -10 ** 13 - 1, 2 ** 31, -2 ** 31, 2 ** 63, -2 ** 63,
            10 ** 639, 10 ** 640, -10 ** 640, 10 ** 4299, 10 ** 4300 - 1, 10 ** 4300, -10 ** 4299, -(10 ** 4300 - 1), -10 ** 4300, 16 ** 5000, -16 ** 5000]
    vals += [big_int(x) for x in load_corpus("ints")]
    if ctx.replay_case and "ints" in ctx.replay_case.get("case", {}):
        vals = [big_int(x) for x in ctx.replay_case["case"]["ints"]]
    else:
        for _ in range(ctx.n(3000, 30000)):
            k = rng.choice((3, 10, 40, 43, 44, 45, 63, 64, 100, 1000))
            vals.append(rng.randrange(-2 ** k, 2 ** k))
        for _ in range(ctx.n(6, 30)):
            vals.append(rng.choice((-1, 1)) * rng.randrange(10 ** 4298, 10 ** 4302))
    lines = []
    for v in vals:
        d = big_dec(v)
        lines += ["C09 gen %d %d %s" % (fix_gen, lim, d), "C09 neg %d %d %s" % (fix_neg, lim, d)]
    out = ctx.drv.batch(lines)
    for i, v in enumerate(vals):
        for j, (name, f, want) in enumerate((("generate_evaluation_code", gen, v), ("unop_node", neg, -v))):
            impl, model = f(v), out[2 * i + j]
            ctx.count("A3/%s/%s" % (name, impl.split()[0]))
            ctx.seen((name, v))
            if impl != model:
                ctx.tie_break("D-py IntNode text (%s) vs CyVerif.C09.%s" % (name, "genText" if j == 0 else "negText"),
                              "v=%s: impl %s model %s" % (cap(big_dec(v), 60), cap(impl, 80), cap(model, 80)), {"ints": [big_dec(v)]})
            # oracle: CPython accepts every integer constant; the registered text must denote the value
            if impl.startswith("err"):
                ctx.violation("neg-huge-int-constant-compile-crash",
                              "%s raises %s for the constant %s (%d decimal digits): CPython compiles e.g. `x = -0x%s...`; the compiler dies with a traceback"
                              % (name, impl[4:], cap(big_dec(want), 40), len(big_dec(abs(v))), "f" * 8), {"ints": [big_dec(v)], "site": name})
            else:
                txt = unhx(impl[3:])
                back = big_int(txt)
                if back != want:
                    ctx.violation("int-constant-text-wrong-value", "%s: text %s denotes %s, expected %s" % (name, cap(txt, 60), cap(big_dec(back), 60), cap(big_dec(want), 60)),
                                  {"ints": [big_dec(v)], "site": name})
    ctx.sample({"leg": "A3", "value": -10 ** 14, "generate_evaluation_code": unhx(gen(-10 ** 14)[3:]), "unop_node(10**14)": unhx(neg(10 ** 14)[3:])})
    return fix_gen, fix_neg


# ---------------------------------------------------------------------------------------------
# legs B, C: generated modules, compiled with the staged compiler (hooks record the pooling decisions)

_CHILD = r"""
import sys, json, struct
spec = json.loads(sys.argv[1])
from Cython.Compiler.Main import compile as cy_compile, CompilationOptions
import Cython.Compiler.Code as C
import Cython.Compiler.ExprNodes as E
from Cython.Compiler import Builtin, PyrexTypes
assert C.__file__.endswith('.py') and E.__file__.endswith('.py'), (C.__file__, E.__file__)
types_seen = []
def tagof(t):
    for i, (u, tag) in enumerate(types_seen):
        if u is t:
            return tag
    if t is PyrexTypes.py_object_type: tag = 'o'
    elif t is Builtin.int_type: tag = 'i'
    elif t is Builtin.float_type: tag = 'f'
    elif t is Builtin.bool_type: tag = 'b'
    elif t is Builtin.unicode_type: tag = 's'
    elif t is Builtin.bytes_type: tag = 'y'
    elif t is Builtin.tuple_type: tag = 'T0'
    elif t is Builtin.slice_type: tag = 'SL'
    elif t is Builtin.frozenset_type: tag = 'FS'
    elif getattr(t, 'is_int', False): tag = 'c%d' % len(types_seen)
    elif getattr(t, 'is_builtin_type', False) and getattr(t, 'name', '') == 'tuple': tag = 'T%d' % (len(types_seen) + 1)
    else: tag = 'X%d' % len(types_seen)
    types_seen.append((t, tag))
    return tag
def atom(v):
    if v is None: return 'n'
    if v is Ellipsis: return 'e'
    if isinstance(v, bool): return 'b%d' % v
    if isinstance(v, int): return 'i%d' % v
    if isinstance(v, float): return 'f%d' % struct.unpack('>Q', struct.pack('>d', v))[0]
    if isinstance(v, str): return 's' + (v.encode('utf-8', 'surrogatepass').hex() or '-')
    if isinstance(v, bytes): return 'y' + (v.hex() or '-')
    return None
def tree(node):
    if node is None: return {'k': 'none'}
    if node.is_sequence_constructor:
        return {'k': 'seq', 'type': tagof(node.type), 'lit': bool(node.is_literal), 'cls': type(node).__name__,
                'mult': tree(node.mult_factor) if node.mult_factor is not None else None, 'args': [tree(a) for a in node.args]}
    if node.is_slice:
        return {'k': 'slice', 'type': tagof(node.type), 'parts': [tree(node.start), tree(node.stop), tree(node.step)]}
    if node.has_constant_result():
        a = atom(node.constant_result)
        if a is not None:
            return {'k': 'leaf', 'type': tagof(node.type), 'val': a, 'cls': type(node).__name__}
        return {'k': 'leafx', 'type': tagof(node.type), 'cls': type(node).__name__, 'pytype': type(node.constant_result).__name__}
    return {'k': 'opaque', 'cls': type(node).__name__}
log = []
depth = [0]
last = [None]
orig = E.make_dedup_key
def wrapper(outer_type, item_nodes):
    depth[0] += 1
    try:
        k = orig(outer_type, item_nodes)
    finally:
        depth[0] -= 1
    if depth[0] == 0:
        items = list(item_nodes)
        p = None
        for n in items:
            if n is not None and getattr(n, 'pos', None):
                p = n.pos; break
        last[0] = {'outer': tagof(outer_type), 'items': [tree(n) for n in items], 'line': p[1] if p else 0, 'col': p[2] if p else 0,
                   'key_none': k is None, '_key': k}
    return k
E.make_dedup_key = wrapper
og = C.GlobalState.get_py_const
def gpc(self, prefix, dedup_key=None):
    r = og(self, prefix, dedup_key)
    ev = last[0]
    if ev is not None and ev['_key'] is dedup_key:
        ev = dict(ev); del ev['_key']; ev['cname'] = r; ev['prefix'] = prefix
        log.append(ev)
    else:
        log.append({'unmodelled': True, 'cname': r, 'prefix': prefix, 'has_key': dedup_key is not None})
    last[0] = None
    return r
C.GlobalState.get_py_const = gpc
inits = {}
ogw = C.GlobalState.get_cached_constants_writer
def gcw(self, target=None):
    r = ogw(self, target)
    if target is not None and r is not None:
        bare = target.rpartition('->')[2]
        inits[bare] = inits.get(bare, 0) + 1
    return r
C.GlobalState.get_cached_constants_writer = gcw
nums = []
on = C.GlobalState.new_num_const
def nnc(self, value, py_type, value_code=None):
    c = on(self, value, py_type, value_code)
    nums.append({'value': value, 'py_type': py_type, 'cname': c.cname, 'value_code': c.value_code})
    return c
C.GlobalState.new_num_const = nnc
rets = []
from Cython.Compiler import Nodes
orr = Nodes.ReturnStatNode.generate_execution_code
def ret_hook(self, code):
    v = self.value
    rets.append([self.pos[1], type(v).__name__ if v is not None else None, bool(getattr(v, 'is_literal', False))])
    return orr(self, code)
Nodes.ReturnStatNode.generate_execution_code = ret_hook
opts = CompilationOptions(language_level=3, compiler_directives=spec.get('directives', {}))
try:
    res = cy_compile(spec['src'], opts)
    rc = 0 if res.num_errors == 0 else 3
except BaseException as e:
    import traceback
    traceback.print_exc()
    rc = 4
ok_types = all(((a == b) == (ta == tb)) for a, ta in types_seen for b, tb in types_seen)
json.dump({'log': log, 'nums': nums, 'rets': rets, 'inits': inits, 'types_consistent': ok_types, 'types': [[repr(t), tag] for t, tag in types_seen]}, open(spec['out'], 'w'))
sys.exit(rc)
"""

_RUNNER = r"""
import sys, json, importlib.util, struct
sys.path.insert(0, sys.argv[4])
from c09canon import canon
sys.set_int_max_str_digits(0)
path, modname, n, start = sys.argv[1], sys.argv[2], int(sys.argv[3]), int(sys.argv[5])
if path.endswith('.py'):
    import types
    mod = types.ModuleType(modname)
    exec(compile(open(path).read(), path, 'exec'), mod.__dict__)
else:
    spec = importlib.util.spec_from_file_location(modname, path)
    mod = importlib.util.module_from_spec(spec)
    sys.modules[modname] = mod
    spec.loader.exec_module(mod)
print('READY', flush=True)
ids, keep = {}, []
for i in range(start, n):
    try:
        r = getattr(mod, 'f%d' % i)()
        keep.append(r)
        out = ['ok', canon(r), ids.setdefault(id(r), i)]
    except BaseException as e:
        out = ['err', type(e).__name__, -1]
    print(json.dumps(out), flush=True)
"""


class Built:
    def __init__(self, name, source, nfuncs, ref_source=None):
        self.name, self.source, self.nfuncs = name, source, nfuncs
        self.ref_source = ref_source if ref_source is not None else source
        self.error = None       # (stage, log)
        self.hook = None
        self.so = None
        self.cfile = None


def build_one(ctx, b, want_so=True):
    d = os.path.join(ctx.scratch, "c09", b.name)
    os.makedirs(d, exist_ok=True)
    src = os.path.join(d, b.name + ".pyx")
    with open(src, "w") as f:
        f.write(b.source)
    with open(os.path.join(d, b.name + "_ref.py"), "w") as f:
        f.write(b.ref_source)
    hookf = os.path.join(d, "hook.json")
    env = lib._clean_env({"PYTHONPATH": ctx.stage})
    p = subprocess.run([lib.PYTHON, "-c", _CHILD, json.dumps({"src": src, "out": hookf})], cwd=d, env=env,
                       stdout=subprocess.PIPE, stderr=subprocess.STDOUT, text=True, timeout=900)
    if os.path.exists(hookf):
        b.hook = json.load(open(hookf))
    if p.returncode != 0:
        b.error = ("cython", p.stdout[-1500:])
        return b
    b.cfile = os.path.join(d, b.name + ".c")
    if want_so:
        so = os.path.join(d, b.name + EXT_SUFFIX)
        p = subprocess.run(["gcc", "-O0", "-shared", "-fPIC", "-w", "-I" + PYINC, b.cfile, "-o", so], cwd=d,
                           stdout=subprocess.PIPE, stderr=subprocess.STDOUT, text=True, timeout=900)
        if p.returncode != 0:
            b.error = ("cc", p.stdout[-1500:])
            return b
        b.so = so
    return b


def run_funcs(ctx, path, modname, n):
    import inspect
    cdir = os.path.join(ctx.scratch, "c09")
    cf_ = os.path.join(cdir, "c09canon.py")
    if not os.path.exists(cf_):
        os.makedirs(cdir, exist_ok=True)
        with open(cf_, "w") as f:
            f.write("import struct\n" + inspect.getsource(fbits) + "\n" + inspect.getsource(canon))
    runner = os.path.join(cdir, "runner.py")
    if not os.path.exists(runner):
        with open(runner, "w") as f:
            f.write(_RUNNER)
    import signal
    results = []
    while len(results) < n:
        p = subprocess.run([lib.PYTHON, runner, path, modname, str(n), cdir, str(len(results))], stdout=subprocess.PIPE, stderr=subprocess.PIPE,
                           text=True, timeout=900, env=lib._clean_env())
        lines = p.stdout.split("\n")
        if not lines or lines[0] != "READY":
            return None, "rc=%s %s" % (p.returncode, p.stderr[-600:])        # the module itself cannot be loaded
        got = [json.loads(l) for l in lines[1:] if l.startswith("[")]
        results += got
        if len(results) < n:
            if p.returncode == 0:
                return None, "runner stopped early: " + p.stderr[-300:]
            # the next function killed the process: an observation, then go on behind it
            try:
                name = signal.Signals(-p.returncode).name if p.returncode < 0 else "exit%d" % p.returncode
            except ValueError:
                name = "rc%d" % p.returncode
            results.append(["crash", name + " " + " ".join(p.stderr[-200:].split()), -1])
    return results[:n], ""


def build_all(ctx, builts):
    with cf.ThreadPoolExecutor(max_workers=12) as ex:
        return list(ex.map(lambda b: build_one(ctx, b), builts))


# ---- generators ----

ZERO_LIKE = ["0", "0.0", "-0.0", "False", "0e0", "-0e0", "1e-400", "-1e-400", "0x0"]
ONE_LIKE = ["1", "1.0", "True", "0x1", "1e0"]
OTHER = ["2", "-1", "-1.0", "2.5", "-2.5", "'a'", "b'a'", "''", "b''", "'0'", "b'0'", "None", "...", "1e400", "-1e400",
         "16", "0x10", "0o20", "1_6", "10**20", "-(10**20)", "2**64", "1.5e300", "'\\u20ac'", "7"]


def gen_leaf(rng):
    r = rng.random()
    if r < 0.4:
        return rng.choice(ZERO_LIKE)
    if r < 0.6:
        return rng.choice(ONE_LIKE)
    return rng.choice(OTHER)


def twin_leaf(rng, x):
    if x in ZERO_LIKE:
        return rng.choice(ZERO_LIKE)
    if x in ONE_LIKE:
        return rng.choice(ONE_LIKE)
    return x


class Tup:
    def __init__(self, items, mult=None):
        self.items, self.mult = items, mult

    def src(self):
        inner = "(" + ", ".join(i.src() if isinstance(i, Tup) else i for i in self.items) + ("," if len(self.items) == 1 else "") + ")"
        return inner if self.mult is None else "%s * %s" % (inner, self.mult)

    def twin(self, rng):
        return Tup([i.twin(rng) if isinstance(i, Tup) else (twin_leaf(rng, i) if rng.random() < 0.6 else i) for i in self.items], self.mult)


def gen_tup(rng, depth, hashable=False):
    n = rng.choice((1, 1, 2, 2, 3, 4))
    items = []
    for _ in range(n):
        if depth > 0 and rng.random() < 0.3:
            items.append(gen_tup(rng, depth - 1, hashable))
        else:
            items.append(gen_leaf(rng))
    mult = rng.choice(("2", "3", "0x2")) if rng.random() < 0.12 else None
    return Tup(items, mult)


def gen_pool_exprs(rng, n):
    """expressions whose value is one pooled constant; many are ==-equal twins of an earlier one."""
    out, bases = [], []
    while len(out) < n:
        r = rng.random()
        if bases and r < 0.45:
            kind, b = rng.choice(bases)
            if kind == "t":
                e = ("t", b.twin(rng))
            elif kind == "f":
                items = [i.twin(rng) if isinstance(i, Tup) else twin_leaf(rng, i) for i in b]
                if rng.random() < 0.5:
                    rng.shuffle(items)
                e = ("f", items)
            else:
                e = ("s", [twin_leaf(rng, i) for i in b])
        elif r < 0.7:
            e = ("t", gen_tup(rng, 2))
        elif r < 0.88:
            items = [gen_tup(rng, 1, True) if rng.random() < 0.25 else gen_leaf(rng) for _ in range(rng.choice((1, 2, 2, 3)))]
            e = ("f", items)
        else:
            e = ("s", [gen_leaf(rng) for _ in range(3)])
        bases.append(e)
        kind, b = e
        if kind == "t":
            out.append(b.src())
        elif kind == "f":
            inner = ", ".join(i.src() if isinstance(i, Tup) else i for i in b)
            out.append("frozenset((%s,))" % inner if rng.random() < 0.7 else "frozenset([%s])" % inner)
        else:
            out.append("_x[%s:%s:%s]" % tuple(b))
    return out


POOL_CORPUS = [
    "(0.0, 1)", "(-0.0, 1)", "(0, 1)", "(False, 1)", "(0.0, 1)", "((0.0,), 2)", "((-0.0,), 2)", "(-0.0,)", "(0.0,)", "(+0.0, 1)",
    "frozenset((0, False))", "frozenset((False, 0))", "frozenset((0.0,))", "frozenset((-0.0,))", "frozenset((0.0, -0.0))", "frozenset((-0.0, 0.0))",
    "frozenset(((0,), (False,)))", "frozenset(((False,), (0,)))", "frozenset((1, 2))", "frozenset((2, 1))", "frozenset((8, 0))", "frozenset((0, 8))",
    "_x[0.0:1]", "_x[-0.0:1]", "_x[0:1]", "_x[False:1]", "_x[None:1:None]", "_x[:1]",
    "(0.0, 1) * 2", "(-0.0, 1) * 2", "(0, 1) * 2", "(0, 1, 0, 1)", "('a', 1)", "(b'a', 1)", "(1, 2)", "(1.0, 2)", "(True, 2)", "(1, (2, 3))", "((1, 2), 3)",
    "(None, 1)", "(..., 1)", "(1e400, 1)", "(-1e400, 1)", "(0x10, 1)", "(16, 1)", "(1e-400, 2)", "(-1e-400, 2)", "(0j, 1)", "(-0j, 1)", "(0.0j, 1)",
    "(1e400 - 1e400, 1)", "(float('nan'), 1)", "(10**20, 0.0)", "(10**20, -0.0)", "frozenset('ab')", "frozenset('ba')", "frozenset(b'ab')", "frozenset()",
    "(2.5,)", "frozenset(((2.5,),))", "(-0.0, 7)", "frozenset(((0.0, 7),))",
    "frozenset(('a', 'b'))", "(frozenset((1, 2)), 0.0)", "(frozenset((1, 2)), -0.0)", "(2**64, -0.0)", "(-0.0, 2**64)",
]

POOL_PRELUDE = "class _X:\n    def __getitem__(self, s): return s\n_x = _X()\n"


def pool_module(exprs):
    src = POOL_PRELUDE
    for i, e in enumerate(exprs):
        src += "def f%d(): return %s\n" % (i, e)
    return src


# ---- hook events -> model terms ----

def node_tokens(t, nested=True):
    """protocol tokens of a node tree recorded by the hook; None = outside the model."""
    k = t["k"]
    if k == "leaf":
        tag = t["type"]
        if tag in ("o", "i", "f", "b", "s", "y") or re.fullmatch(r"c\d+", tag):
            return ["L", tag, t["val"]]
        return None
    if k == "opaque":
        return ["O"]
    if k == "seq":
        m = re.fullmatch(r"T(\d+)", t["type"])
        if not m:
            return None
        mult = "-"
        if t["lit"] and t["mult"] is not None:
            mt = t["mult"]
            if mt["k"] != "leaf" or not mt["val"].startswith("i"):
                return None
            mult = "%s:%s" % (mt["type"], mt["val"][1:])
            if not (mt["type"] in ("o", "i") or re.fullmatch(r"c\d+", mt["type"])):
                return None
        out = ["T", m.group(1), mult, str(len(t["args"]))]
        for a in t["args"]:
            x = node_tokens(a)
            if x is None:
                return None
            out += x
        return out
    if k == "slice":
        if t["type"] != "SL":
            return None
        out = ["S"]
        for a in t["parts"]:
            x = node_tokens(a)
            if x is None:
                return None
            out += x
        return out
    return None


def tree_size(t):
    if t is None:
        return 0
    k = t["k"]
    if k == "seq":
        return 1 + sum(tree_size(a) for a in t["args"])
    if k == "slice":
        return 1 + sum(tree_size(a) for a in t["parts"])
    return 1


def event_tokens(ev):
    """protocol tokens of a pooled constant (one top-level make_dedup_key call)."""
    outer, items = ev["outer"], ev["items"]
    if re.fullmatch(r"T\d+", outer) and items:
        head = items[0]
        mult = "-"
        if head["k"] != "none":
            if head["k"] != "leaf" or not head["val"].startswith("i"):
                return None
            mult = "%s:%s" % (head["type"], head["val"][1:])
        out = ["CT", "T", outer[1:], mult, str(len(items) - 1)]
        for a in items[1:]:
            x = node_tokens(a)
            if x is None:
                return None
            out += x
        return out
    if outer == "SL" and len(items) == 1 and items[0]["k"] == "slice":
        x = node_tokens(items[0])
        return None if x is None else ["CS"] + x
    if outer == "FS":
        out = ["CF", str(len(items))]
        for a in items:
            x = node_tokens(a)
            if x is None:
                return None
            out += x
        return out
    return None


def classify_pool_mismatch(impl, oracle):
    """stable key for a compiled-vs-CPython difference of a pooled constant."""
    def strip_zero_sign(c):
        return c.replace("f%d" % (1 << 63), "f0")
    if strip_zero_sign(impl) == strip_zero_sign(oracle):
        return "pool-float-zero-sign"
    if impl.startswith("F[") and oracle.startswith("F["):
        return "pool-frozenset-equal-items"
    return "pool-other-difference"


def load_corpus(key):
    out = []
    d = os.path.join(lib.VERIF, "corpus", "C09")
    if os.path.isdir(d):
        for fn in sorted(os.listdir(d)):
            if fn.endswith(".json"):
                try:
                    out += json.load(open(os.path.join(d, fn))).get(key, [])
                except ValueError:
                    raise lib.Infra("corpus file %s is not JSON" % fn)
    return out


def leg_b(ctx):
    rng = ctx.rng
    mods = []
    corpus = POOL_CORPUS + load_corpus("pool_exprs")
    mods.append(Built("c09pool0", pool_module(corpus), len(corpus)))
    if ctx.replay_case and "pool_exprs" in ctx.replay_case.get("case", {}):
        mods.append(Built("c09replay", pool_module(ctx.replay_case["case"]["pool_exprs"]), len(ctx.replay_case["case"]["pool_exprs"])))
    else:
        for i in range(ctx.n(3, 14)):
            ex = gen_pool_exprs(rng, 45)
            mods.append(Built("c09pool%d" % (i + 1), pool_module(ex), len(ex)))
    build_all(ctx, mods)
    variant = None
    for b in mods:
        exprs = re.findall(r"^def f\d+\(\): return (.*)$", b.source, re.M)
        if b.error:
            ctx.violation("pool-module-build-" + b.error[0], "module of constant expressions does not build (%s): %s" % (b.error[0], cap(b.error[1][-300:])),
                          {"pool_exprs": exprs})
            continue
        if not b.hook["types_consistent"]:
            ctx.tie_break("node type tags vs == of the compiler's type objects", cap(b.hook["types"]), {"pool_exprs": exprs})
        events = [e for e in b.hook["log"] if not e.get("unmodelled")]
        toks = [event_tokens(e) for e in events]
        modelled = [i for i, t in enumerate(toks) if t is not None]
        ctx.notes.setdefault("B_events", [0, 0])
        ctx.notes["B_events"][0] += len(events)
        ctx.notes["B_events"][1] += len(modelled)
        if variant is None:
            variant = detect_variant(ctx, events, toks)
            probe = [e for e, t in zip(events, toks) if t == "CT T 0 - 1 L f f4612811918334230528".split()]
            if not probe:
                ctx.tie_break("variant probe", "witness constant (2.5,) not found among the recorded pooling events", {})
                once = True
            else:
                once = b.hook["inits"].get(probe[0]["cname"], 0) <= 1
            variant = variant + (once,)
            ctx.notes["variant_pooling"] = {"floatSign": variant[0], "fsDistinct": variant[1], "slot_initialised_once": once}
        fs, fd, once = int(variant[0]), int(variant[1]), int(variant[2])
        # model assumption behind `once`: a slot is initialised at most once per qualified name, i.e. at most twice (once if repaired)
        worst = max(b.hook["inits"].values()) if b.hook["inits"] else 0
        if worst > (1 if once else 2):
            ctx.tie_break("initialisations per constant slot", "a slot is initialised %d times (model: at most %d)" % (worst, 1 if once else 2), {"pool_exprs": exprs})
        # (1) D-py: which constants share a slot  vs  model keys
        pairs = [(i, j) for a, i in enumerate(modelled) for j in modelled[a + 1:]]
        lines = ["C09 pool pair %d %d %s %s" % (fs, fd, " ".join(toks[i]), " ".join(toks[j])) for i, j in pairs]
        out = ctx.drv.batch(lines) if lines else []
        for (i, j), o in zip(pairs, out):
            ei, ej = events[i], events[j]
            ctx.count("B/key-pair")
            parts = o.split()
            if parts[0] != "ok":
                ctx.tie_break("pool model rejects a recorded constant", cap(o) + " " + cap(lines[0], 150), {"pool_exprs": exprs})
                continue
            real_shared = ei["cname"] == ej["cname"]
            model_shared = parts[1] == "1" and parts[2] == "1" and parts[3] == "1"
            ctx.seen(("pair", tuple(toks[i]), tuple(toks[j])), nontrivial=real_shared)
            if (parts[1] == "1") != (not ei["key_none"]) or (parts[2] == "1") != (not ej["key_none"]) or real_shared != model_shared:
                ctx.tie_break("D-py make_dedup_key/get_py_const vs CyVerif.C09.constKey/keyEq",
                              "%s | %s : real key_none=(%s,%s) shared=%s, model %s" % (cap(" ".join(toks[i]), 90), cap(" ".join(toks[j]), 90), ei["key_none"], ej["key_none"], real_shared, o),
                              {"pool_exprs": [exprs_for_line(b, ei), exprs_for_line(b, ej)]})
        # (2) D-c: run-time values and identities vs model values vs CPython
        impl, err1 = run_funcs(ctx, b.so, b.name, b.nfuncs)
        orac, err2 = run_funcs(ctx, os.path.join(os.path.dirname(b.so), b.name + "_ref.py"), b.name + "_ref", b.nfuncs)
        if impl is None or orac is None:
            if impl is None and orac is not None:
                ctx.violation("pool-module-import", "compiled module fails to import/run: " + cap(err1), {"pool_exprs": exprs})
                continue
            raise lib.Infra("reference run failed: " + cap(err2))
        line0 = b.source[:b.source.index("def f0()")].count("\n") + 1
        by_line = {}
        for idx, e in enumerate(events):
            by_line.setdefault(e["line"] - line0, []).append(idx)

        def contains(big, small):
            n = len(small)
            return n < len(big) and any(big[i:i + n] == small for i in range(len(big) - n + 1))
        roots = []
        for fi, idxs in by_line.items():
            for i in idxs:
                if toks[i] is None:
                    continue
                sub = toks[i][1:] if toks[i][0] in ("CT", "CS") else None
                if sub is not None and any(j != i and toks[j] is not None and contains(toks[j], sub) for j in idxs):
                    continue
                roots.append(i)
        roots.sort()
        mres = {}
        if roots:
            line = "C09 pool run %d %d %d %d %s" % (fs, fd, once, len(roots), " ".join(" ".join(toks[i]) for i in roots))
            o = ctx.drv.batch([line])[0]
            if not o.startswith("ok "):
                ctx.tie_break("pool model rejects the module's constants", cap(o), {"pool_exprs": exprs})
            else:
                for i, item in zip(roots, o[3:].split(" ")):
                    slot, _, val = item.partition("|")
                    mres[i] = (slot, val)
        # slots: the model's index partition must equal the partition by C name
        rl = [i for i in roots if i in mres]
        for a_, i in enumerate(rl):
            if (mres[i][0] == "-") != bool(events[i]["key_none"]):
                ctx.tie_break("D-py dedup key present vs model", "%s: real key_none=%s model slot %s" % (cap(" ".join(toks[i]), 100), events[i]["key_none"], mres[i][0]),
                              {"pool_exprs": [exprs_for_line(b, events[i])]})
            for j in rl[a_ + 1:]:
                ctx.count("B/slot-pair")
                real_shared = events[i]["cname"] == events[j]["cname"]
                model_shared = mres[i][0] != "-" and mres[i][0] == mres[j][0]
                if real_shared != model_shared:
                    ctx.tie_break("D-py get_py_const slots of a whole module vs CyVerif.C09.procAll",
                                  "%s | %s: real shared=%s model slots %s,%s" % (cap(" ".join(toks[i]), 80), cap(" ".join(toks[j]), 80), real_shared, mres[i][0], mres[j][0]),
                                  {"pool_exprs": exprs})
        ret_event = {}
        for fi in range(b.nfuncs):
            cands = [i for i in by_line.get(fi, []) if i in mres]
            if len(cands) != 1:
                continue
            top = cands[0]
            src = exprs[fi]
            is_returned = (events[top]["prefix"] == "tuple" and src.startswith("(") and balanced_whole(src)) or \
                          (events[top]["prefix"] == "frozenset" and src.startswith("frozenset(") and balanced_whole(src[9:])) or \
                          (events[top]["prefix"] == "slice" and re.fullmatch(r"_x\[[^\[\]]*\]", src) is not None) or \
                          (events[top]["prefix"] == "tuple" and re.fullmatch(r"\([^()]*\) \* \w+", src) is not None and events[top]["items"][0]["k"] != "none")
            if is_returned:
                ret_event[fi] = top
        for fi in range(b.nfuncs):
            im, orc = impl[fi], orac[fi]
            ctx.count("B/value/" + ("pooled" if fi in ret_event else "not-pooled"))
            ctx.seen(("val", exprs[fi]))
            if im[:2] != orc[:2]:
                key = classify_pool_mismatch(im[1], orc[1]) if im[0] == orc[0] == "ok" else "pool-exception-difference"
                ctx.violation(key, "`return %s`: compiled %s, CPython %s (bound to an ==-equal constant created earlier in the module)"
                              % (cap(exprs[fi], 80), cap(im[1], 90), cap(orc[1], 90)), {"pool_exprs": exprs[:fi + 1] if len(exprs) <= 70 else [exprs[fi]], "func": fi})
            if fi in ret_event and im[0] == "ok":
                mv = mres[ret_event[fi]][1]
                if mv != "?" and parse_model_val(mv) != im[1]:
                    ctx.tie_break("D-c value of a pooled constant vs CyVerif.C09.procAll",
                                  "`%s`: compiled %s model %s" % (cap(exprs[fi], 80), cap(im[1], 90), cap(mv, 90)), {"pool_exprs": exprs[:fi + 1]})
        fl = sorted(ret_event)
        for a_, fi in enumerate(fl):
            for fj in fl[a_ + 1:]:
                same_slot = events[ret_event[fi]]["cname"] == events[ret_event[fj]]["cname"]
                same_obj = impl[fi][0] == "ok" and impl[fj][0] == "ok" and impl[fi][2] == impl[fj][2]
                ctx.count("B/identity-pair")
                if same_slot != same_obj:
                    ctx.tie_break("D-c identity sharing vs get_py_const slots", "`%s` / `%s`: same slot %s, same object %s" % (cap(exprs[fi], 60), cap(exprs[fj], 60), same_slot, same_obj),
                                  {"pool_exprs": exprs})
        if b.name == "c09pool0":
            ctx.sample({"leg": "B", "expr": exprs[1], "compiled": impl[1][1], "cpython": orac[1][1], "slot": events[ret_event[1]]["cname"] if 1 in ret_event else None})
    return variant


def balanced_whole(src):
    """the text is one parenthesised expression (not `(a) + (b)`)."""
    depth = 0
    for i, c in enumerate(src):
        if c == "(":
            depth += 1
        elif c == ")":
            depth -= 1
            if depth == 0 and i != len(src) - 1:
                return False
    return depth == 0


def exprs_for_line(b, ev):
    exprs = re.findall(r"^def f\d+\(\): return (.*)$", b.source, re.M)
    line0 = b.source[:b.source.index("def f0()")].count("\n") + 1
    i = ev["line"] - line0
    return exprs[i] if 0 <= i < len(exprs) else "?"


def detect_variant(ctx, events, toks):
    """Which make_dedup_key is this?  Read off the behaviour on the two witnesses of the corpus module."""
    def find(tokens):
        for e, t in zip(events, toks):
            if t == tokens:
                return e
        return None
    pos = find("CT T 0 - 2 L f f0 L i i1".split())
    neg = find(("CT T 0 - 2 L f f%d L i i1" % (1 << 63)).split())
    sa = find("CF 2 L i i0 L b b0".split())
    if pos is None or neg is None or sa is None:
        ctx.tie_break("variant probe", "witness constants not found among the recorded pooling events", {})
        return (False, False)
    return (pos["cname"] != neg["cname"], bool(sa["key_none"]))


# ---------------------------------------------------------------------------------------------
# leg C: literal emission and constant folding, compiled vs CPython

def P(label, expr):
    return (label, "return " + expr, "return " + expr)


def T(label, ctype, expr, ref=None):
    return (label, "cdef %s v = %s\n    return v" % (ctype, expr), "return " + (ref or expr))


FOLD_CORPUS = [
    # literals: every base, underscores, sizes, signs
    P("lit-int", "0"), P("lit-int", "00"), P("lit-int", "0_0"), P("lit-int", "7"), P("lit-int", "1_000_000"), P("lit-int", "0x_1F_ff"), P("lit-int", "0XABCDEF"),
    P("lit-int", "0o17"), P("lit-int", "0O_7_7"), P("lit-int", "0b1_01"), P("lit-int", "0B1111"), P("lit-int", "2147483647"), P("lit-int", "2147483648"),
    P("lit-int", "-2147483648"), P("lit-int", "-2147483649"), P("lit-int", "9223372036854775807"), P("lit-int", "9223372036854775808"), P("lit-int", "-9223372036854775808"),
    P("lit-int", "-9223372036854775809"), P("lit-int", "18446744073709551615"), P("lit-int", "18446744073709551616"), P("lit-int", "10000000000000"), P("lit-int", "10000000000001"),
    P("lit-int", "-10000000000001"), P("lit-int", "0x" + "f" * 64), P("lit-int", "-0x" + "f" * 64), P("lit-int", "1" + "0" * 100), P("lit-int", "-1" + "0" * 100),
    P("lit-int", "0b" + "1" * 200), P("lit-int", "0o" + "7" * 90), P("lit-int", "- -5"), P("lit-int", "-(-(0x10))"), P("lit-int", "+7"),
    ("lit-int-legacy-octal", "return 0123", "return 0o123"), ("lit-int-legacy-octal", "return -017", "return -0o17"), ("lit-int-legacy-octal", "return 0000", "return 0"),
    P("lit-float", "0.0"), P("lit-float", "-0.0"), P("lit-float", "0e0"), P("lit-float", "-0e0"), P("lit-float", "1."), P("lit-float", ".5"), P("lit-float", "1e5"), P("lit-float", "1E-5"),
    P("lit-float", "1_000.5_5e1_0"), P("lit-float", "00.5"), P("lit-float", "09.5"), P("lit-float", "0.1"), P("lit-float", "1e23"), P("lit-float", "9007199254740993.0"),
    P("lit-float", "5e-324"), P("lit-float", "2.4703282292062327e-324"), P("lit-float", "2.4703282292062328e-324"), P("lit-float", "1.7976931348623157e308"),
    P("lit-float", "1.7976931348623159e308"), P("lit-float", "1e400"), P("lit-float", "-1e400"), P("lit-float", "1e-400"), P("lit-float", "-1e-400"), P("lit-float", "3.141592653589793238462643383279"),
    P("lit-imag", "1j"), P("lit-imag", "0j"), P("lit-imag", "-0j"), P("lit-imag", "1_0.5J"), P("lit-imag-inf", "1e400j"), P("lit-imag", "0b1 + 2j"), P("lit-imag", "-0.0 + 0j"), P("c-arith-complex", "(-0.0 - 0j)"),
    T("lit-c-int", "long", "0o17"), T("lit-c-int", "long", "0b101"), T("lit-c-int", "long", "-0x10"), T("lit-c-int", "long", "-0o17"), T("lit-c-int", "long", "-0b11"), T("lit-c-int", "int", "-2147483648"),
    T("lit-c-int", "long long", "-9223372036854775808"), T("lit-c-int", "long long", "9223372036854775807"), T("lit-c-int", "unsigned long long", "0xFFFFFFFFFFFFFFFF"),
    T("lit-c-int", "unsigned long long", "18446744073709551615"), T("lit-c-int", "unsigned int", "4294967295"), T("lit-c-int", "long", "1_000"), T("lit-c-int", "long", "0123", "0o123"),
    T("lit-c-int", "long", "2147483648"), T("lit-c-int", "long", "-2147483649"), T("lit-c-int", "long", "0x7FFFFFFF + 1"), T("lit-c-int", "long", "12L", "12"), T("lit-c-int", "unsigned long", "12UL", "12"),
    T("lit-c-int", "long long", "-5LL", "-5"), T("lit-c-float", "double", "-0.0"), T("lit-c-float", "double", "0.0"), T("lit-c-float", "double", "1e400"), T("lit-c-float", "double", "-1e400"),
    T("lit-c-float", "double", "0.1"), T("lit-c-float", "double", "1_0.5"), T("lit-c-float", "double", "5e-324"), T("lit-c-float", "double", "-(0.0)"), T("lit-c-float", "double", "7", "7.0"),
    T("lit-c-float", "double", "-0", "0.0"), T("lit-c-float", "float", "0.5"), T("lit-c-float", "double", "1e23"),
    # folding: results and the cases that must stay run-time errors
    P("fold-zero-div", "1 / 0"), P("fold-zero-div", "1 // 0"), P("fold-zero-div", "1 % 0"), P("fold-zero-div", "1.0 / 0"), P("fold-zero-div", "1.5 // 0.0"), P("fold-zero-div", "1.5 % 0.0"),
    P("c-arith-pow", "0 ** -1"), P("c-arith-pow", "0.0 ** -1"), P("fold-zero-div", "(1, 1 // 0)"), P("c-arith-shift", "1 << -1"), P("c-arith-shift", "1 >> -1"),
    P("c-arith-pow", "2.0 ** 10000"), P("fold-float-overflow", "10 ** 400 * 1.0"), P("fold-float-overflow", "1e308 * 10"), P("fold-float-overflow", "-1e308 * 10"),
    P("fold-float-overflow", "10 ** 400 / 3"), P("fold-float-nan", "1e400 - 1e400"), P("fold-float-nan", "1e400 * 0"), P("fold-complex-pow", "(-8) ** 0.5"), P("fold-complex-pow", "(-8.0) ** 0.5"),
    P("fold-huge", "1 << 100000"), P("fold-neg-huge", "-(1 << 20000)"), P("fold-neg-huge", "0 - 0x" + "f" * 5000), P("fold-neg-huge", "-0x" + "f" * 5000), P("fold-huge", "2 ** 10000"), P("fold-huge", "(2 ** 100) ** 100"), P("fold-huge", "10 ** 4300"), P("fold-huge", "-(10 ** 4299)"),
    P("fold-int", "7 // 2"), P("fold-int", "-7 // 2"), P("fold-int", "7 // -2"), P("fold-int", "7 % -2"), P("fold-int", "-7 % 2"), P("fold-int", "2 ** -1"), P("fold-int", "2 ** 0"), P("fold-int", "0 ** 0"),
    P("fold-int", "~5"), P("fold-int", "~-1"), P("fold-int", "-(-2 ** 63)"), P("fold-int", "2 ** 63 - 1"), P("fold-int", "-2 ** 63"), P("fold-int", "(-2) ** 63"), P("fold-int", "5 & -2 | 8 ^ 3"),
    P("fold-int", "1 << 31"), P("fold-int", "1 << 32"), P("fold-int", "1 << 63"), P("fold-int", "1 << 64"), P("fold-int", "-1 >> 70"), P("fold-int", "2 ** 70 >> 65"), P("fold-int", "10 ** 13 + 1"),
    P("fold-int", "0x7FFFFFFF + 1"), P("fold-int", "-0x80000000 - 1"), P("fold-int", "3 * (4 + 5) - 2 ** 3"), P("fold-int", "7 / 2"), P("fold-int", "6 / 3"), P("fold-int", "divmod(7, 2)"),
    P("fold-bool", "True + True"), P("fold-bool", "True * 3"), P("fold-bool", "-True"), P("fold-bool", "~True"), P("fold-bool", "+False"), P("fold-bool", "not 0"), P("fold-bool", "not 0.0"),
    P("fold-bool", "True and 0.0"), P("fold-bool", "0 or -0.0"), P("fold-bool", "0.0 or 0"), P("fold-bool", "1 and 2"), P("fold-bool", "False or None"), P("fold-bool", "True & False"), P("fold-bool", "True | 2"),
    P("fold-bool", "1 == 1.0"), P("fold-bool", "1 is 1"), P("fold-bool", "0.0 == -0.0"), P("fold-bool", "1 < 2 < 3"), P("fold-bool", "1 < 2 > 3"), P("fold-bool", "2 in (1, 2)"), P("fold-bool", "0.0 in (-0.0,)"),
    P("fold-bool", "False in (0,)"), P("fold-bool", "1 if 0 else 2"), P("fold-bool", "1 if 0.0 else -0.0"), P("fold-bool", "True == 1"), P("fold-bool", "(1 < 2) + 1"),
    P("fold-float", "0.0 * -1"), P("fold-float", "-0.0 + 0.0"), P("fold-float", "-0.0 - 0.0"), P("fold-float", "0.0 - 0.0"), P("fold-float", "-(0.0)"), P("fold-float", "-(0.0 * 1)"), P("fold-float", "0.1 + 0.2"),
    P("fold-float", "1.5 * 2"), P("fold-float", "7.5 // 2"), P("fold-float", "-7.5 // 2"), P("fold-float", "7.5 % -2"), P("fold-float", "-7.5 % 2"), P("fold-float", "2 ** 0.5"), P("fold-float", "4 ** -0.5"),
    P("fold-float", "1e308 + 1e308"), P("fold-float", "5e-324 / 2"), P("fold-float", "-5e-324 / 2"), P("fold-float", "1 / 3"), P("fold-float", "2 ** 53 + 1.0"), P("fold-float", "(2 ** 53 + 1) * 1.0"),
    P("fold-float", "-0.0 * 0"), P("fold-float", "0 * -0.0"), P("fold-float", "0 * -1.5"), P("fold-float", "1.0 * -0"), P("fold-float", "abs(-0.0)"), P("fold-float", "float(-0)"), P("fold-float", "float('-0')"),
    P("fold-str", "'a' + 'b'"), P("fold-str", "'ab' * 3"), P("fold-str", "3 * 'ab'"), P("fold-str", "'ab' * 0"), P("fold-str", "'ab' * -1"), P("fold-str", "b'a' + b'b'"), P("fold-str", "b'ab' * 2"),
    P("fold-str", "'a' 'b' + 'c'"), P("fold-str", "'x' * 300"), P("fold-str", "'%d-%s' % (5, 'a')"), P("fold-str", "'a' == 'a'"), P("fold-str", "'a' < 'b'"), P("fold-str", "'a' in 'abc'"),
    P("fold-seq", "(1, 2) * 2"), P("fold-seq", "2 * (1, 2)"), P("fold-seq", "(1, 2) * 0"), P("fold-seq", "(1, 2) * -1"), P("fold-seq", "(1, 2) * 1"), P("fold-seq", "(1, 2) * 2 * 3"), P("fold-seq", "[0] * 3"),
    P("fold-seq", "[(-0.0,)] * 2"), P("fold-seq", "(1, 2) + (3,)"), P("fold-seq", "(0.0,) + (-0.0,)"), P("fold-seq", "(1, 2)[0]"), P("fold-seq", "(0.0, -0.0)[1]"), P("fold-seq", "len((1, 2, 3))"),
    P("fold-seq", "(1, 2) * True"), P("fold-seq", "(1, 2) * False"), P("fold-seq", "(-0.0,) * 2"), P("fold-seq", "((0.0,) * 2, (-0.0,) * 2)"),
    T("fold-c-int", "long", "7 // 2"), T("fold-c-int", "long", "-7 // 2"), T("fold-c-int", "long", "-7 % 2"), T("fold-c-int", "long", "7 % -2"), T("fold-c-int", "long", "1 << 40"),
    T("fold-c-int", "long", "-1 >> 3"), T("fold-c-int", "long", "5 & -2 | 8 ^ 3"), T("fold-c-int", "long", "~5"), T("fold-c-int", "long", "3 * (4 + 5) - 8"), T("fold-c-int", "long", "2 ** 10"),
    T("fold-c-int", "long", "True + True"), T("fold-c-float", "double", "1 / 2"), T("fold-c-float", "double", "0.0 * -1"), T("fold-c-float", "double", "-0.0 + 0.0"),
    T("fold-c-float", "double", "1e308 * 10"), T("fold-c-float", "double", "7.5 // 2"), T("fold-c-float", "double", "-7.5 % 2"), T("fold-c-float", "double", "2 ** -1"),
]


SOLO_LABELS = {"lit-imag-inf", "fold-complex-pow", "fold-neg-huge"}      # may break the build: one module each
# not folded by the compiler, evaluated at run time in C arithmetic on C-typed literals (documented Cython semantics,
# properties C03/C04/C07): a difference from CPython is recorded, not judged here; only a build failure is
CARITH_LABELS = {"c-arith-pow", "c-arith-shift", "c-arith-complex", "fold-complex-pow"}


def gen_fold_expr(rng, depth, kind):
    """random constant expression (text) whose evaluation is cheap; kind: 'i' ints/bools, 'f' with floats."""
    if depth == 0 or rng.random() < 0.25:
        if kind == "f" and rng.random() < 0.5:
            return rng.choice(["0.0", "-0.0", "1.5", "-2.5", "1e308", "5e-324", "0.1", "3.0", "1e16", "-1e-7", "2.0", "0.5"])
        r = rng.random()
        if r < 0.15:
            return rng.choice(["True", "False"])
        if r < 0.6:
            return str(rng.choice([0, 1, 2, 3, 5, 7, 10, 31, 32, 63, 64, 255, 256, 1000, 2 ** 31 - 1, 2 ** 31, 2 ** 32, 2 ** 63 - 1, 2 ** 63, 2 ** 64, 10 ** 13, 10 ** 13 + 1, 10 ** 20]))
        v = rng.randrange(0, 2 ** rng.choice((8, 31, 33, 64, 90)))
        return rng.choice((str, hex, oct, bin))(v)
    r = rng.random()
    a = gen_fold_expr(rng, depth - 1, kind)
    if r < 0.12:
        return "%s(%s)" % (rng.choice(["-", "~", "+", "not "]) if kind == "i" else rng.choice(["-", "+", "not "]), a)
    b = gen_fold_expr(rng, depth - 1, kind)
    if r < 0.22:
        sh = rng.choice(["0", "1", "5", "31", "32", "63", "64", "100", "1000"])
        return "(%s) %s %s" % (a, rng.choice(["<<", ">>"]), sh) if kind == "i" else "(%s) * (%s)" % (a, b)
    if r < 0.30:
        ex = rng.choice(["0", "1", "2", "3", "10", "-1", "-2"]) if kind == "i" else rng.choice(["0", "1", "2", "-1", "0.5", "-0.5"])
        base = gen_fold_expr(rng, 0, kind)
        if "." in ex and base.startswith("-"):
            base = base[1:]                # negative ** fractional is the corpus case `fold-complex-pow`
        return "(%s) ** %s" % (base, ex)
    if r < 0.38:
        return "(%s) %s (%s)" % (a, rng.choice(["<", "<=", "==", "!=", ">", ">=", "and", "or"]), b)
    ops = ["+", "-", "*", "//", "%", "&", "|", "^"] if kind == "i" else ["+", "-", "*", "/", "//", "%"]
    return "(%s) %s (%s)" % (a, rng.choice(ops), b)


# ---- multiplied sequence literals: TupleNode/ListNode args + mult_factor, str/bytes repetition ----
# ConstantFolding keeps `literal * k` as the literal with a pending `mult_factor`; every rule that looks at the
# literal's item list (slicing, indexing, len, +, in, comparison) must account for the factor.

MS_SEQS = ["(1, 2)", "(1, 2, 3)", "[1, 2]", "[0]", "(1, 2.0, True)", "(0.0, -0.0)", "(7,)", "['a', b'a']", "'ab'", "'abc'", "b'ab'", "()", "[]"]
MS_FACTORS = ["{s} * 3", "3 * {s}", "{s} * 2", "{s} * 2 * 2", "2 * {s} * 3", "({s} * 2) * 2", "{s} * 1", "{s} * 0", "{s} * -1", "{s} * True", "0x2 * {s}",
              "{s} * n", "n * {s}", "{s} * n * 2", "{s} * 2 * n", "{s} * z", "{s} * m"]          # n = 3, z = 0, m = -2 at run time
MS_MUST = ["((1, 2) * 3)[1:4]", "([0] * 10)[:5]", "((1, 2, 3) * 2)[:2]", "(3 * (1, 2))[1:4]", "([1, 2] * 3)[1:4]", "((1, 2.0, True) * 2)[-2:]",
           "((1, 2) * 2 * 2)[1:]", "((1, 2) * 3)[:]", "('ab' * 3)[1:4]", "len((1, 2) * 3)", "((1, 2) * 3)[3]", "((1, 2) * 3) == (1, 2, 1, 2, 1, 2)",
           "(0.0, -0.0) * 2 == (0.0,) * 4", "2 in (1, 2) * 3", "((1, 2) * 3)[1:4] == (2, 1, 2)", "([1] * 0) or 7", "not (1, 2) * 0"]
MS_SLICES = ["[1:4]", "[:2]", "[:5]", "[-2:]", "[:]", "[2:]", "[1:-1]", "[3:100]", "[-100:2]", "[4:1]", "[::2]", "[::-1]", "[1:5:2]", "[0:0]", "[:1]", "[-3:-1]", "[5:]"]
MS_INDEX = ["[0]", "[1]", "[2]", "[3]", "[-1]", "[-3]", "[5]"]
MS_OTHER = [("len", "len({e})"), ("concat", "{e} + {s}"), ("concat", "{s} + {e}"), ("concat", "{e} + {e}"), ("in", "2 in {e}"), ("in", "9 not in {e}"), ("in", "True in {e}"),
            ("cmp", "{e} == {s}"), ("cmp", "{e} == {s} + {s} + {s}"), ("cmp", "{e} != {s} * 3"), ("cmp", "{e} < {s} + {s}"), ("cmp", "{e} > {s}"), ("bool", "not {e}"),
            ("bool", "{e} or 5"), ("bool", "{e} and 5"), ("conv", "tuple({e})"), ("conv", "list({e})"), ("mul", "({e}) * 2"), ("unpack", "[*{e}, 9]"), ("nest", "({e}, {e}[1:3])"),
            ("nest", "(({e})[:3] * 2)[1:5]"), ("cond", "{e}[1:] if {e} else 0")]


def ms_case(label, seq, fac, op):
    e = "(" + fac.format(s=seq) + ")"
    expr = op.format(e=e, s=seq) if "{e}" in op else e + op
    pre = ""
    for name, val in (("n", "3"), ("z", "0"), ("m", "-2")):
        if re.search(r"\b%s\b" % name, fac):
            pre += "%s = int('%s')\n    " % (name, val)
    body = pre + "return " + expr
    return ("mulseq-" + label, body, body)


def ms_ok(case):
    """CPython evaluates the case (an exception there would be a compile-time error or is not a constant question)."""
    ns = {}
    try:
        exec("def f():\n    " + case[2], ns)
        ns["f"]()
        return True
    except Exception:
        return False


def gen_multseq_cases(ctx):
    rng = ctx.rng
    core, seen = [], set()

    def add(c):
        if c[1] not in seen and ms_ok(c):
            seen.add(c[1])
            core.append(c)
    # fixed grid: the shapes that cut inside one period, on both sides of a period boundary, every factor kind
    for seq in ("(1, 2)", "[1, 2]", "(1, 2, 3)", "[0]", "'ab'", "b'ab'"):
        for fac in ("{s} * 3", "3 * {s}", "{s} * 2 * 2", "{s} * n", "{s} * 1", "{s} * 0", "{s} * -1"):
            for op in ("[1:4]", "[:2]", "[:5]", "[-2:]", "[:]", "[::2]"):
                add(ms_case("slice", seq, fac, op))
            for op in ("[0]", "[3]", "[-1]"):
                add(ms_case("index", seq, fac, op))
            add(ms_case("len", seq, fac, "len({e})"))
            add(ms_case("in", seq, fac, "2 in {e}"))
            add(ms_case("cmp", seq, fac, "{e} == {s} + {s} + {s}"))
            add(ms_case("concat", seq, fac, "{e} + {s}"))
    if ctx.quick:
        rng.shuffle(core)
        core = core[:70]
        seen = set(c[1] for c in core)
    for e in MS_MUST:            # always: slices that cut inside one period of a repeated literal
        lab = "cmp" if "==" in e else "len" if e.startswith("len(") else "in" if " in " in e else "bool" if (" or " in e or e.startswith("not ")) else \
            "slice" if ":" in e else "index"
        add(("mulseq-" + lab, "return " + e, "return " + e))
    # seeded sample of the full product
    for _ in range(ctx.n(40, 600)):
        seq, fac = rng.choice(MS_SEQS), rng.choice(MS_FACTORS)
        r = rng.random()
        if r < 0.45:
            add(ms_case("slice", seq, fac, rng.choice(MS_SLICES)))
        elif r < 0.6:
            add(ms_case("index", seq, fac, rng.choice(MS_INDEX)))
        else:
            label, op = rng.choice(MS_OTHER)
            add(ms_case(label, seq, fac, op))
    return core


def fold_module(cases):
    cy = py = ""
    for i, (_, cb, pb) in enumerate(cases):
        cy += "def f%d():\n    %s\n" % (i, cb)
        py += "def f%d():\n    %s\n" % (i, pb)
    return cy, py


def build_cases(ctx, name, cases, depth=0):
    """Compile a list of cases; a failing build is bisected down to the offending cases.
    Returns list of (case, compiled_outcome, cpython_outcome); compiled_outcome None = that case alone does not build."""
    if depth == 0:
        solo = [c for c in cases if c[0] in SOLO_LABELS]
        rest = [c for c in cases if c[0] not in SOLO_LABELS]
        chunks = [[c] for c in solo] + [rest[i:i + 100] for i in range(0, len(rest), 100)]
    else:
        chunks = [cases]
    builts = []
    for ci, ch in enumerate(chunks):
        cy, py = fold_module(ch)
        builts.append(Built("%s_%d_%d" % (name, depth, ci), cy, len(ch), ref_source=py))
    build_all(ctx, builts)
    results = []
    for b, ch in zip(builts, chunks):
        if b.error:
            budget = getattr(ctx, "_c09_bisect_budget", 24)
            if len(ch) == 1 or budget <= 0:
                # (a chunk that cannot be bisected any further within the budget is reported as a whole, first case as the witness)
                orac, err = run_funcs(ctx, os.path.join(ctx.scratch, "c09", b.name, b.name + "_ref.py"), b.name + "_ref", len(ch))
                for ci, c in enumerate(ch):
                    results.append((c, ["build-" + b.error[0], cap(b.error[1][-400:], 400), -1] + ([] if len(ch) == 1 else ["unresolved"]),
                                    orac[ci] if orac else ["err", "ref-failed", -1]))
            else:
                ctx._c09_bisect_budget = budget - 2
                mid = len(ch) // 2
                results += build_cases(ctx, "%s%dL" % (name, depth), ch[:mid], depth + 1)
                results += build_cases(ctx, "%s%dR" % (name, depth), ch[mid:], depth + 1)
            continue
        impl, err1 = run_funcs(ctx, b.so, b.name, b.nfuncs)
        orac, err2 = run_funcs(ctx, os.path.join(os.path.dirname(b.so), b.name + "_ref.py"), b.name + "_ref", b.nfuncs)
        if orac is None:
            raise lib.Infra("reference run failed: " + cap(err2))
        if impl is None:
            if len(ch) == 1:
                results.append((ch[0], ["import-crash", cap(err1, 300), -1], orac[0]))
            else:
                mid = len(ch) // 2
                results += build_cases(ctx, "%s%dL" % (name, depth), ch[:mid], depth + 1)
                results += build_cases(ctx, "%s%dR" % (name, depth), ch[mid:], depth + 1)
            continue
        lit_lines = set(r[0] for r in b.hook.get("rets", []) if r[2])
        line = 1
        for c, im, orc in zip(ch, impl, orac):
            nbody = c[1].count("\n") + 1
            ret_line = line + nbody          # the `return` is the last body line; a literal return node = folded completely
            results.append((c, im + [ret_line in lit_lines], orc))
            line += 1 + nbody
        b.checked_nums = True
        check_num_consts(ctx, b)
    return results


def check_num_consts(ctx, b):
    """numeric constant cache: distinct (text, type) keys must get distinct C names; int texts parse back (D-py on the hook data);
    large ints: the base-32 table in the generated C equals the model's rendering of the values."""
    nums = b.hook["nums"]
    seen = {}
    for n in nums:
        key = (n["value"], n["py_type"])
        ctx.count("C/num-const")
        if n["cname"] in seen and seen[n["cname"]] != key:
            ctx.violation("num-const-cname-collision", "two numeric constants share the C name %s: %s and %s" % (n["cname"], cap(seen[n["cname"]], 80), cap(key, 80)),
                          {"module": cap(b.source, 3000)})
        seen[n["cname"]] = key
    ints = [big_int(n["value"]) for n in nums if n["py_type"] in ("int", "long")]
    large = sorted(set(v for v in ints if v.bit_length() > 63))
    ctext = open(b.cfile).read()
    m = re.search(r'const char\* c_constant = "((?:[^"\\]|\\.|"\s*")*)";', ctext)
    got = set()
    if m:
        raw = re.sub(r'"\s*"', "", m.group(1))
        got = set(raw.split("\\000"))
    if large or got:
        out = ctx.drv.batch(["C09 b32 " + big_dec(v) for v in large]) if large else []
        want = set(unhx(o[3:]) for o in out)
        ctx.count("C/base32-table", len(large))
        if want != got:
            ctx.tie_break("I-art base-32 table of large int constants vs CyVerif.C09.toBase32",
                          "C file has %d entries, model %d; only in C: %s; only in model: %s" % (len(got), len(want), cap(sorted(got - want)[:2], 120), cap(sorted(want - got)[:2], 120)),
                          {"module": cap(b.source, 3000)})


def leg_c(ctx):
    rng = ctx.rng
    cases = list(FOLD_CORPUS) + [tuple(c) for c in load_corpus("fold_cases")]
    if ctx.replay_case and "fold_case" in ctx.replay_case.get("case", {}):
        cases = [tuple(ctx.replay_case["case"]["fold_case"])]
    else:
        for _ in range(ctx.n(80, 600)):
            kind = rng.choice("iif")
            e = gen_fold_expr(rng, rng.choice((1, 2, 2, 3)), kind)
            e2 = gen_fold_expr(rng, 1, kind)
            try:        # only expressions CPython evaluates: an expression that raises there is a type error for the compiler
                eval(e, {}), eval(e2, {})
            except Exception:
                ctx.count("C/skipped-cpython-raises")
                continue
            cases.append(P("rand-%s-expr" % ("int" if kind == "i" else "float"), e))
            if rng.random() < 0.25:
                cases.append(P("rand-tuple-expr", "(%s, %s)" % (e, e2)))
        ms = gen_multseq_cases(ctx)
        ctx.notes["C_multiplied_sequence_cases"] = len(ms)
        cases += ms
    results = build_cases(ctx, "c09fold", cases)
    carith = []
    for (label, cb, pb), im, orc in results:
        if label.startswith("rand-") and orc[0] != "ok":
            ctx.count("C/skipped-cpython-raises")
            continue
        ctx.count("C/" + label)
        ctx.seen((label, cb))
        if im[:2] == orc[:2]:
            continue
        replay = {"fold_case": [label, cb, pb]}
        what = "`%s`: compiled %s %s, CPython (`%s`) %s %s" % (cap(cb, 120), im[0], cap(im[1], 80), cap(pb, 60), orc[0], cap(orc[1], 80))
        if len(im) > 3 and im[3] == "unresolved":
            ctx.violation("const-module-" + im[0], "a module of constant expressions does not build and could not be bisected within the budget; one of its cases: " + what, replay)
        elif im[0].startswith("build-") and "Exceeds the limit" in im[1]:
            ctx.violation("neg-huge-int-constant-compile-crash", what, replay)
        elif label == "fold-complex-pow" and im[0].startswith("build-"):
            ctx.violation("fold-complex-result-compile-crash", what, replay)
        elif label == "lit-imag-inf" and im[0].startswith("build-"):
            ctx.violation("imag-literal-inf-c-compile-error", what, replay)
        elif label in CARITH_LABELS and not im[0].startswith(("build-", "import-")):
            carith.append(cap(what, 200))
        elif label.startswith("rand-") and len(im) > 3 and im[3] is False and not im[0].startswith(("build-", "import-")):
            # not (completely) folded: the value comes from run-time arithmetic helpers, not from compile-time evaluation
            ctx.count("C/rand-unfolded-runtime-difference")
            carith.append(cap(what, 200))
        elif im[0] == orc[0] == "ok" and classify_pool_mismatch(im[1], orc[1]) == "pool-float-zero-sign" and ("(" in cb or "[" in cb) \
                and im[1].startswith(("t[", "l[", "F[", "S[")):
            ctx.violation("pool-float-zero-sign", what + " (a pooled tuple constant inside the expression is shared with an ==-equal one)", replay)
        else:
            ctx.violation("const-" + label, what, replay)
    ctx.notes["C_runtime_c_arithmetic_differences_not_judged"] = carith[:8]
    if results:
        (label, cb, pb), im, orc = results[min(40, len(results) - 1)]
        ctx.sample({"leg": "C", "case": cap(cb, 80), "compiled": cap(im[1], 60), "cpython": cap(orc[1], 60)})


# ---------------------------------------------------------------------------------------------
# regenerated parameters (G): digit classes of Lexicon.py, the 10**13 threshold of IntNode

def regenerated_obligations(ctx):
    lex = open(os.path.join(ctx.stage, "Cython", "Compiler", "Lexicon.py")).read()
    enodes = open(os.path.join(ctx.stage, "Cython", "Compiler", "ExprNodes.py")).read()
    names = {"nonzero_digit": "nonzeroDigit", "digit": "decDigit", "bindigit": "binDigit", "octdigit": "octDigit", "hexdigit": "hexDigit"}
    found = {}
    for py, lean in names.items():
        m = re.search(r'^\s*%s = Any\("([0-9A-Za-z]+)"\)' % py, lex, re.M)
        if m:
            found[lean] = m.group(1)
    thr = re.search(r"formatter = hex if (?:abs\(value\)|value) > \(?10\*\*(\d+)\)? else str", enodes)
    if len(found) != len(names) or not thr:
        ctx.obligation("C09 parameters extracted from Lexicon.py / ExprNodes.py", False, "translator cannot find the digit classes / threshold any more: %s %s" % (sorted(found), bool(thr)))
        return
    opt = open(os.path.join(ctx.stage, "Cython", "Compiler", "Optimize.py")).read()
    m = re.search(r"def visit_SliceIndexNode\(self, node\):(.*?)\n    def ", opt, re.S)
    guard = bool(m and re.search(r"if base\.is_sequence_constructor and base\.mult_factor is None:\s*\n\s*base\.args = base\.args\[start:stop\]", m.group(1)))
    ctx.obligation("ConstantFolding.visit_SliceIndexNode cuts a literal's item list only without pending mult_factor (model foldSlice true; theorem fold_slice_sound)",
                   guard, "guard `base.is_sequence_constructor and base.mult_factor is None` " + ("present" if guard else "NOT found: theorem fold_slice_unsound_without_guard applies"))
    src = "import CyVerif.Model.C09\nopen CyVerif.C09\n"
    for lean, chars in sorted(found.items()):
        lst = "[" + ",".join("'%s'" % c for c in chars) + "]"
        src += "example : ∀ n : Nat, n < 128 → (%s (Char.ofNat n) = %s.contains (Char.ofNat n)) := by decide\n" % (lean, lst)
    src += "example : tenTo13 = 10 ^ %s := by decide\n" % thr.group(1)
    ctx.lean_obligation("digit classes and 10**13 threshold of the current source = model parameters", src,
                        "Lexicon.py: %s; IntNode threshold 10**%s" % (json.dumps(found, sort_keys=True), thr.group(1)))


def run(ctx):
    import Cython.Utils as U
    import Cython.Compiler.ExprNodes as E
    if not U.__file__.startswith(ctx.stage) or not E.__file__.startswith(ctx.stage):
        raise lib.Infra("staged modules not in use")
    ctx.rule = ("A1: all strings of length <= 3 (quick) / 4 (thorough) over '%s' plus seeded random longer ones, for str_to_number and int(s, b); random tokens of the "
                "scanner language (4 alternatives, underscores, 1..40 digits) and tokens of 630..6000 digits under digit limits 4300/0/640/1000; non-trivial = accepted. "
                "A2: strings over '%s' starting with a digit (exhaustive short + random) and random tokens with C suffixes, through the real scanner and p_int_literal. "
                "A3: boundary and random ints up to 10^4302 through IntNode.generate_evaluation_code and unop_node. "
                "B: a fixed witness module + generated modules of 45 functions returning constant tuples/frozensets/slices over ==-equal leaves "
                "(0, 0.0, -0.0, False, 1, 1.0, True, ...), 45%% are twins of an earlier constant; every pair of recorded constants is one case. "
                "C: literal/folding corpus + random constant expressions, compiled vs CPython." % (ALPHA, SCAN_ALPHA))
    ctx.explanation = ("Theorems cover: str_to_number on the whole scanner language (sentence 1, integers of any size and base), the text <-> value round trip of "
                       "int constants incl. the base-32 table, and `two constants that CPython distinguishes are never merged` for pooled tuples/slices/frozensets "
                       "(full for the repaired variant, partial + counterexamples for the pinned one). NOT covered by a theorem: float literal text -> double "
                       "(the C compiler's strtod), ImagNode, constant folding itself (Python's operators run at compile time: trusted by construction), "
                       "C-typed literal emission (value_as_c_integer_string), frozenset('...') string form; these are checked differentially only (leg C).")
    ctx.assumptions = ["ASCII source text for int(); sys.int_max_str_digits of the running Python is the model parameter `lim`",
                       "repr() is injective on non-NaN floats including the sign of zero (used by the repaired key)",
                       "frozenset iteration order and NaN payloads are not observable values"]
    ctx.extra_trusted = ["reference model pyInt of CPython int(text, base) (tied to CPython on every run, leg A1)",
                         "gcc's decimal-to-double conversion of float literals (compared with CPython on a corpus, leg C)"]
    only = (ctx.replay_case or {}).get("case", {})
    import time
    timing = ctx.notes.setdefault("timing_s", {})

    def timed(name, f, *a):
        t0 = time.time()
        f(*a)
        timing[name] = round(time.time() - t0, 1)
    timed("G", regenerated_obligations, ctx)
    if not only or "strings" in only or "token" in only:
        timed("A1", leg_a1, ctx, U)
    if not only or "scan" in only:
        timed("A2", leg_a2, ctx)
    if not only or "ints" in only:
        timed("A3", leg_a3, ctx)
    if not only or "pool_exprs" in only:
        timed("B", leg_b, ctx)
    if not only or "fold_case" in only or "module" in only:
        timed("C", leg_c, ctx)

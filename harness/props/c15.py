"""C15 — indexing and slicing of builtin sequences match CPython.

Three-way on every case: implementation (modules compiled with the STAGED compiler: typed and
object containers x C-typed / object indices and slice bounds, get/set/del), Lean model (cydrv,
`CyVerif.C15`), oracle (CPython doing the same operation on an equal container in this process).
The PySpec part of the model (`pyget/pyset/pydel/pyslice/...`) is compared with CPython as well.
"""
import concurrent.futures as cf
import ctypes
import os
import re

import cybuild
import lib

# index / bound types: name -> (C spelling, bits, signed)
ITY = {"int": ("int", 32, 1), "long": ("long", 64, 1), "ssz": ("Py_ssize_t", 64, 1), "uint": ("unsigned int", 32, 0),
       "sizet": ("size_t", 64, 0), "ll": ("long long", 64, 1), "short": ("short", 16, 1), "obj": ("object", 0, 0)}
BTY = ("ssz", "int", "sizet", "uint", "obj")
CONTS = ("list", "tuple", "str", "bytes", "bytearray", "object")
RUNTIME = {"list": ("list",), "tuple": ("tuple",), "str": ("str",), "bytes": ("bytes",), "bytearray": ("bytearray",),
           "object": ("list", "tuple", "LS", "TS", "str", "bytes", "bytearray")}
MKIND = {"list": "list", "tuple": "tuple", "LS": "listSub", "TS": "tupleSub", "str": "str", "bytes": "bytes",
         "bytearray": "bytearray"}
MUTABLE = ("list", "LS", "bytearray")
ALPHA = "a\xe9€b\U0001d11ecdefgh"
MAX, MIN = 2 ** 63 - 1, -2 ** 63

PRELUDE = '''
class IS(int): pass
class IX:
    def __init__(self, v): self.v = v
    def __index__(self): return self.v
class LS(list): pass
class TS(tuple): pass
def _verif_env(): return {'IS': IS, 'IX': IX, 'LS': LS, 'TS': TS}
'''
ENV = {}
exec(PRELUDE, ENV)
CONST_IDX = (-3, -1, 0, 2)
CONST_SL = ((1, -1), (-2, None), (None, 2), (None, None), (3, 1), (-100, 100))


def gen_funcs():
    """name -> descriptor (op, cont, ity/bty, form, source text)"""
    F = {}

    def add(name, src, **d):
        d["src"] = src
        d["name"] = name
        F[name] = d
    for c in CONTS:
        for t, (ct, w, s) in ITY.items():
            add("get_%s_%s" % (c, t), "def get_%s_%s(%s a, %s i):\n    return a[i]\n" % (c, t, c, ct), op="get", cont=c, ity=t)
            if not (c in ("str", "bytes") and t != "obj"):      # C-typed index on str/bytes: `a[i] = v` is emitted as
                # invalid C (`None = ...`), `del a[i]` is a compile error ("Deletion of non-Python, non-C++ object")
                add("set_%s_%s" % (c, t), "def set_%s_%s(%s a, %s i, v):\n    a[i] = v\n    return a\n" % (c, t, c, ct),
                    op="set", cont=c, ity=t)
                add("del_%s_%s" % (c, t), "def del_%s_%s(%s a, %s i):\n    del a[i]\n    return a\n" % (c, t, c, ct),
                    op="del", cont=c, ity=t)
        for k in CONST_IDX:
            nm = "cget_%s_%s" % (c, str(k).replace("-", "m"))
            add(nm, "def %s(%s a):\n    return a[%d]\n" % (nm, c, k), op="cget", cont=c, const=k)
        for n, (x, y) in enumerate(CONST_SL):
            nm = "csl_%s_%d" % (c, n)
            txt = "%s:%s" % ("" if x is None else x, "" if y is None else y)
            add(nm, "def %s(%s a):\n    return a[%s]\n" % (nm, c, txt), op="csl", cont=c, const=(x, y))
        for t in BTY:
            ct = ITY[t][0]
            for form, sig, sub in (("ij", "%s i, %s j" % (ct, ct), "i:j"), ("i", "%s i" % ct, "i:"), ("j", "%s j" % ct, ":j")):
                nm = "sl_%s_%s_%s" % (c, t, form)
                add(nm, "def %s(%s a, %s):\n    return a[%s]\n" % (nm, c, sig, sub), op="sl", cont=c, bty=t, form=form)
            nm = "ssl_%s_%s" % (c, t)
            add(nm, "def %s(%s a, %s i, %s j, v):\n    a[i:j] = v\n    return a\n" % (nm, c, ct, ct), op="ssl", cont=c, bty=t, form="ij")
            nm = "dsl_%s_%s" % (c, t)
            add(nm, "def %s(%s a, %s i, %s j):\n    del a[i:j]\n    return a\n" % (nm, c, ct, ct), op="dsl", cont=c, bty=t, form="ij")
        nm = "sl_%s_mix_ij" % c
        add(nm, "def %s(%s a, Py_ssize_t i, object j):\n    return a[i:j]\n" % (nm, c), op="sl", cont=c, bty="mix", form="ij")
        add("sl3_%s_obj" % c, "def sl3_%s_obj(%s a, i, j, k):\n    return a[i:j:k]\n" % (c, c), op="sl3", cont=c, bty="obj")
        add("sl3_%s_ssz" % c, "def sl3_%s_ssz(%s a, Py_ssize_t i, Py_ssize_t j, Py_ssize_t k):\n    return a[i:j:k]\n" % (c, c),
            op="sl3", cont=c, bty="ssz")
        add("dsl3_%s_obj" % c, "def dsl3_%s_obj(%s a, i, j, k):\n    del a[i:j:k]\n    return a\n" % (c, c), op="dsl3", cont=c, bty="obj")
    return F


def gen_directive_funcs():
    """reduced set for the non-default directive modules (flag plumbing)"""
    F = {}
    for c in CONTS:
        for t in ("int", "ssz", "sizet"):
            ct = ITY[t][0]
            for op, body, extra in (("get", "return a[i]", ""), ("set", "a[i] = v\n    return a", ", v"), ("del", "del a[i]\n    return a", "")):
                if op in ("set", "del") and c in ("str", "bytes"):
                    continue
                nm = "%s_%s_%s" % (op, c, t)
                F[nm] = dict(name=nm, op=op, cont=c, ity=t, src="def %s(%s a, %s i%s):\n    %s\n" % (nm, c, ct, extra, body))
        for k in CONST_IDX:
            nm = "cget_%s_%s" % (c, str(k).replace("-", "m"))
            F[nm] = dict(name=nm, op="cget", cont=c, const=k, src="def %s(%s a):\n    return a[%d]\n" % (nm, c, k))
    return F


def split_modules(F, prefix, nmod, directives=None):
    names = sorted(F)
    mods = []
    for m in range(nmod):
        part = names[m::nmod]
        if part:
            mods.append(dict(name="%s%d" % (prefix, m), funcs=part, directives=directives or {},
                             source=PRELUDE + "\n".join(F[n]["src"] for n in part)))
    return mods


# --------------------------------------------------------------------------
# containers, canonical forms, oracle


def mk(kind, n):
    """(argument source, element ints) of a container of runtime kind `kind` and length n"""
    if kind in ("list", "tuple", "LS", "TS"):
        ints = [100 + k for k in range(n)]
    elif kind == "str":
        ints = [ord(ch) for ch in ALPHA[:n]]
    else:
        # byte containers: include bytes with the high bit set, 0xFF (the -1 error sentinel if read as signed char) and NUL
        ints = [255, 128, 65, 0, 200, 127, 129, 254, 66][:n]
    if kind == "list":
        src = repr(ints)
    elif kind == "tuple":
        src = repr(tuple(ints))
    elif kind == "LS":
        src = "LS(%r)" % (ints,)
    elif kind == "TS":
        src = "TS(%r)" % (tuple(ints),)
    elif kind == "str":
        src = repr(ALPHA[:n])
    elif kind == "bytes":
        src = repr(bytes(ints))
    else:
        src = repr(bytearray(ints))
    return src, ints


def lst(ints):
    return ",".join(map(str, ints)) if ints else "-"


def canon(v):
    """type name + element ints"""
    if isinstance(v, str):
        return "str:%s" % [ord(c) for c in v]
    if isinstance(v, (bytes, bytearray, list, tuple)):
        return "%s:%s" % (type(v).__name__, [int(x) for x in v])
    if isinstance(v, int):
        return "int:%s" % [int(v)]
    return "%s:?%r" % (type(v).__name__, v)


_ELT = re.compile(r"int:(-?\d+)")


def canon_impl(out):
    """runner outcome ('ok type:repr' / 'err X' / 'crash ..') -> same canonical form as canon()"""
    if not out.startswith("ok "):
        return out
    tname, _, rep = out[3:].partition(":")
    try:
        if rep.startswith("[") and tname not in ("str", "bytes", "bytearray"):
            body = rep[1:-1]
            vals = [int(x[4:]) for x in body.split(";")] if body else []
            if body and not all(_ELT.fullmatch(x) for x in body.split(";")):
                return out
            return "ok %s:%s" % (tname, vals)
        return "ok " + canon(eval(rep, {"bytearray": bytearray}))
    except Exception:
        return out


def setval(kind):
    """(argument source, model ints) of the value assigned by set / slice-set"""
    if kind in ("bytes", "bytearray"):
        return "90", 90, "b'xy'", [120, 121]
    if kind == "str":
        return "'z'", 122, "'xy'", [120, 121]
    return "999", 999, "[7, 8]", [7, 8]


def oracle(d, args):
    """CPython doing the same operation"""
    a = args[0]
    op = d["op"]
    try:
        if op == "get":
            r = a[args[1]]
        elif op == "cget":
            r = a[d["const"]]
        elif op == "set":
            a[args[1]] = args[2]
            r = a
        elif op == "del":
            del a[args[1]]
            r = a
        elif op == "csl":
            r = a[d["const"][0]:d["const"][1]]
        elif op in ("sl", "ssl", "dsl"):
            form = d["form"]
            i = args[1] if form in ("ij", "i") else None
            j = args[2] if form == "ij" else (args[1] if form == "j" else None)
            if op == "sl":
                r = a[i:j]
            elif op == "ssl":
                a[i:j] = args[3]
                r = a
            else:
                del a[i:j]
                r = a
        elif op == "sl3":
            r = a[args[1]:args[2]:args[3]]
        elif op == "dsl3":
            del a[args[1]:args[2]:args[3]]
            r = a
        else:
            raise lib.Infra("bad op " + op)
        return "ok " + canon(r)
    except lib.Infra:
        raise
    except Exception as e:
        return "err " + type(e).__name__


def model_matches(model, impl):
    """model line ('ok 5' / 'ok [1,2]' / 'err X' / 'ub k') against the canonical impl outcome"""
    if model.startswith("ub "):
        return True                      # C undefined behaviour: any observation is consistent
    if model.startswith("err "):
        return impl == model
    if not impl.startswith("ok "):
        return False
    ints = impl.partition(":")[2].replace(" ", "")
    m = model[3:]
    return ints == (m if m.startswith("[") else "[%s]" % m)


# --------------------------------------------------------------------------
# value domains


def type_range(t):
    _, w, s = ITY[t]
    return (-2 ** (w - 1), 2 ** (w - 1) - 1) if s else (0, 2 ** w - 1)


EDGES = [2 ** 15 - 1, 2 ** 15, -2 ** 15, -2 ** 15 - 1, 2 ** 31 - 1, 2 ** 31, -2 ** 31, -2 ** 31 - 1, 2 ** 32 - 1, 2 ** 32,
         2 ** 62, -2 ** 62, MAX - 1, MAX, MAX + 1, MIN, MIN + 1, MIN - 1, 2 ** 64 - 1, 2 ** 64, 2 ** 70, -2 ** 70]


def c_values(n, t, edges=True):
    lo, hi = type_range(t)
    vals = [v for v in range(-2 * n - 2, 2 * n + 3) if lo <= v <= hi]
    if edges:
        vals += [v for v in sorted(set([lo, lo + 1, hi - 1, hi] + EDGES)) if lo <= v <= hi and v not in vals]
    return vals


def obj_values(n, edges=True):
    """(argument source, integer value or None when the object is not an index)"""
    vals = [(str(v), v) for v in range(-2 * n - 2, 2 * n + 3)]
    if edges:
        vals += [(str(v), v) for v in EDGES]
        vals += [("True", 1), ("False", 0), ("IS(-1)", -1), ("IS(%d)" % n, n), ("IX(-%d)" % max(n, 1), -max(n, 1)),
                 ("IX(0)", 0), ("IX(2**70)", 2 ** 70), ("1.5", None), ("'a'", None), ("None", None)]
    return vals


# --------------------------------------------------------------------------
# cases


def enc_bound(t, src_v):
    """model encoding of one slice bound; src_v = (argument source, value)"""
    src, v = src_v
    if t == "obj":
        return "N" if v is None else "o:%d" % v
    return "c:%d:%d:%d" % (ITY[t][1], ITY[t][2], v)


def idx_cases(d, lens, dirs=(1, 1), edges=True):
    """cases of get/set/del/cget: (func, args source, model line or None, class, distribution key)"""
    out = []
    op, cont = d["op"], d["cont"]
    for n in lens:
        for kind in RUNTIME[cont]:
            src, ints = mk(kind, n)
            L, mkind = lst(ints), MKIND[kind]
            vsrc, vint, _, _ = setval(kind)
            if op == "cget":
                vals, w, s, cn = [(None, d["const"])], 64, 1, int(d["const"] >= 0)
            elif d["ity"] == "obj":
                vals, w, s, cn = obj_values(n, edges), 0, 0, 0
            else:
                vals = [(str(v), v) for v in c_values(n, d["ity"], edges)]
                (_, w, s), cn = ITY[d["ity"]], 0
            for isrc, v in vals:
                flags = "%d %d %d %d %d" % (w, s, dirs[0], dirs[1], cn)
                if w == 0:                 # object index: CPython's own subscript protocol
                    if v is None:
                        m = None
                    elif op == "get":
                        m = "C15 pyget %s %d" % (L, v)
                    elif kind not in MUTABLE:
                        m = None
                    elif op == "set":
                        m = "C15 pyset %s %d %d" % (L, v, vint)
                    else:
                        m = "C15 pydel %s %d" % (L, v)
                elif op in ("get", "cget"):
                    m = "C15 get %s %s %s %d" % (cont if cont != "object" else "o:" + mkind, flags, L, v)
                elif op == "set":
                    m = "C15 set %s %s %s %d %d" % ("bytearray" if cont == "bytearray" else "o:" + mkind, flags, L, v, vint)
                else:
                    m = "C15 del %s %s %s %d" % (mkind, flags, L, v)
                args = [src] + ([isrc] if isrc is not None else []) + ([vsrc] if op == "set" else [])
                out.append((d["name"], "(%s,)" % ", ".join(args), m, "index", "%s/%s/%s" % (op, kind, d.get("ity", "const"))))
    return out


def bound_values(n, t, edges):
    if t == "obj":
        vals = [(s, v) for s, v in obj_values(n, edges) if v is not None or s == "None"]
        return [x for x in vals if x[0] not in ("True", "False", "IX(0)")] + ([("True", 1)] if edges else [])
    return [(str(v), v) for v in c_values(n, t, edges)]


def is_edge(v):
    return v is not None and abs(v) > 1000


def slice_cases(d, lens, rng, cap, fixed):
    out = []
    op, cont, t = d["op"], d["cont"], d["bty"]
    ts, te = ("ssz", "obj") if t == "mix" else (t, t)
    for n in lens:
        for kind in RUNTIME[cont]:
            src, ints = mk(kind, n)
            L, mkind = lst(ints), MKIND[kind]
            _, _, ssrc, sints = setval(kind)
            form = d["form"]
            A = bound_values(n, ts, True) if form in ("ij", "i") else [(None, None)]
            B = bound_values(n, te, True) if form in ("ij", "j") else [(None, None)]
            pairs = [(a, b) for a in A for b in B if not (is_edge(a[1]) and is_edge(b[1])) or n in (0, 3)]
            if cap and len(pairs) > cap:
                keep = [p for p in pairs if is_edge(p[0][1]) and is_edge(p[1][1])]
                pairs = rng.sample(pairs, cap) + (rng.sample(keep, min(len(keep), 12)) if n == 3 else [])
            for a, b in pairs:
                bs = enc_bound(ts, a) if form in ("ij", "i") else "_"
                be = enc_bound(te, b) if form in ("ij", "j") else "_"
                tk = "o" if cont == "object" else "t:" + mkind
                if op == "sl":
                    m = "C15 slice %s %d %s %s %s" % (tk, fixed, L, bs, be)
                else:
                    tk = ("o:" if cont == "object" else "t:") + mkind
                    m = "C15 ass %s %s %s %s %s" % (tk, L, bs, be, lst(sints) if op == "ssl" else "D")
                args = [src] + [x[0] for x in (a, b) if x[0] is not None] + ([ssrc] if op == "ssl" else [])
                cls = "slice"
                for tt, (_, v) in ((ts, a), (te, b)):
                    if v is not None and tt == "obj" and not MIN <= v <= MAX and cont != "object":
                        cls = "objbound"
                    elif v is not None and tt == "sizet" and v > MAX and cls == "slice":
                        cls = "unsignedbound"
                out.append((d["name"], "(%s,)" % ", ".join(args), m, cls, "%s/%s/%s" % (op, kind, t)))
    return out


def const_slice_cases(d, lens, fixed):
    out = []
    x, y = d["const"]
    for n in lens:
        for kind in RUNTIME[d["cont"]]:
            src, ints = mk(kind, n)
            bs = "_" if x is None else "c:64:1:%d" % x
            be = "_" if y is None else "c:64:1:%d" % y
            tk = "o" if d["cont"] == "object" else "t:" + MKIND[kind]
            out.append((d["name"], "(%s,)" % src, "C15 slice %s %d %s %s %s" % (tk, fixed, lst(ints), bs, be), "slice",
                        "csl/%s" % kind))
    return out


def slice3_cases(d, lens, rng, cap):
    out = []
    for n in lens:
        for kind in RUNTIME[d["cont"]]:
            src, ints = mk(kind, n)
            rngv = list(range(-2 * n - 2, 2 * n + 3))
            if d["bty"] == "obj":
                rngv = [None] + rngv + [2 ** 70, -2 ** 70]
            trip = [(i, j, k) for i in rngv for j in rngv for k in (([None] if d["bty"] == "obj" else []) + [-3, -2, -1, 0, 1, 2, 3])]
            if cap and len(trip) > cap:
                trip = rng.sample(trip, cap)
            for i, j, k in trip:
                f = lambda z: "N" if z is None else str(z)
                if d["op"] == "sl3":
                    m = "C15 pyslice %s %s %s %s" % (lst(ints), f(i), f(j), f(k))
                else:
                    m = "C15 pydelslice3 %s %s %s %s" % (lst(ints), f(i), f(j), f(k)) if kind in MUTABLE else None
                out.append((d["name"], "(%s, %r, %r, %r)" % (src, i, j, k), m, "slice3", "%s/%s/%s" % (d["op"], kind, d["bty"])))
    return out


# --------------------------------------------------------------------------
# running one module


def vkey(case, model, impl):
    fn, _, _, cls, _ = case
    if cls == "slice" and model is not None and model.startswith("ub signed-overflow"):
        return "crop-slice-signed-overflow"
    if cls == "objbound" and impl == "err OverflowError":
        return "object-slice-bound-overflowerror"
    if cls == "unsignedbound":
        return "unsigned-c-slice-bound-wraps-negative"
    if cls == "index" and case[4].split("/")[1] in ("LS", "TS") and not case[4].endswith("/obj"):
        return "seq-subclass-double-wraparound"
    return fn


L3 = "100,101,102"
A3 = "[100, 101, 102]"
# witnesses of the counterexample theorems (Props/C15.lean), replayed on the compiled code on every run
WITNESS = {
    "sl_list_ssz_ij": [("(%s, %d, %d,)" % (A3, MAX, MIN), "C15 slice t:list %%d %s c:64:1:%d c:64:1:%d" % (L3, MAX, MIN), "slice")],
    "sl_tuple_ssz_ij": [("((100, 101, 102), %d, %d,)" % (MAX, MIN), "C15 slice t:tuple %%d %s c:64:1:%d c:64:1:%d" % (L3, MAX, MIN), "slice")],
    "sl_list_obj_i": [("(%s, 2**70,)" % A3, "C15 slice t:list %%d %s o:%d _" % (L3, 2 ** 70), "objbound")],
    "ssl_list_obj": [("(%s, None, 2**70, [9],)" % A3, "C15 ass t:list %s N o:%d 9" % (L3, 2 ** 70), "objbound")],
    "sl_list_sizet_ij": [("(%s, 2**63, 2**64-1,)" % A3, "C15 slice t:list %%d %s c:64:0:%d c:64:0:%d" % (L3, 2 ** 63, 2 ** 64 - 1), "unsignedbound")],
    "sl_object_sizet_ij": [("(%s, 1, 2**64-1,)" % A3, "C15 slice o 0 %s c:64:0:1 c:64:0:%d" % (L3, 2 ** 64 - 1), "unsignedbound")],
    "get_object_int": [("(LS([100, 101]), -4,)", "C15 get o:listSub 32 1 1 1 0 100,101 -4", "index")],
    "set_object_int": [("(LS([100, 101]), -4, 9,)", "C15 set o:listSub 32 1 1 1 0 100,101 -4 9", "index")],
    "del_object_int": [("(LS([100, 101]), -4,)", "C15 del listSub 32 1 1 1 0 100,101 -4", "index")],
}


def module_cases(mod, F, tier_quick, rng, fixed, full=False):
    cases = []
    if not mod["directives"]:
        for fn in mod["funcs"]:
            for argsrc, m, cls in WITNESS.get(fn, ()):
                cases.append((fn, argsrc, m % fixed if "%d" in m else m, cls, "witness/LS/" + fn))
    dirs = (int(mod["directives"].get("wraparound", True)), int(mod["directives"].get("boundscheck", True)))
    lens_all = list(range(9))
    for fn in mod["funcs"]:
        d = F[fn]
        op = d["op"]
        if op in ("get", "set", "del", "cget"):
            cases += idx_cases(d, lens_all, dirs)
        elif op in ("sl", "ssl", "dsl"):
            if full:
                cap, lens = None, lens_all
            elif tier_quick:
                cap, lens = (40 if d["cont"] == "object" else 120), (0, 1, 2, 3, 5, 8)
            else:
                cap, lens = (300 if d["cont"] == "object" else 1200), lens_all
            cases += slice_cases(d, lens, rng, cap, fixed)
        elif op == "csl":
            cases += const_slice_cases(d, lens_all, fixed)
        else:
            cap = None if full else (60 if tier_quick else 800)
            cases += slice3_cases(d, (0, 1, 2, 3, 5, 8) if tier_quick and not full else lens_all, rng, cap)
    return cases, dirs


def run_module(ctx, mod, so, F, fixed, rng, full=False, only=None):
    """returns dict(dist, seen, viol, ties, samples, n)"""
    res = dict(dist={}, seen=[], viol=[], ties=[], samples=[], n=0, skipped_ub=0, witness={})
    if only is not None:
        cases, dirs = only, (int(mod["directives"].get("wraparound", True)), int(mod["directives"].get("boundscheck", True)))
    else:
        cases, dirs = module_cases(mod, F, ctx.quick, rng, fixed, full)
    default = dirs == (1, 1)
    mlines = [c[2] for c in cases if c[2] is not None]
    mout = iter(ctx.drv.batch(mlines)) if mlines else iter(())
    models = [next(mout) if c[2] is not None else None for c in cases]
    if not default:
        # non-default directives: executing C undefined behaviour is pointless; keep the defined cases only
        keep = [k for k, m in enumerate(models) if m is not None and not m.startswith("ub ")]
        res["skipped_ub"] = len(cases) - len(keep)
        cases, models = [cases[k] for k in keep], [models[k] for k in keep]
    # run in chunks; stop a module early once it has produced many UNEXPECTED crashes/timeouts (each costs a child
    # restart or an alarm period; the verdict is settled long before)
    outs, unexpected = [], 0
    for k in range(0, len(cases), 3000):
        part = cybuild.run_cases(ctx, so, [(c[0], c[1]) for c in cases[k:k + 3000]], modname=mod["name"], timeout_per_case=5.0)
        outs += part
        unexpected += sum(1 for o, m in zip(part, models[k:k + 3000])
                          if (o.startswith("crash") or o == "timeout") and not (m or "").startswith("ub "))
        if unexpected > 20:
            res["stopped_early"] = "%s: %d unexpected crashes/timeouts after %d of %d cases" % (mod["name"], unexpected, len(outs), len(cases))
            break
    cases, models = cases[:len(outs)], models[:len(outs)]
    for case, model, out in zip(cases, models, outs):
        fn, argsrc, mline, cls, dkey = case
        impl = canon_impl(out)
        res["n"] += 1
        res["dist"][dkey] = res["dist"].get(dkey, 0) + 1
        res["seen"].append(hash((fn, argsrc, dirs)))
        if model is not None and model == "bad-op":
            res["ties"].append((fn, "model rejects %s" % mline, dict(func=fn, args=argsrc, model_line=mline)))
            continue
        rp = dict(func=fn, args=argsrc, model_line=mline, model=model, impl=impl, directives=mod["directives"],
                  source=F[fn]["src"])
        if default:
            orc = oracle(F[fn], eval(argsrc, dict(ENV)))
            rp["oracle"] = orc
            if dkey.startswith("witness/"):
                res["witness"][fn] = "reproduces" if impl != orc else "no longer reproduces (impl = CPython: %s)" % impl
            if impl != orc:
                res["viol"].append((vkey(case, model, impl), "%s%s: compiled %s, CPython %s (model %s)" % (fn, argsrc, impl, orc, model), rp))
            if model is not None and model_matches(model, impl) is False:
                res["ties"].append((fn, "%s%s: model %s, compiled %s, CPython %s" % (fn, argsrc, model, impl, orc), rp))
            if len(res["samples"]) < 2 and cls != "index":
                res["samples"].append(dict(func=fn, args=argsrc, impl=impl, model=model, oracle=orc))
        else:
            if not model_matches(model, impl):
                res["ties"].append((fn + "@" + mod["name"], "%s%s directives %s: model %s, compiled %s" % (fn, argsrc, mod["directives"], model, impl), rp))
    return res


def spec_vs_cpython(ctx):
    """PySpec ops of the model against CPython, in-process (lists; all lengths 0..8)"""
    lines, exp = [], []
    f = lambda z: "N" if z is None else str(z)
    for n in range(9):
        ints = [100 + k for k in range(n)]
        L = lst(ints)
        rngv = [None] + list(range(-2 * n - 2, 2 * n + 3)) + [2 ** 70, -2 ** 70]
        for i in rngv[1:]:
            for op in ("pyget", "pyset", "pydel"):
                a = list(ints)
                try:
                    if op == "pyget":
                        r = "ok %d" % a[i]
                    elif op == "pyset":
                        a[i] = 5
                        r = "ok " + repr(a).replace(" ", "")
                    else:
                        del a[i]
                        r = "ok " + repr(a).replace(" ", "")
                except IndexError:
                    r = "err IndexError"
                lines.append("C15 %s %s %d%s" % (op, L, i, " 5" if op == "pyset" else ""))
                exp.append(r)
        for i in rngv:
            for j in rngv:
                for k in (None, -3, -2, -1, 0, 1, 2, 3):
                    if ctx.quick and n > 4 and (i is not None and abs(i) % 3 == 1):
                        continue
                    a = list(ints)
                    try:
                        r = "ok " + repr(a[i:j:k]).replace(" ", "")
                    except ValueError:
                        r = "err ValueError"
                    lines.append("C15 pyslice %s %s %s %s" % (L, f(i), f(j), f(k)))
                    exp.append(r)
                    b = list(ints)
                    try:
                        del b[i:j:k]
                        r = "ok " + repr(b).replace(" ", "")
                    except ValueError:
                        r = "err ValueError"
                    lines.append("C15 pydelslice3 %s %s %s %s" % (L, f(i), f(j), f(k)))
                    exp.append(r)
                for vs in ([], [7, 8]):
                    b = list(ints)
                    b[i:j] = vs
                    lines.append("C15 pysetslice %s %s %s %s" % (L, f(i), f(j), lst(vs) if vs else "D"))
                    exp.append("ok " + repr(b).replace(" ", ""))
    out = ctx.drv.batch(lines)
    bad = [(l, o, e) for l, o, e in zip(lines, out, exp) if o != e]
    ctx.count("pyspec-vs-cpython", len(lines))
    for l, o, e in bad[:5]:
        ctx.tie_break("PySpec vs CPython", "%s: model %s, CPython %s" % (l, o, e), {"line": l, "model": o, "cpython": e})
    ctx.obligation("PySpec (pyGet/pySet/pyDel/pySlice/pySetSlice/pyDelSlice3) = CPython on lists, lengths 0..8", not bad,
                   "%d lines compared, %d differ" % (len(lines), len(bad)))


# --------------------------------------------------------------------------


def crop_slice_variant(ctx):
    """which `__Pyx_crop_slice` the staged tree has: 1 = with the `stop = 0` clamp after the wrap (no overflow)"""
    txt = open(os.path.join(ctx.stage, "Cython", "Utility", "ObjectHandling.c")).read()
    m = re.search(r"void __Pyx_crop_slice\(.*?\n}\n", txt, re.S)
    if not m:
        ctx.obligation("locate __Pyx_crop_slice in ObjectHandling.c", False, "function not found (refactored?)")
        return 0
    body = re.sub(r"//.*|/\*.*?\*/", "", m.group(0), flags=re.S)
    return int(bool(re.search(r"stop\s*<\s*0\s*\)\s*\{?\s*stop\s*=\s*0\s*;", body)))


def platform_probe():
    want = {"int": ctypes.c_int, "long": ctypes.c_long, "ssz": ctypes.c_ssize_t, "uint": ctypes.c_uint, "sizet": ctypes.c_size_t,
            "ll": ctypes.c_longlong, "short": ctypes.c_short}
    for t, ct in want.items():
        if ctypes.sizeof(ct) * 8 != ITY[t][1]:
            raise lib.Infra("platform: %s has %d bits, model assumes %d" % (t, ctypes.sizeof(ct) * 8, ITY[t][1]))


def run(ctx):
    platform_probe()
    ctx.rule = ("containers list/tuple/str/bytes/bytearray (typed) and object (runtime list, tuple, list/tuple subclass, str, "
                "bytes, bytearray) of every length 0..8; index get/set/del with C index types int/long/Py_ssize_t/unsigned int/"
                "size_t/long long/short and object indices: every value in [-2n-2, 2n+2] plus type bounds and 2^15/2^31/2^63/"
                "2^64/2^70 neighbours (objects also bool, int subclass, __index__, float/str/None); constant indices; slices "
                "a[i:j], a[i:], a[:j] get/set/del with C-typed (Py_ssize_t/int/size_t/unsigned int), object and mixed bounds over "
                "the same value sets incl. None (pairs of two far-out values only for n in {0,3}; quick tier samples pairs), "
                "a[i:j:k] get/del with steps -3..3 and None; extra modules with wraparound/boundscheck off (model vs compiled "
                "only, C-UB cases not executed). Distinct by (function, argument text, directives); every case is non-trivial.")
    ctx.explanation = ("Theorems cover: index get/set/del through every modelled helper = Python semantics for all lengths and all "
                       "index values of every C type (default directives), no out-of-bounds access; list/tuple/str slicing helpers "
                       "= Python slice (full for the repaired __Pyx_crop_slice, partial + counterexample for the pinned one); "
                       "bound coercion (partial + counterexamples); PySlice_AdjustIndices characterisation. Not covered by a theorem: "
                       "CPython's own subscript code reached through mp_subscript/sq_item/PySequence_GetSlice (PySpec, tied "
                       "differentially), reference counting, the free-threading and Limited-API #if branches, extended-slice "
                       "assignment, non-integer keys (TypeError) - these are checked only by the three-way differential run.")
    ctx.assumptions = ["LP64: Py_ssize_t/long/size_t 64 bit, int 32 bit (probed with ctypes at start-up)",
                       "CPython 3.12 build with CYTHON_ASSUME_SAFE_MACROS/SAFE_SIZE, GIL (the modelled #if branch)"]
    fixed = crop_slice_variant(ctx)
    ctx.notes["crop_slice_variant"] = "repaired (stop clamped at 0)" if fixed else "pinned (stop - start may overflow)"
    spec_vs_cpython(ctx)
    F = gen_funcs()
    FD = gen_directive_funcs()
    rp = getattr(ctx, "replay_case", None)
    if rp and "func" in rp.get("case", {}):
        c = rp["case"]
        dirs = c.get("directives") or {}
        FF = FD if dirs else F
        mods = [dict(name="c15rp", funcs=[c["func"]], directives=dirs, source=PRELUDE + FF[c["func"]]["src"])]
        so = cybuild.build_module(ctx, "c15rp", mods[0]["source"], directives=dirs)
        res = run_module(ctx, mods[0], so, FF, fixed, ctx.rng, only=[(c["func"], c["args"], c.get("model_line"), "index", "replay")])
        merge(ctx, res)
        return
    mods = split_modules(F, "c15m", 14)
    dmods = []
    for tag, dr in (("w0", {"wraparound": False}), ("b0", {"boundscheck": False}), ("w0b0", {"wraparound": False, "boundscheck": False})):
        dmods += split_modules(FD, "c15" + tag + "_", 1, dr)
    allmods = mods + dmods
    sos = cybuild.build_many(ctx, [dict(name=m["name"], source=m["source"], directives=m["directives"],
                                        opt="-O0" if ctx.quick else "-O1") for m in allmods])
    seeds = [ctx.rng.randrange(2 ** 32) for _ in allmods]
    jobs = []
    for m, so, sd in zip(allmods, sos, seeds):
        if isinstance(so, cybuild.BuildError):
            ctx.tie_break("build of " + m["name"], so.stage + ": " + so.log[-600:], {"module": m["source"][:4000], "directives": m["directives"]})
            continue
        jobs.append((m, so, sd))
    import random

    def work(job, full=False):
        m, so, sd = job
        return run_module(ctx, m, so, FD if m["directives"] else F, fixed, random.Random(sd), full=full)
    with cf.ThreadPoolExecutor(max_workers=8) as ex:
        results = list(ex.map(work, jobs))
    known = lib.load_known_findings()
    for job, res in zip(jobs, results):
        merge(ctx, res)
        # broken correspondence without an unlisted property violation in this module: search the full domain
        unl = [v for v in res["viol"] if (ctx.prop, v[0]) not in known]
        if res["ties"] and not unl and ctx.quick:
            merge(ctx, work(job, full=True))
    ctx.notes["ub_cases_not_executed_in_nondefault_modules"] = sum(r["skipped_ub"] for r in results)


def merge(ctx, res):
    ctx.notes.setdefault("counterexample_witnesses", {}).update(res.get("witness", {}))
    if res.get("stopped_early"):
        ctx.notes.setdefault("stopped_early", []).append(res["stopped_early"])
    for k, v in res["dist"].items():
        ctx.count(k, v)
    for h in res["seen"]:
        ctx.seen(h)
    for s in res["samples"]:
        ctx.sample(s)
    for key, what, rp in res["viol"]:
        ctx.violation(key, what, rp)
    for name, what, rp in res["ties"]:
        ctx.tie_break(name, what, rp)

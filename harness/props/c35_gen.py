"""C35: generated programs (plain Python syntax, compiled by Cython AND executed by CPython).

Every function takes three fault-injecting objects a, b, c (class F of FAULT_MODULE): each fallible
dunder call ticks a global counter and raises Injected(k) when the counter reaches the armed value.
"""

FAULT_MODULE = r'''
import weakref
class Injected(Exception):
    pass
class State:
    count = 0
    fail_at = 0
    log = []
    live = []
    serial = 0
S = State
def arm(k):
    S.count = 0; S.fail_at = k; S.log = []; S.serial = 0; S.live = []
def alive():
    return [r() for r in S.live if r() is not None]
def tick(obj, what):
    S.count += 1
    S.log.append(what)
    if S.count == S.fail_at:
        raise Injected(S.count)
class F(object):
    __slots__ = ('n', 'v', '__weakref__')
    def __init__(self, v=3):
        S.serial += 1
        self.n = S.serial
        self.v = v
        S.live.append(weakref.ref(self))
    def __repr__(self): return 'F%d' % self.n
    def __add__(self, o): tick(self, 'add'); return F(self.v)
    def __radd__(self, o): tick(self, 'radd'); return F(self.v)
    def __iadd__(self, o): tick(self, 'iadd'); return F(self.v)
    def __sub__(self, o): tick(self, 'sub'); return F(self.v)
    def __mul__(self, o): tick(self, 'mul'); return F(self.v)
    def __neg__(self): tick(self, 'neg'); return F(self.v)
    def __getitem__(self, i): tick(self, 'getitem'); return F(self.v)
    def __setitem__(self, i, x): tick(self, 'setitem')
    def __delitem__(self, i): tick(self, 'delitem')
    def __call__(self, *a, **k): tick(self, 'call'); return F(self.v)
    def __bool__(self): tick(self, 'bool'); return self.v % 2 == 1
    def __index__(self): tick(self, 'index'); return self.v
    def __len__(self): tick(self, 'len'); return self.v
    def __contains__(self, x): tick(self, 'contains'); return True
    def __eq__(self, o): tick(self, 'eq'); return F(self.v)
    def __lt__(self, o): tick(self, 'lt'); return F(self.v + 1)
    __hash__ = object.__hash__
    def __getattr__(self, name):
        if name.startswith('__'): raise AttributeError(name)
        tick(self, 'getattr'); return F(self.v)
    def __enter__(self): tick(self, 'enter'); return F(self.v)
    def __exit__(self, *a): tick(self, 'exit'); return False
    def __str__(self): tick(self, 'str'); return 'F'
    def __iter__(self): tick(self, 'iter'); return It(self.v)
class It(object):
    __slots__ = ('left', '__weakref__')
    def __init__(self, n):
        self.left = n
        S.live.append(weakref.ref(self))
    def __iter__(self): return self
    def __next__(self):
        tick(self, 'next')
        if self.left <= 0: raise StopIteration
        self.left -= 1
        return F(self.left)
'''

# expression templates over names; {0} {1} {2} are sub-expressions
EXPR = [
    "({0} + {1})", "({0} - {1})", "({0} * {1})", "(-{0})", "{n}[{1}]", "{n}[{1}:{2}]", "{n}({1})", "{n}({1}, {2})",
    "{n}({1}, k={2})", "{n}(*[{1}, {2}])", "{n}.attr", "{n}.meth({1})", "({0}, {1})", "[{0}, {1}, {2}]", "{{{m}: {1}}}",
    "({0} if {1} else {2})", "({0} and {1})", "({0} or {1})", "(not {0})", "({0} == {1})", "({0} < {1})",
    "({0} in {n})", "[i + {0} for i in {n}]", "list(i * {0} for i in {n})", "{{i: {0} for i in {n}}}", "len({n})",
    "str({0})", "(lambda q: q + {0})({1})", "f'{{({0})}}-{{({1})}}'", "[{0}, *{n}]", "{{**{{1: {0}}}, 2: {1}}}", "({0} is {1})",
]

# statement templates: lines; {B} nested block, {e0}.. expressions, {v} a fresh local, {u} an existing local
STMT = [
    ["{v} = {e0}"],
    ["{v}, {w} = {e0}, {e1}"],
    ["{v} = {e0}", "{v} += {e1}"],
    ["{u}[{e0}] = {e1}"],
    ["del {u}[{e0}]"],
    ["{v}, *{w} = {e0}"],
    ["if {e0}:", "{B}", "else:", "{B}"],
    ["for {v} in {e0}:", "{B}"],
    ["for {v} in {e0}:", "    if {e1}: continue", "{B}", "    if {e2}: break"],
    ["while {e0}:", "{B}", "    break"],
    ["try:", "{B}", "except ValueError:", "    {v} = None"],
    ["try:", "{B}", "except Exception as exc:", "    {v} = type(exc).__name__"],
    ["try:", "{B}", "except Exception:", "{B}"],
    ["try:", "{B}", "finally:", "    out.append({e0})"],
    ["try:", "{B}", "finally:", "{B}"],
    ["with {m0} as {v}:", "{B}"],
    ["with {m0}, {m1}:", "{B}"],
    ["out.append({e0})"],
    ["assert {e0}, {e1}"],
    ["for {v} in {e0}:", "    try:", "        if {e1}: continue", "        out.append({e2})", "    finally:", "        out.append({v})"],
    ["for {v} in {e0}:", "    try:", "        if {e1}: return {e2}", "    except Exception:", "        break"],
    ["def inner_{v}(p, q={e0}):", "    return p + q + {u}", "{v} = inner_{v}({e1})"],
    ["{v} = [x for x in gen_helper({e0}, {e1})]"],
    ["try:", "    raise KeyError({e0})", "except KeyError as exc:", "    {v} = exc.args[0] + {e1}"],
]

HELPERS = '''
def gen_helper(p, q):
    for i in p:
        try:
            yield i + q
        finally:
            q = q * i
    return None
'''


class Gen:
    def __init__(self, rng):
        self.rng = rng

    def expr(self, names, depth):
        r = self.rng
        if depth <= 0 or r.random() < 0.3:
            return r.choice(names)
        t = r.choice(EXPR)
        return t.format(self.expr(names, depth - 1), self.expr(names, depth - 1), self.expr(names, depth - 1),
                        n=r.choice(names[:3]), m=r.choice(names))

    def block(self, names, depth, indent, nst):
        r = self.rng
        lines = []
        names = list(names)
        for _ in range(nst):
            tmpl = r.choice(STMT if depth > 0 else [s for s in STMT if "{B}" not in s])
            v = "v%d" % r.randint(0, 5)
            w = "w%d" % r.randint(0, 3)
            u = r.choice(names)
            es = [self.expr(names, r.choice((1, 1, 2, 3))) for _ in range(3)]
            # context managers: Python objects only (a C-typed manager such as `with (x in y):` crashes the
            # pinned compiler's output for a reason unrelated to reference counting: no coercion in WithStatNode)
            ms = [r.choice(["a", "b", "c", "a(%s)" % es[0], "b.attr", "c[%s]" % es[1]]) for _ in range(2)]
            for ln in tmpl:
                if ln == "{B}":
                    lines += self.block(names, depth - 1, indent + 1, r.choice((1, 1, 2)))
                else:
                    lines.append("    " * indent + ln.format(v=v, w=w, u=u, e0=es[0], e1=es[1], e2=es[2], m0=ms[0], m1=ms[1]))
            if any("{v}" in ln for ln in tmpl) and v not in names and not tmpl[0].startswith(("for", "with", "def", "try", "if", "while")):
                names.append(v)
        return lines

    def function(self, name):
        r = self.rng
        lines = ["def %s(a, b, c):" % name, "    out = []"]
        lines += self.block(["a", "b", "c"], r.choice((1, 2, 2, 3)), 1, r.choice((2, 3, 4)))
        lines.append("    return out, %s" % self.expr(["a", "b", "c"], 1))
        return "\n".join(lines)

    def module(self, nfuncs, prefix="f"):
        names = ["%s%d" % (prefix, i) for i in range(nfuncs)]
        src = "# cython: language_level=3\n" + HELPERS + "\n\n" + "\n\n".join(self.function(n) for n in names) + "\n"
        return src, names


# fixed programs: constructs the random grammar reaches rarely
FIXED = '''
def fx_tuple(a, b, c):
    return (a + b, b + c, c + a, a[b], b[c])

def fx_nested_try(a, b, c):
    out = []
    for i in a:
        try:
            try:
                out.append(i + b)
            finally:
                out.append(c[i])
        except Exception as e:
            out.append(type(e).__name__)
            continue
    return out

def fx_gen(a, b, c):
    def g():
        x = a + b
        for i in c:
            y = yield (x + i, i * b)
        return x
    return [p for p in g()]

def fx_with(a, b, c):
    with a as x, b as y:
        z = (x + y) * c
        return z, x[y]

def fx_call(a, b, c):
    return a(b + c, *[c + a, b], k=a + a, **{'m': b * c})

def fx_closure(a, b, c):
    fs = [lambda q, i=i: q + i + a for i in b]
    return [f(c) for f in fs]

def fx_dict(a, b, c):
    d = {1: a + b, 2: b + c}
    d[3] = [d[1] + c, d[2] + a]
    return d, {k: v + a for k, v in [(1, b), (2, c)]}

def fx_return_in_finally_loop(a, b, c):
    for i in a:
        try:
            if i + b:
                return i * c
        finally:
            a[i] = c
    return None

def fx_chain(a, b, c):
    return (a < b), (a + b) == (b + c), (a in b), not (a + c)

def fx_unpack(a, b, c):
    x, y, z = a
    p, *q = b
    return x + y, z, p, q, [*c, x]

def fx_fstring(a, b, c):
    return f"{a}{b + c}-{c[a]}"

def fx_except_star_like(a, b, c):
    try:
        x = a + b
        y = x[c]
        z = y(a, b)
    except (KeyError, IndexError):
        return None
    except Exception as e:
        return (type(e).__name__, e.args)
    else:
        return x, y, z
'''
FIXED_NAMES = ["fx_tuple", "fx_nested_try", "fx_gen", "fx_with", "fx_call", "fx_closure", "fx_dict",
               "fx_return_in_finally_loop", "fx_chain", "fx_unpack", "fx_fstring", "fx_except_star_like"]

# witnesses of defects found by this leg on the pinned tree (each has its own known-finding key);
# cascaded comparisons are kept out of the random grammar because of them
KNOWN = '''
def kf_cascade_bool(a, b, c):
    return (c < a < b)

def kf_cascade_operand(a, b, c):
    x = (b < a < (-c))
    return x
'''
KNOWN_NAMES = ["kf_cascade_bool", "kf_cascade_operand"]

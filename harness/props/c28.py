"""C28 — extension-type operators dispatch like Python classes.

impl   = cdef classes generated from a configuration (subset of {__op__, __rop__, __iop__} per operator /
         subset of the six comparison methods, with and without total_ordering; bodies log into a list and
         answer as the current assignment says), compiled with the STAGED compiler + gcc
oracle = the same classes as plain Python classes (functools.total_ordering) run by CPython 3.12
model  = CyVerif.C28 (Lean): CPython's operator protocol + the generated slot functions; run on the cdef
         world (model-cy, must equal impl) and on the Python world (model-py, must equal the oracle)
G      = slot tables of TypeSlots.py, ModuleNode.TOTAL_ORDERING, richcmp_special_methods re-extracted from the
         staged source and kernel-checked against the model's tables; BinopSlot template variant detected
"""
import ast
import itertools
import json
import os
import re
import subprocess
import sys

import cybuild
import lib

OPS_ALL = [("add", "+"), ("sub", "-"), ("matmul", "@"), ("pow", "**"), ("lshift", "<<"), ("floordiv", "//")]
CMP = ["eq", "ne", "lt", "gt", "le", "ge"]
WH = ["", "r", "i"]
CAP = 300


def cap(s, n=CAP):
    s = str(s)
    return s if len(s) <= n else s[:n] + "..."


# --------------------------------------------------------------------------
# G: tables and template variant from the staged source


def lean_str(s):
    return json.dumps(s)


def extract_tables(ctx):
    """-> dict(binops=[...], cmp=[...], to=[...], c_api=bool, variant='cur'|'fix'|None, problems=[...])"""
    out = {"problems": []}
    try:
        from Cython.Compiler import TypeSlots, ModuleNode, Options
        assert TypeSlots.__file__.startswith(ctx.stage), TypeSlots.__file__
        tab = TypeSlots.get_slot_table(Options.get_directive_defaults())
        rows = {}
        inplace = {}
        for slot in tab.PyNumberMethods:
            name = getattr(slot, "slot_name", "")
            if getattr(slot, "is_binop", False):
                sig = slot.left_slot.signature
                rows[name] = dict(slot=name, left=slot.left_slot.method_name, right=slot.right_slot.method_name,
                                  ternary=sig in (TypeSlots.powternaryfunc, TypeSlots.ipowternaryfunc),
                                  self_typed=sig in (TypeSlots.ibinaryfunc, TypeSlots.ipowternaryfunc))
            elif name.startswith("nb_inplace_"):
                inplace[name[len("nb_inplace_"):]] = (name, slot.method_name)
        binops = []
        for name, r in rows.items():
            ip = inplace.get(name[3:])
            binops.append(dict(r, islot=ip[0] if ip else None, imeth=ip[1] if ip else None))
        out["binops"] = binops
        cur = list(TypeSlots.richcmp_special_methods)      # order is irrelevant for dispatch: emit in the model's order
        canon = ["__%s__" % c for c in CMP]
        out["cmp"] = [n for n in canon if n in cur] + [n for n in cur if n not in canon]
        out["to"] = [dict(src=k[0], tgt=k[1], inv=bool(v[0]), op=v[1], invEq=v[2]) for k, v in sorted(ModuleNode.TOTAL_ORDERING.items())]
        out["c_api"] = bool(Options.get_directive_defaults()["c_api_binop_methods"])
        out["self_typed"] = all(r["self_typed"] for r in rows.values())
    except Exception as e:  # a refactoring the translator cannot follow = broken tie, not a crash
        out["problems"].append("table translator: %s: %s" % (type(e).__name__, cap(e, 200)))
    # template variant
    try:
        txt = open(os.path.join(ctx.stage, "Cython", "Utility", "ExtensionTypes.c")).read()
        m = re.search(r"/{5,} BinopSlot /{5,}\n(.*?)\n/{5,} ", txt, re.S)
        sec = m.group(1)
        sec = re.sub(r"//[^\n]*", "", sec)
        assigns = re.findall(r"maybe_self_is_right\s*=\s*([^;]*);", sec)
        assigns = [re.sub(r"\s+", " ", a).strip() for a in assigns if a.strip() != "0"]
        kinds = set()
        for a in assigns:
            if a.startswith("Py_TYPE(left) == Py_TYPE(right)"):
                kinds.add("cur")
            elif a.startswith("Py_TYPE(left) != Py_TYPE(right) &&"):
                kinds.add("fix")
            else:
                kinds.add("?")
        out["variant"] = kinds.pop() if len(kinds) == 1 and len(assigns) == 2 else None
        out["template_sha"] = __import__("hashlib").sha256(re.sub(r"\s+", " ", sec).encode()).hexdigest()[:16]
        if out["variant"] in (None, "?"):
            out["variant"] = None
            out["problems"].append("BinopSlot template: maybe_self_is_right computation not recognised: " + cap(assigns, 200))
    except Exception as e:
        out["variant"] = None
        out["problems"].append("template translator: %s: %s" % (type(e).__name__, cap(e, 200)))
    return out


def table_obligations(ctx, t):
    if "binops" in t:
        def opt(x):
            return "none" if x is None else "some " + lean_str(x)
        rows = ", ".join("⟨%s, %s, %s, %s, %s, %s⟩" % (lean_str(r["slot"]), lean_str(r["left"]), lean_str(r["right"]),
                                                       "true" if r["ternary"] else "false", opt(r["islot"]), opt(r["imeth"]))
                         for r in t["binops"])
        def ob(x):
            return "none" if x is None else ("some true" if x else "some false")
        ents = ", ".join("⟨%s, %s, %s, %s, %s⟩" % (lean_str("__%s__" % e["src"].strip("_")), lean_str("__%s__" % e["tgt"].strip("_")),
                                                   "true" if e["inv"] else "false", lean_str(e["op"]), ob(e["invEq"])) for e in t["to"])
        src = ("import CyVerif.Model.C28Tables\nopen CyVerif.C28\n"
               "example : binopsOK [%s] = true := by decide\n"
               "example : cmpNamesOK [%s] = true := by decide\n"
               "example : toTableOK [%s] = true := by decide\n" % (rows, ", ".join(lean_str(x) for x in t["cmp"]), ents))
        ctx.lean_obligation("binopsOK(TypeSlots.PyNumberMethods) ∧ cmpNamesOK(richcmp_special_methods) ∧ toTableOK(ModuleNode.TOTAL_ORDERING)", src,
                            "the %d BinopSlot rows (slot, __op__, __rop__, ternary, in-place slot+method) of the current TypeSlots.py are CPython's slotdefs rows; "
                            "richcmp_special_methods = %s; the %d entries of TOTAL_ORDERING are the model's toTable (= functools._convert by theorem toTable_eq_functools)"
                            % (len(t["binops"]), ",".join(t["cmp"]), len(t["to"])))
        ctx.obligation("c_api_binop_methods default is False and binop methods take a typed self", (not t["c_api"]) and t["self_typed"],
                       "Options default c_api_binop_methods=%r; BinopSlot signatures ibinaryfunc/ipowternaryfunc=%r" % (t["c_api"], t["self_typed"]))
    for p in t["problems"]:
        ctx.obligation("translator", False, p)
    ctx.obligation("BinopSlot template variant recognised", t.get("variant") in ("cur", "fix"),
                   "variant=%r (cur = pinned: reflected call possible for same-type operands; fix = repaired) sha=%s" % (t.get("variant"), t.get("template_sha")))
    ctx.notes["template_variant"] = t.get("variant")


# --------------------------------------------------------------------------
# generated modules


def binop_meth_src(cls, op, which):
    nm = "__%s%s__" % (WH[which], op)
    if op == "pow" and which in (0, 1):
        return ["    def %s(self, o, m):" % nm, "        return _hook(%r, %r, self, o)" % (cls, "ori"[which] + ":" + op)]
    return ["    def %s(self, o):" % nm, "        return _hook(%r, %r, self, o)" % (cls, "ori"[which] + ":" + op)]


def cdef_class_src(name, base, subset, ops):
    out = ["cdef class %s%s:" % (name, "(%s)" % base if base else "")]
    n = 0
    for op, _ in ops:
        for w in range(3):
            if subset >> w & 1:
                out += binop_meth_src(name, op, w)
                n += 1
    if not n:
        out.append("    pass")
    return out


HEAD = ["# cython: language_level=3", "cimport cython", "cdef object _hook = None", "def _set_hook(h):", "    global _hook", "    _hook = h", ""]


def binop_module(s, ops, third):
    """base A<s> (subset s), cdef subclasses B<s>_<t> for all t, third level C<s>_<t>_<u> for (t,u) in third"""
    out = list(HEAD)
    classes = {}
    a = "A%d" % s
    out += cdef_class_src(a, None, s, ops)
    classes[a] = ("cdef", None, s)
    for t in range(8):
        b = "B%d_%d" % (s, t)
        out += cdef_class_src(b, a, t, ops)
        classes[b] = ("cdef", a, t)
    for t, u in third:
        c = "C%d_%d_%d" % (s, t, u)
        out += cdef_class_src(c, "B%d_%d" % (s, t), u, ops)
        classes[c] = ("cdef", "B%d_%d" % (s, t), u)
    return "\n".join(out) + "\n", classes


def cmp_class_src(name, base, subset, to):
    out = []
    if to:
        out.append("@cython.total_ordering")
    out.append("cdef class %s%s:" % (name, "(%s)" % base if base else ""))
    n = 0
    for i, c in enumerate(CMP):
        if subset >> i & 1:
            out += ["    def __%s__(self, o):" % c, "        return _hook(%r, %r, self, o)" % (name, c)]
            n += 1
    if not n:
        out.append("    pass")
    return out


def cmp_name(prefix, s, to):
    return "%s%d%s" % (prefix, s, "t" if to else "")


def cmp_module(k, nmods, subs, keep):
    """base classes R<s>[t] for s % nmods == k, with and without total_ordering; cdef subclasses S<base>_<t>[t] for
    (t, to) in subs(s)"""
    out = list(HEAD)
    classes = {}
    for s in range(64):
        if s % nmods != k or s not in keep:
            continue
        for to in (0, 1):
            a = cmp_name("R", s, to)
            out += cmp_class_src(a, None, s, to)
            classes[a] = ("cdef", None, s, to)
            for t, tb in subs(s, to):
                b = "S%s_%d%s" % (a[1:], t, "t" if tb else "")
                out += cmp_class_src(b, a, t, tb)
                classes[b] = ("cdef", a, t, tb)
    return "\n".join(out) + "\n", classes


CHILD = r'''
import sys, json, importlib.util, functools, operator
spec = json.load(open(sys.argv[1]))
LOG = []; BEH = {}; ROLE = {}
KIND = spec["kind"]
CUR = [None]
def hook(cls, meth, self, o):
    if ":" in meth:
        k, opn = meth.split(":")
        meth = k if opn == CUR[0] else k + "!" + opn      # a method of ANOTHER operator was called
    LOG.append("%s.%s.%s" % (cls, meth, ROLE.get(id(self), "?")))
    b = BEH.get(cls + "." + meth)
    if KIND == "binop":
        return NotImplemented if b == "ni" else cls + "." + meth
    return {"F": False, "N": NotImplemented}.get(b, True)
mods = {}
for name, so in spec["mods"].items():
    sp = importlib.util.spec_from_file_location(name, so)
    m = importlib.util.module_from_spec(sp); sys.modules[name] = m; sp.loader.exec_module(m)
    m._set_hook(hook); mods[name] = m
WH = ["", "r", "i"]; CMP = ["eq", "ne", "lt", "gt", "le", "ge"]
def mk_py(name, bases, subset, to):
    d = {}
    if KIND == "binop":
        for op, _ in spec["ops"]:
            for w in range(3):
                if subset >> w & 1:
                    nm = "__%s%s__" % (WH[w], op)
                    if op == "pow" and w in (0, 1):
                        def f(self, o, m=None, _c=name, _k="ori"[w] + ":" + op): return hook(_c, _k, self, o)
                    else:
                        def f(self, o, _c=name, _k="ori"[w] + ":" + op): return hook(_c, _k, self, o)
                    f.__name__ = nm; d[nm] = f
    else:
        for i, c in enumerate(CMP):
            if subset >> i & 1:
                def f(self, o, _c=name, _n=c): return hook(_c, _n, self, o)
                f.__name__ = "__%s__" % c; d["__%s__" % c] = f
        d["__hash__"] = object.__hash__
    cls = type(name, bases, d)
    if to:
        try: cls = functools.total_ordering(cls)
        except ValueError: pass
    return cls
IMPL = {}; ORA = {}
for name, (kind, base, subset, to, mod) in spec["classes"].items():   # bases come first
    ORA[name] = mk_py(name, (ORA[base],) if base else (), subset, to)
    if kind == "cdef": IMPL[name] = getattr(mods[mod], name)
    else: IMPL[name] = mk_py(name, (IMPL[base],) if base else (), subset, to)
CMPOPS = {"eq": operator.eq, "ne": operator.ne, "lt": operator.lt, "gt": operator.gt, "le": operator.le, "ge": operator.ge}
def do(world, u):
    del LOG[:]; ROLE.clear()
    op, mode, lc, rc = u[:4]
    CUR[0] = op
    l = world[lc]() if lc != "int" else 5
    r = l if mode == "ident" else (world[rc]() if rc != "int" else 7)
    ROLE[id(r)] = "R"; ROLE[id(l)] = "L"
    try:
        if KIND == "binop":
            sym = dict(spec["ops"])[op]
            if mode == "bin": res = eval("l %s r" % sym, {"l": l, "r": r})
            elif mode == "inp":
                g = {"l": l, "r": r}; exec("l %s= r" % sym, g); res = g["l"]
            else: res = pow(l, r, 3)
            if res is NotImplemented: out = "NotImplemented"
            elif isinstance(res, str): out = "val " + res
            else: out = "other:" + type(res).__name__
        else:
            res = CMPOPS[op](l, r)
            out = "True" if res is True else "False" if res is False else "other:" + repr(res)[:40]
    except (TypeError, AttributeError) as e:
        out = type(e).__name__
    except BaseException as e:
        out = "Exc:" + type(e).__name__
    return (";".join(LOG) or "-") + " -> " + out, list(dict.fromkeys(x.rsplit(".", 1)[0] for x in LOG))
VALUES = ("ret", "ni") if KIND == "binop" else ("T", "F", "N")
w = sys.stdout
for idx, u in enumerate(spec["units"]):
    if idx < spec.get("skip_until", 0) or idx in spec.get("skip", []): continue
    w.write("U %d\n" % idx); w.flush()
    stack = [{}]; n = 0
    while stack and n < 600:
        beh = stack.pop()
        BEH.clear(); BEH.update(beh)
        i, ci = do(IMPL, u); o, co = do(ORA, u)
        new = [m for m in ci + co if m not in beh]
        if not new:
            n += 1
            w.write("L " + json.dumps([beh, i, o]) + "\n")
        else:
            for v in VALUES:
                b = dict(beh); b[new[0]] = v; stack.append(b)
w.write("E\n"); w.flush()
'''


# --------------------------------------------------------------------------
# running the child, model lines


def run_child(ctx, spec, tag):
    """-> (results: {unit index: [(beh, impl, oracle), ...]}, crashed: [unit indices])"""
    d = os.path.join(ctx.scratch, "c28run")
    os.makedirs(d, exist_ok=True)
    script = os.path.join(d, "child.py")
    with open(script, "w") as f:
        f.write(CHILD)
    results, crashed = {}, []
    skip_until = 0
    for attempt in range(8):
        spec2 = dict(spec, skip_until=skip_until)
        sp = os.path.join(d, "spec_%s_%d.json" % (tag, attempt))
        with open(sp, "w") as f:
            json.dump(spec2, f)
        p = subprocess.run([lib.PYTHON, script, sp], stdout=subprocess.PIPE, stderr=subprocess.PIPE, text=True,
                           env=lib._clean_env({"PYTHONPATH": ctx.stage}), timeout=3000)
        cur = None
        done = False
        for line in p.stdout.split("\n"):
            if line.startswith("U "):
                cur = int(line[2:]); results[cur] = []
            elif line.startswith("L ") and cur is not None:
                results[cur].append(tuple(json.loads(line[2:])))
            elif line == "E":
                done = True
        if done:
            break
        if cur is None:
            raise lib.Infra("C28 child failed to start: " + p.stderr[-600:])
        crashed.append((cur, p.returncode))
        results.pop(cur, None)
        skip_until = cur + 1
    return results, crashed


def chain(classes, c):
    out = []
    while c is not None and c != "int":
        out.append(c)
        c = classes[c][1]
    return out


def world_of(classes, lc, rc, cmpmode, py=False):
    """-> (names, encoded world)"""
    names = []
    for c in (lc, rc):
        if c == "int":
            if "int" not in names:
                names.append("int")
            continue
        for x in reversed(chain(classes, c)):
            if x not in names:
                names.append(x)
    toks = []
    for n in names:
        if n == "int":
            toks.append("i:-:000:000000:0")
            continue
        info = classes[n]
        k = "c" if info[0] == "cdef" and not py else "p"
        b = "-" if info[1] is None else str(names.index(info[1]))
        if cmpmode:
            toks.append("%s:%s:000:%s:%d" % (k, b, "".join("1" if info[2] >> i & 1 else "0" for i in range(6)), info[3]))
        else:
            toks.append("%s:%s:%s:000000:0" % (k, b, "".join("1" if info[2] >> i & 1 else "0" for i in range(3))))
    return names, ",".join(toks)


def render_model(line, names, ident=False):
    if not line.startswith("ok "):
        return "model:" + line
    tr, out = line[3:].split(" -> ")
    items = []
    if tr != "-":
        for it in tr.split(";"):
            c, m, s = it.split(".")
            items.append("%s.%s.%s" % (names[int(c)], m, "L" if ident else s))
    if out.startswith("val "):
        c, m = out[4:].split(".")
        out = "val %s.%s" % (names[int(c)], m)
    return (";".join(items) or "-") + " -> " + out


def has_pysub(classes, c):
    """a Python class with a cdef ancestor in the hierarchy of c"""
    ch = chain(classes, c)
    return any(classes[x][0] == "py" for x in ch) and any(classes[x][0] == "cdef" for x in ch)


def relation(classes, lc, rc):
    if lc == "int" or rc == "int":
        return "int"
    if lc == rc:
        return "same"
    cl, cr = chain(classes, lc), chain(classes, rc)
    if lc in cr or rc in cl:
        return "sub"
    if set(cl) & set(cr):
        return "sibling"
    return "unrelated"


def binop_key(classes, u, impl, variant):
    op, mode, lc, rc = u
    rel = relation(classes, lc, rc)
    py = (lc != "int" and has_pysub(classes, lc)) or (rc != "int" and has_pysub(classes, rc))
    if mode == "pow3":
        return "pow3-calls-rpow"
    if py and impl.endswith("-> NotImplemented"):
        return "iadd-python-subclass-returns-notimplemented"
    if py:
        return "binop-python-subclass-of-cdef-class"
    if rel == "same":
        return "binop-same-type-reflected-call" if variant == "cur" else "binop-same-type-%s-%s" % (op, mode)
    if rel in ("sub", "sibling"):
        return "binop-cdef-subclass-operands"
    return "binop-%s-%s-%s" % (rel, op, mode)


def cmp_key(classes, u, beh):
    op, mode, lc, rc = u
    cs = [c for c in (lc, rc) if c != "int"]
    if any(has_pysub(classes, c) for c in cs):
        return "richcmp-python-subclass-of-cdef-class"
    anyto = False
    for c in cs:
        ch = chain(classes, c)
        tos = [i for i, x in enumerate(ch) if classes[x][3]]
        if not tos:
            continue
        anyto = True
        if any(classes[x][2] for x in ch[:max(tos)]):
            return "total-ordering-subclass-of-decorated-class"
        if tos[0] == 0 and classes[ch[0]][2] == 0 and classes[ch[0]][1]:
            return "total-ordering-on-subclass-without-own-methods"
    if not anyto:
        return "richcmp-plain-%s" % op
    for c in cs:
        ch = chain(classes, c)
        if not any(classes[x][3] for x in ch):
            continue
        vis = 0
        for x in ch:
            vis |= classes[x][2]
        if not vis & 3:
            return "total-ordering-without-eq"
        if vis & 3 == 2:
            return "total-ordering-ne-only"
        if vis & 3 == 3:
            return "total-ordering-eq-and-ne"
    if any(v == "N" and k.rsplit(".", 1)[1] in ("eq", "ne") for k, v in beh.items()):
        return "total-ordering-eq-returns-notimplemented"
    if relation(classes, lc, rc) == "sub":
        return "total-ordering-subclass-operand"
    return "total-ordering-%s" % op


# --------------------------------------------------------------------------
# configurations


def binop_config(ctx, ops):
    """-> (module specs, classes {name: (kind, base, subset, to, mod)}, units [(op, mode, lc, rc)])"""
    rng = ctx.rng
    specs, classes, units = [], {}, []
    nthird = ctx.n(2, 10)
    for s in range(8):
        third = sorted(set((rng.randrange(8), rng.randrange(8)) for _ in range(nthird)))
        src, cl = binop_module(s, ops, third)
        mod = "c28b%d" % s
        specs.append(dict(name=mod, source=src))
        for n, (k, b, sub) in cl.items():
            classes[n] = (k, b, sub, 0, mod)
    for s in range(8):
        classes["X%d" % s] = ("py", None, s, 0, None)
        for t in range(8):
            classes["P%d_%d" % (s, t)] = ("py", "A%d" % s, t, 0, None)
    cnames = [n for n in classes if n[0] == "C"]
    for n in cnames:       # Python subclass of a second-level cdef class
        b = classes[n][1]
        classes["Q" + b[1:] + "_%d" % classes[n][2]] = ("py", b, classes[n][2], 0, None)
    pairs = []
    for s in range(8):
        a = "A%d" % s
        pairs += [(a, a), (a, "int"), ("int", a)]
        for t in range(8):
            for k in "BP":
                b = "%s%d_%d" % (k, s, t)
                pairs += [(a, b), (b, a), (b, b)]
            pairs += [("B%d_%d" % (s, t), "P%d_%d" % (s, (t + 3) % 8)), ("P%d_%d" % (s, (t + 3) % 8), "B%d_%d" % (s, t))]
            pairs += [("B%d_%d" % (s, t), "B%d_%d" % (s, u)) for u in range(8) if u != t and (quick_mod(ctx, u + t))]
            pairs += [(a, "A%d" % t if t != s else "X%d" % t), (a, "X%d" % t), ("X%d" % t, a)]
    for n in cnames + [q for q in classes if q[0] == "Q"]:
        b = classes[n][1]
        a = classes[b][1]
        pairs += [(n, n), (n, b), (b, n), (n, a), (a, n)]
        sib = "B%s_%d" % (a[1:], rng.randrange(8))
        pairs += [(n, sib), (sib, n)]
    seen = set()
    for op, _ in ops:
        for lc, rc in pairs:
            for mode in (("bin", "inp", "pow3") if op == "pow" else ("bin", "inp")):
                u = (op, mode, lc, rc)
                if u not in seen:
                    seen.add(u); units.append(u)
    return specs, classes, units


def quick_mod(ctx, x):
    return x % 3 == 0 if ctx.quick else True


SPECIAL = [0, 1, 2, 3, 4, 5, 6, 12, 16, 21, 33, 36, 37, 63]
SPECIAL_Q = [0, 1, 4, 5, 7, 37, 63]
OPS_QUICK = [("add", "+"), ("sub", "-"), ("pow", "**")]


def cmp_config(ctx):
    rng = ctx.rng
    nmods = 16
    variants_q = [(0, 0), (0, 1), (1, 0), (4, 0), (5, 1), (2, 0), (63, 0)]

    def subs(s, to):
        if ctx.quick:
            return variants_q[:5] if s in SPECIAL_Q else []
        extra = [(rng.randrange(64), rng.randrange(2)) for _ in range(2 if s in SPECIAL else 1)]
        return sorted(set((variants_q if s in SPECIAL else [(0, 0), (1, 0)]) + extra))
    specs, classes, units = [], {}, []
    if ctx.quick:      # the witnesses' classes + a seeded sample; the thorough tier has all 64 subsets
        keep = set(SPECIAL_Q + [6, 8, 9, 10, 16, 17, 33, 59]) | set(rng.sample(range(64), ctx.n(10, 64)))
        nmods = 8
    else:
        keep = set(range(64))
    for k in range(nmods):
        src, cl = cmp_module(k, nmods, subs, keep)
        mod = "c28r%d" % k
        specs.append(dict(name=mod, source=src))
        for n, (kd, b, sub, to) in cl.items():
            classes[n] = (kd, b, sub, to, mod)
    for s in (0, 1, 4, 5, 63):
        classes["X%d" % s] = ("py", None, s, 0, None)
    for n in [n for n in classes if n[0] == "S"]:       # the same subclasses as Python classes
        kd, b, sub, to, _ = classes[n]
        classes["Y" + n[1:]] = ("py", b, sub, to, None)
    pairs = []
    roots = [n for n in classes if n[0] == "R"]
    for a in roots:
        s, to = classes[a][2], classes[a][3]
        other = cmp_name("R", (s * 7 + 3) % 64, 1 - to)
        if other not in classes:
            other = rng.choice(roots)
        pairs += [(a, a, "cmp"), (a, a, "ident"), (a, "int", "cmp"), ("int", a, "cmp"), (a, "X5", "cmp"), ("X63", a, "cmp"),
                  ("X1", a, "cmp"), (a, other, "cmp")]
    for b in [n for n in classes if n[0] in "SY"]:
        a = classes[b][1]
        pairs += [(a, b, "cmp"), (b, a, "cmp"), (b, b, "cmp"), (b, b, "ident"), (b, "int", "cmp"), (b, "X63", "cmp")]
    sibs = {}
    for b in [n for n in classes if n[0] == "S"]:
        sibs.setdefault(classes[b][1], []).append(b)
    for a, bs in sibs.items():
        for i in range(len(bs) - 1):
            pairs += [(bs[i], bs[i + 1], "cmp"), (bs[i + 1], "Y" + bs[i][1:], "cmp")]
    for lc, rc, mode in pairs:
        for op in CMP:
            units.append((op, mode, lc, rc))
    return specs, classes, units


def order_classes(classes):
    """bases first (the child creates them in this order)"""
    out, done = [], set()

    def add(n):
        if n in done:
            return
        if classes[n][1]:
            add(classes[n][1])
        done.add(n); out.append(n)
    for n in classes:
        add(n)
    return {n: list(classes[n]) for n in out}


# --------------------------------------------------------------------------
# the check


def compare(ctx, kind, classes, units, results, crashed, variant, opsyms):
    """three-way comparison of every explored leaf"""
    cmpmode = kind == "cmp"
    lines, meta = [], []
    for idx, leaves in sorted(results.items()):
        u = units[idx]
        op, mode, lc, rc = u
        names, wcy = world_of(classes, lc, rc, cmpmode)
        _, wpy = world_of(classes, lc, rc, cmpmode, py=True)
        li, ri = names.index(lc), names.index(rc)
        for beh, impl, ora in leaves:
            if cmpmode:
                ans = ",".join("%d.%s=%s" % (names.index(k.rsplit(".", 1)[0]), k.rsplit(".", 1)[1], v) for k, v in sorted(beh.items())) or "-"
                pre = "C28 cmp %s %d %d %d " % (op, mode == "ident", li, ri)
                lines.append(pre + wcy + " " + ans); lines.append(pre + wpy + " " + ans)
            else:
                ni = ",".join("%d.%s" % (names.index(k.rsplit(".", 1)[0]), k.rsplit(".", 1)[1]) for k, v in sorted(beh.items()) if v == "ni") or "-"
                pre = "C28 binop %s %d %d %s %d %d " % (variant, op != "pow", op == "add", mode, li, ri)
                lines.append(pre + wcy + " " + ni); lines.append(pre + wpy + " " + ni)
            meta.append((idx, names, beh, impl, ora))
    outs = ctx.drv.batch(lines) if lines else []
    nviol = 0
    for j, (idx, names, beh, impl, ora) in enumerate(meta):
        u = units[idx]
        op, mode, lc, rc = u
        mcy = render_model(outs[2 * j], names, mode == "ident")
        mpy = render_model(outs[2 * j + 1], names, mode == "ident")
        rel = relation(classes, lc, rc)
        py = any(c != "int" and has_pysub(classes, c) for c in (lc, rc))
        to = cmpmode and any(c != "int" and any(classes[x][3] for x in chain(classes, c)) for c in (lc, rc))
        ctx.count("%s/%s/%s%s%s" % (kind, mode, rel, "+pysub" if py else "", "+to" if to else ""))
        ncalls = 0 if impl.startswith("- ->") else impl.count(";") + 1
        ctx.seen((kind, u, tuple(sorted(beh.items()))), nontrivial=ncalls > 0)
        rep = {"kind": kind, "unit": list(u), "answers": beh, "impl": cap(impl), "oracle": cap(ora), "model_cy": cap(mcy), "model_py": cap(mpy),
               "classes": {c: list(classes[c][:4]) for cc in (lc, rc) if cc != "int" for c in chain(classes, cc)}}
        if kind == "binop":
            rep["operator"] = opsyms.get(op, op)
        if impl != ora:
            key = cmp_key(classes, u, beh) if cmpmode else binop_key(classes, u, impl, variant)
            if impl != mcy:
                key = "unmodelled-" + key
            nviol += 1
            ctx.violation(key, cap("%s %s %s %s (%s) answers %s: compiled classes give [%s], the Python classes [%s]"
                                   % (lc, opsyms.get(op, op), rc, mode, rel, cap(beh, 120), impl, ora), 380), rep)
        if impl != mcy:
            ctx.tie_break("D-c %s vs CyVerif.C28 (cdef world)" % kind, cap("%s %s %s %s %s: impl [%s] model [%s]" % (lc, op, rc, mode, cap(beh, 100), impl, mcy), 380), rep)
        if ora != mpy:
            ctx.tie_break("CPython vs CyVerif.C28 (Python world)", cap("%s %s %s %s %s: CPython [%s] model [%s]" % (lc, op, rc, mode, cap(beh, 100), ora, mpy), 380), rep)
        if j % 4001 == 0:
            ctx.sample({"unit": list(u), "answers": beh, "impl": cap(impl, 120), "oracle": cap(ora, 120), "model": cap(mcy, 120)})
    for idx, rc_ in crashed:
        u = units[idx]
        ctx.violation("crash-%s-%s" % (kind, u[0]), cap("child process died (rc %s) while evaluating %s" % (rc_, list(u))), {"kind": kind, "unit": list(u), "crash": rc_})
    return len(meta), nviol


WITNESSES = [
    # (theorem, kind, unit, answers, must deviate under variant(s))
    ("cex_same_type_reflected", "binop", ("add", "bin", "A2", "A2"), {}, ("cur",)),
    ("cex_subclass_double_call", "binop", ("add", "bin", "A1", "B1_1"), {"A1.o": "ni"}, ("cur", "fix")),
    ("cex_subclass_base_left", "binop", ("add", "bin", "B1_1", "A1"), {"B1_1.o": "ni"}, ("cur", "fix")),
    ("cex_pysubclass_order", "binop", ("add", "bin", "A3", "P3_0"), {}, ("cur", "fix")),
    ("cex_pysubclass_iadd_leak", "binop", ("add", "inp", "P4_0", "P4_0"), {"A4.i": "ni"}, ("cur", "fix")),
    ("cex_pow3_reflected", "binop", ("pow", "pow3", "A1", "A2"), {"A1.o": "ni"}, ("cur", "fix")),
    ("cex_to_eq_notimplemented", "cmp", ("le", "cmp", "R5t", "R5t"), {"R5t.lt": "F", "R5t.eq": "N"}, ("cur", "fix")),
    ("cex_to_ne_only", "cmp", ("le", "cmp", "R6t", "R6t"), {"R6t.lt": "F", "R6t.ne": "F"}, ("cur", "fix")),
    ("cex_to_eq_and_ne", "cmp", ("gt", "cmp", "R7t", "R7t"), {"R7t.lt": "F", "R7t.eq": "F", "R7t.ne": "F"}, ("cur", "fix")),
    ("cex_to_without_eq", "cmp", ("le", "cmp", "R4t", "R4t"), {"R4t.lt": "F"}, ("cur", "fix")),
    ("cex_to_subclass_loses_synthesised", "cmp", ("ge", "cmp", "S5t_1", "S5t_1"), {"R5t.lt": "F"}, ("cur", "fix")),
    ("cex_to_on_empty_subclass", "cmp", ("ge", "cmp", "S5_0t", "S5_0t"), {"R5.lt": "F"}, ("cur", "fix")),
    ("cex_to_subclass_operand", "cmp", ("le", "cmp", "R37t", "S37t_0"), {"R37t.ge": "N", "R37t.lt": "F", "R37t.eq": "F"}, ("cur", "fix")),
    ("cex_pysubclass_ne_shadowed", "cmp", ("ne", "cmp", "R4", "Y4_1"), {"Y4_1.eq": "N"}, ("cur", "fix")),
]


def check_witnesses(ctx, kind, classes, units, results, variant):
    """the counterexample theorems' witnesses must still deviate on the real code"""
    index = {u: i for i, u in enumerate(units)}
    for thm, k, u, ans, variants in WITNESSES:
        if k != kind:
            continue
        i = index.get(u)
        leaves = results.get(i, []) if i is not None else []
        hit = [l for l in leaves if all(l[0].get(a, "ret" if kind == "binop" else "T") == v for a, v in ans.items())]
        if not hit:
            ctx.notes.setdefault("witness_not_run", []).append(thm)
            continue
        dev = any(l[1] != l[2] for l in hit)
        expected = variant in variants
        ctx.count("witness/%s/%s" % (thm, "deviates" if dev else "conforms"))
        if dev != expected:
            ctx.notes.setdefault("witness_changed", []).append("%s: %s on the current source (variant %s)" % (thm, "deviates" if dev else "no longer reproduces", variant))


def run_kind(ctx, kind, specs, builds, classes, units, variant, ops):
    import time
    bad = [(s["name"], b) for s, b in zip(specs, builds) if isinstance(b, cybuild.BuildError)]
    if bad:
        name, e = bad[0]
        ctx.tie_break("D-c build " + kind, cap("%s: %s: %s" % (name, e.stage, e.log[-300:])), {"module": name, "log": cap(e.log[-1500:], 1500)})
        ctx.violation("build-failure-%s" % kind, cap("generated module %s does not build (%s): %s" % (name, e.stage, e.log[-250:])),
                      {"kind": kind, "module": name, "source_head": cap([s for s in specs if s["name"] == name][0]["source"], 1500)})
        return
    rc = getattr(ctx, "replay_case", None)
    if rc and rc.get("case", {}).get("kind") == kind and "unit" in rc["case"]:
        u = tuple(rc["case"]["unit"])
        units = [u] if u in set(units) else units
    spec = {"kind": kind, "mods": {s["name"]: so for s, so in zip(specs, builds)}, "ops": [list(o) for o in ops],
            "classes": order_classes(classes), "units": [list(u) for u in units]}
    t0 = time.time()
    results, crashed = run_child(ctx, spec, kind)
    ctx.notes["%s_child_s" % kind] = round(time.time() - t0, 1)
    t0 = time.time()
    n, nv = compare(ctx, kind, classes, units, results, crashed, variant, dict(ops))
    ctx.notes["%s_compare_s" % kind] = round(time.time() - t0, 1)
    check_witnesses(ctx, kind, classes, units, results, variant)
    ctx.notes["%s_units" % kind] = len(units)
    ctx.notes["%s_leaves" % kind] = n
    ctx.notes["%s_deviating_leaves" % kind] = nv
    ctx.notes["%s_classes" % kind] = len(classes)


def run(ctx):
    ctx.rule = ("binop: for each operator in +,-,@,**,<<,// every subset of {__op__,__rop__,__iop__} in a base cdef class x every subset in a cdef subclass / "
                "Python subclass (plus sampled third-level classes), operand pairs same type / base-subclass either order / siblings / unrelated cdef / "
                "Python object / int, forms `l op r`, `l op= r`, pow(l,r,3); richcmp: all 64 subsets of the six methods with and without total_ordering, "
                "sub/sibling/Python-subclass/unrelated/int/identical operands, six operators; for every unit all distinguishable body answers "
                "(value/NotImplemented, True/False/NotImplemented) are explored adaptively; non-trivial = at least one user method is called")
    ctx.explanation = ("Theorems: binop_unrelated (full), binop_same_type_fixed (full for the repaired template), the *_partial theorems with explicit hypotheses, "
                       "richcmp_plain / richcmp_plain_ident (full, any depth, no total_ordering), total_ordering_partial; counterexample theorems for every "
                       "deviation mechanism. NOT covered by a theorem (tie only): hierarchies deeper than the enumerated ones for the binary operators, "
                       "total_ordering below the root class, that the compiler instantiates exactly the modelled template/richcmp text for every class "
                       "(extern base classes, c_api_binop_methods=True, Limited API / type specs are not modelled), METH_COEXIST registration, "
                       "argument passing of the third pow argument, reference counting.")
    ctx.assumptions = ["CPython 3.12 operator protocol (binary_op1, SLOT1BINFULL, do_richcompare, update_one_slot, functools.total_ordering) as transcribed in the model; "
                       "it is itself tied to the running CPython by the model-py vs CPython leg on every case"]
    ctx.extra_trusted = ["slot tables of CPython 3.12 Objects/typeobject.c and functools._convert as transcribed in CyVerif/Model/C28Tables.lean"]
    t = extract_tables(ctx)
    table_obligations(ctx, t)
    variant = t.get("variant")
    if variant is None:
        variant = "cur"
        ctx.budget_scale = max(ctx.budget_scale, 2.0)
    ops = OPS_QUICK if ctx.quick else OPS_ALL
    rc = getattr(ctx, "replay_case", None)
    only = rc.get("case", {}).get("kind") if rc else None
    import time
    cfgs = []
    if only in (None, "binop"):
        cfgs.append(("binop", ops) + binop_config(ctx, ops))
    if only in (None, "cmp"):
        cfgs.append(("cmp", []) + cmp_config(ctx))
    t0 = time.time()
    allspecs = [sp for c in cfgs for sp in c[2]]
    allbuilds = cybuild.build_many(ctx, allspecs)      # all modules of both kinds in one parallel batch
    ctx.notes["build_s"] = round(time.time() - t0, 1)
    ctx.notes["modules"] = len(allspecs)
    pos = 0
    for kind, kops, specs, classes, units in cfgs:
        run_kind(ctx, kind, specs, allbuilds[pos:pos + len(specs)], classes, units, variant, kops)
        pos += len(specs)

"""C13 — builtin call and method optimisations preserve semantics.

Three-way on every modelled case: implementation (modules compiled with the STAGED compiler, one
function per replaced call x typed/untyped receiver), Lean model (cydrv, `CyVerif.C13`), oracle
(CPython executing the SAME function source with the C types stripped, in this process).
Un-modelled replaced calls (len, sum, any/all, sorted, isinstance, constructors, container/str
methods, getattr, iter/next, divmod, pow, round ...) get the two-way comparison implementation vs
CPython only: they delegate to CPython's C-API and carry no separate logic; no theorem covers them.
"""
import re
import sys

import cybuild
import lib

MAX, MIN = 2 ** 63 - 1, -2 ** 63

PRELUDE = '''
import sys
class SS(str): pass
class BS(bytes): pass
class LS(list):
    def pop(self, *a): return ('LS.pop',) + a
    def append(self, x): list.append(self, ('LS.append', x))
class DS(dict):
    def get(self, *a): return ('DS.get',) + a
    def pop(self, *a): return ('DS.pop',) + a
    def setdefault(self, *a): return ('DS.setdefault',) + a
class US(str):
    def startswith(self, *a): return ('US.startswith',) + a
    def endswith(self, *a): return ('US.endswith',) + a
class IX:
    def __init__(self, v): self.v = v
    def __index__(self): return self.v
class X:
    def __repr__(self): return 'X'
class BadHash:
    def __hash__(self): raise ValueError('h')
    def __repr__(self): return 'BadHash'
class BadEq:
    def __init__(self, h): self.h = h
    def __hash__(self): return self.h
    def __eq__(self, o): raise ArithmeticError('e')
    def __repr__(self): return 'BadEq'
class Boom:
    def __init__(self, e): self.e = e
log = []
def f(pos, x):
    log.append(pos)
    if isinstance(x, Boom): raise x.e()
    return x
def fs(n): return frozenset(i for i in range(8) if n >> i & 1)
def alloc_of(l): return (sys.getsizeof(l) - sys.getsizeof([])) // 8
def mk(n, a, p):
    l = list(range(n))
    for i in range(a): list.append(l, 100 + i)
    for i in range(p): list.pop(l)
    return l
def _verif_env():
    return dict(SS=SS, BS=BS, LS=LS, DS=DS, US=US, IX=IX, X=X, BadHash=BadHash, BadEq=BadEq, Boom=Boom, fs=fs, mk=mk,
                alloc_of=alloc_of)
'''


def _strip_types(src):
    """Python twin of a .pyx source: C types removed from `def` signatures, `cdef` lines dropped."""
    out = []
    for line in src.split("\n"):
        if line.strip().startswith("cdef "):
            continue
        m = re.match(r"^(\s*def \w+)\((.*)\):(.*)$", line)
        if m:
            ps = [p.strip().split()[-1] if p.strip() else "" for p in m.group(2).split(",")]
            line = "%s(%s):%s" % (m.group(1), ", ".join(ps), m.group(3))
        out.append(line)
    return "\n".join(out)


def canon(v):
    inf = float("inf")
    if isinstance(v, float):
        return "float:" + (v.hex() if v == v and v not in (inf, -inf) else repr(v))
    if isinstance(v, complex):
        return "complex:" + canon(v.real) + "," + canon(v.imag)
    if isinstance(v, (tuple, list)):
        return type(v).__name__ + ":[" + ";".join(canon(x) for x in v) + "]"
    return type(v).__name__ + ":" + repr(v)


def _norm(o):
    return re.sub(r" at 0x[0-9a-fA-F]+", "", o)


def _run_cases(ctx, so, cases, chunk=120):
    """run in chunks; after many crashes/timeouts (each restarts the child) the rest is skipped: the crashes seen
    are already concrete failing inputs"""
    out, bad, limit = [], 0, (80 if ctx.quick else 400)
    for i in range(0, len(cases), chunk):
        if bad > limit:
            out.extend(["skipped"] * (len(cases) - len(out)))
            ctx.notes["skipped_after_many_crashes"] = ctx.notes.get("skipped_after_many_crashes", 0) + len(cases) - i
            break
        got = cybuild.run_cases(ctx, so, cases[i:i + chunk], timeout_per_case=5.0)
        bad += sum(1 for o in got if o.startswith(("crash", "timeout")))
        out.extend(_norm(o) for o in got)
    return out


class Oracle:
    """CPython running the type-stripped twin of the module source."""

    def __init__(self, src):
        self.ns = {"__name__": "c13oracle"}
        exec(compile(_strip_types(src), "c13oracle.py", "exec"), self.ns)
        self.env = {"inf": float("inf"), "nan": float("nan")}
        self.env.update(self.ns["_verif_env"]())

    def call(self, fn, argsrc):
        try:
            args = eval(argsrc, dict(self.env))
            if not isinstance(args, tuple):
                args = (args,)
            return _norm("ok " + canon(self.ns[fn](*args)))
        except BaseException as e:
            return "err " + type(e).__name__


def F(name, params, expr):
    return "def %s(%s):\n    return %s\n" % (name, params, expr)


# ---------------------------------------------------------------- module sources
SRC_STR = PRELUDE + "".join([
    F("b_sw", "bytes b, p, s, e", "b.startswith(p, s, e)"), F("b_ew", "bytes b, p, s, e", "b.endswith(p, s, e)"),
    F("b_sw3", "bytes b, p, s", "b.startswith(p, s)"), F("b_ew3", "bytes b, p, s", "b.endswith(p, s)"),
    F("b_sw2", "bytes b, p", "b.startswith(p)"), F("b_ew2", "bytes b, p", "b.endswith(p)"),
    F("u_sw", "str u, p, s, e", "u.startswith(p, s, e)"), F("u_ew", "str u, p, s, e", "u.endswith(p, s, e)"),
    F("u_sw3", "str u, p, s", "u.startswith(p, s)"), F("u_ew3", "str u, p, s", "u.endswith(p, s)"),
    F("u_sw2", "str u, p", "u.startswith(p)"), F("u_ew2", "str u, p", "u.endswith(p)"),
    F("b_sw_c", "bytes b, p, Py_ssize_t s, Py_ssize_t e", "b.startswith(p, s, e)"),
    F("b_ew_c", "bytes b, p, Py_ssize_t s, Py_ssize_t e", "b.endswith(p, s, e)"),
    F("o_sw", "o, p, s, e", "o.startswith(p, s, e)"), F("o_ew", "o, p, s, e", "o.endswith(p, s, e)"),
    F("dec_b", "bytes b, Py_ssize_t s, Py_ssize_t e", "b[s:e].decode('latin-1')"),
    F("dec_b8", "bytes b, Py_ssize_t s, Py_ssize_t e", "b[s:e].decode('utf-8', 'replace')"),
    F("dec_bs", "bytes b, Py_ssize_t s", "b[s:].decode('latin-1')"),
    F("dec_be", "bytes b, Py_ssize_t e", "b[:e].decode('latin-1')"),
    F("dec_bo", "bytes b, s, e", "b[s:e].decode('latin-1')"),
    F("dec_ba", "bytearray b, Py_ssize_t s, Py_ssize_t e", "b[s:e].decode('latin-1')"),
    F("substr", "str u, Py_ssize_t s, Py_ssize_t e", "u[s:e]"),
    F("substr_s", "str u, Py_ssize_t s", "u[s:]"), F("substr_e", "str u, Py_ssize_t e", "u[:e]"),
    "def dec_cs(bytes b, Py_ssize_t s, Py_ssize_t e):\n    cdef char* c\n    c = b\n    return c[s:e].decode('latin-1')\n",
])

SRC_LIST = PRELUDE + '''
def hist(list l, ops):
    cdef Py_ssize_t i
    a0 = alloc_of(l)
    obs = []
    for op in ops:
        try:
            if op[0] == 'a':
                l.append(op[1]); obs.append('u')
            elif op[0] == 'p':
                obs.append('v%d' % l.pop())
            else:
                i = op[1]
                obs.append('v%d' % l.pop(i))
        except IndexError:
            obs.append('eIndexError')
    return a0, obs, l
def hist_o(l, ops):
    obs = []
    for op in ops:
        try:
            if op[0] == 'a':
                l.append(op[1]); obs.append('u')
            elif op[0] == 'p':
                obs.append(l.pop())
            else:
                obs.append(l.pop(op[1]))
        except IndexError:
            obs.append('eIndexError')
    return obs, l
''' + "".join([
    F("l_pop", "list l", "(l.pop(), l)"), F("o_pop", "l", "(l.pop(), l)"),
    F("l_pop_o", "list l, i", "(l.pop(i), l)"), F("o_pop_o", "l, i", "(l.pop(i), l)"),
    F("l_pop_int", "list l, int i", "(l.pop(i), l)"), F("o_pop_int", "l, int i", "(l.pop(i), l)"),
    F("l_pop_ssz", "list l, Py_ssize_t i", "(l.pop(i), l)"),
    F("l_pop_ull", "list l, unsigned long long i", "(l.pop(i), l)"),
    F("l_pop_uc", "list l, unsigned char i", "(l.pop(i), l)"),
    F("l_pop_c0", "list l", "(l.pop(0), l)"), F("l_pop_cm2", "list l", "(l.pop(-2), l)"),
    F("l_app", "list l, x", "(l.append(x), l)"), F("o_app", "l, x", "(l.append(x), l)"),
])

SRC_NUM = PRELUDE + "".join([
    F("abs_i", "int x", "abs(x)"), F("abs_l", "long x", "abs(x)"), F("abs_ll", "long long x", "abs(x)"),
    F("abs_s", "short x", "abs(x)"), F("abs_sc", "signed char x", "abs(x)"), F("abs_ss", "Py_ssize_t x", "abs(x)"),
    F("abs_ui", "unsigned int x", "abs(x)"), F("abs_ul", "unsigned long x", "abs(x)"),
    F("abs_d", "double x", "abs(x)"), F("abs_o", "x", "abs(x)"),
    F("ord_o", "x", "ord(x)"), F("ord_u", "str x", "ord(x)"), F("ord_b", "bytes x", "ord(x)"),
    F("chr_i", "int x", "chr(x)"), F("chr_l", "long x", "chr(x)"), F("chr_ll", "long long x", "chr(x)"),
    F("chr_s", "short x", "chr(x)"), F("chr_ui", "unsigned int x", "chr(x)"), F("chr_o", "x", "chr(x)"),
    F("mn2", "a, b", "min(a, b)"), F("mx2", "a, b", "max(a, b)"),
    F("mn3", "a, b, c", "min(a, b, c)"), F("mx3", "a, b, c", "max(a, b, c)"),
    F("mn4", "a, b, c, d", "min(a, b, c, d)"), F("mx4", "a, b, c, d", "max(a, b, c, d)"),
    F("mns3", "a, b, c", "min([a, b, c])"), F("mxs2", "a, b", "max((a, b))"),
    F("mn_ii", "int a, int b", "min(a, b)"), F("mx_ll", "long a, long b", "max(a, b)"),
    F("mn_dd", "double a, double b", "min(a, b)"), F("mx_dd", "double a, double b", "max(a, b)"),
    F("mn_ddd", "double a, double b, double c", "min(a, b, c)"),
    F("mn_id", "int a, double b", "min(a, b)"),
]) + '''
def mnf2(a, b):
    del log[:]
    try: r = min(f(0, a), f(1, b))
    except Exception as e: return ('err', type(e).__name__, list(log))
    return ('ok', r, list(log))
def mxf3(a, b, c):
    del log[:]
    try: r = max(f(0, a), f(1, b), f(2, c))
    except Exception as e: return ('err', type(e).__name__, list(log))
    return ('ok', r, list(log))
def mnf3(a, b, c):
    del log[:]
    try: r = min(f(0, a), f(1, b), f(2, c))
    except Exception as e: return ('err', type(e).__name__, list(log))
    return ('ok', r, list(log))
'''

SRC_DICT = PRELUDE + "".join([
    F("d_get", "dict d, k, v", "(d.get(k, v), d)"), F("d_get2", "dict d, k", "(d.get(k), d)"),
    F("d_sd", "dict d, k, v", "(d.setdefault(k, v), d)"), F("d_sd2", "dict d, k", "(d.setdefault(k), d)"),
    F("d_pop", "dict d, k, v", "(d.pop(k, v), d)"), F("d_pop2", "dict d, k", "(d.pop(k), d)"),
    F("o_get", "d, k, v", "(d.get(k, v), d)"), F("o_sd", "d, k, v", "(d.setdefault(k, v), d)"),
    F("o_pop3", "d, k, v", "(d.pop(k, v), d)"),
]) + '''
def d_pop_ign(dict d, k, v):
    d.pop(k, v)
    return d
'''

# un-modelled replaced calls: (name, params, expression, list of argument-tuple sources)
_SEQS = ["[]", "[3, 1, 2]", "(1, 2.5, -1)", "'bca'", "b'xy'", "bytearray(b'q')", "{2, 1}", "{'a': 1, 'b': 2}", "range(4)",
         "iter([1, 0])", "None", "5", "LS([1, 2])", "DS(a=1)", "frozenset([1])", "[[], [1]]", "[1, 'a']", "[nan, 1.0]"]
_SCAL = ["0", "1", "-7", "2**70", "-2**63", "1.5", "-0.0", "nan", "inf", "True", "None", "'12'", "' 0x1f '", "b'7'", "'x'", "''",
         "[]", "3+4j", "IX(5)", "X()", "SS('42')", "bytearray(b'9')", "'1_0'", "'\\u0661\\u0662'", "1e400", "-1e-400"]
MISC = [
    ("len_o", "x", "len(x)", _SEQS), ("len_l", "list x", "len(x)", ["[]", "[1, 2]", "None"]),
    ("len_u", "str x", "len(x)", ["''", "'a\\U0001f600'", "None"]), ("len_b", "bytes x", "len(x)", ["b''", "b'abc'", "None"]),
    ("len_d", "dict x", "len(x)", ["{}", "{1: 2}", "None"]), ("len_t", "tuple x", "len(x)", ["()", "(1,)", "None"]),
    ("sum_o", "x", "sum(x)", _SEQS), ("sum2_o", "x, s", "sum(x, s)", ["([1, 2], 10)", "([[1], [2]], [])", "(['a'], '')", "([1.5], 2**70)"]),
    ("any_o", "x", "any(x)", _SEQS), ("all_o", "x", "all(x)", _SEQS),
    ("any_g", "x", "any(v > 1 for v in x)", ["[0, 1, 2]", "[]", "[0, 'a']", "None"]),
    ("all_g", "x", "all(v > 1 for v in x)", ["[2, 3]", "[]", "[0, 'a']", "[5, 'a']", "None"]),
    ("sorted_o", "x", "sorted(x)", _SEQS), ("sorted_g", "x", "sorted(v for v in x)", ["[3, 1]", "'ba'", "[1, 'a']", "None"]),
    ("rev_o", "x", "list(reversed(x))", _SEQS),
    ("isinst1", "x", "isinstance(x, int)", _SCAL), ("isinst2", "x", "isinstance(x, (str, bytes, list))", _SCAL),
    ("isinst3", "x, t", "isinstance(x, t)", ["(1, int)", "(1, (int, 5))", "(1, 5)", "('a', (bytes, (list, str)))", "(SS('a'), str)"]),
    ("int_o", "x", "int(x)", _SCAL), ("float_o", "x", "float(x)", _SCAL), ("bool_o", "x", "bool(x)", _SCAL + _SEQS),
    ("str_o", "x", "str(x)", ["1", "'a'", "None", "SS('q')", "b'x'", "[1]", "1.5"]),
    ("float_u", "str x", "float(x)", ["'1.5'", "' -inf '", "'1_0.5'", "'1__0'", "'nan'", "'0x10'", "''", "'\\u0661.5'", "'1e5'", "'infinity'", "'in'", "None"]),
    ("float_b", "bytes x", "float(x)", ["b'1.5'", "b' 2 '", "b'1_0'", "b''", "b'1e-3'", "b'nan'", "b'+-1'"]),
    ("list_o", "x", "list(x)", _SEQS), ("tuple_o", "x", "tuple(x)", _SEQS), ("set_o", "x", "sorted(set(x), key=repr)", _SEQS),
    ("fset_o", "x", "sorted(frozenset(x), key=repr)", _SEQS), ("dict_o", "x", "dict(x)", _SEQS + ["[(1, 2)]", "[(1,)]", "[([], 1)]"]),
    ("int2_o", "x, b", "int(x, b)", ["('ff', 16)", "('z', 36)", "('1', 1)", "(b'11', 2)", "(5, 10)", "('', 10)"]),
    ("ga2", "o, n", "getattr(o, n)", ["(1, 'real')", "(1, 'nope')", "(1, 5)", "(None, '__class__')"]),
    ("ga3", "o, n, d", "getattr(o, n, d)", ["(1, 'real', 9)", "(1, 'nope', 9)", "(1, 5, 9)"]),
    ("ha", "o, n", "hasattr(o, n)", ["(1, 'real')", "(1, 'nope')", "(1, 5)"]),
    ("it_nx", "x", "next(iter(x))", _SEQS), ("nx2", "x, d", "next(x, d)", ["(iter([]), 7)", "(iter([1]), 7)", "([], 7)", "(5, 7)"]),
    ("divmod_o", "a, b", "divmod(a, b)", ["(7, 2)", "(-7, 2)", "(7, 0)", "(7.5, -2)", "(2**70, -3)", "('a', 1)", "(1.0, 0.0)"]),
    ("divmod_i", "int a, int b", "divmod(a, b)", ["(7, 2)", "(-7, 2)", "(7, -2)", "(7, 0)", "(-2**31, -1)", "(-2**31, 1)", "(0, -5)"]),
    ("divmod_ll", "long long a, long long b", "divmod(a, b)", ["(7, 2)", "(-7, 2)", "(7, 0)", "(-2**63, 1)", "(2**63-1, -1)", "(-2**63+1, -1)", "(-2**63, -1)"]),
    ("pow3", "a, b, c", "pow(a, b, c)", ["(2, 10, 7)", "(2, -1, 7)", "(2, 3, 0)", "(2.0, 3, 5)", "(2, 3, None)", "(-3, 2**65, 2**61-1)"]),
    ("round1", "x", "round(x)", ["2.5", "3.5", "-0.5", "nan", "inf", "7", "'a'", "1e300"]), ("round2", "x, n", "round(x, n)", ["(2.675, 2)", "(1234, -2)", "(1.5, None)", "(1.5, 'a')"]),
    ("l_ext", "list l, x", "(l.extend(x), l)", ["([1], [2])", "([1], 'ab')", "([], 5)", "([1], None)", "(None, [1])"]),
    ("l_ins", "list l, i, x", "(l.insert(i, x), l)", ["([1, 2], 1, 9)", "([1, 2], -9, 9)", "([1], 2**70, 9)", "([1], 'a', 9)"]),
    ("l_rev", "list l", "(l.reverse(), l)", ["[1, 2, 3]", "[]", "None"]), ("l_sort", "list l", "(l.sort(), l)", ["[3, 1]", "[1, 'a']", "None"]),
    ("l_idx", "list l, x", "l.index(x)", ["([1, 2], 2)", "([1], 5)"]), ("l_cnt", "list l, x", "l.count(x)", ["([1, 1.0, True], 1)", "([], 0)"]),
    ("s_add", "set s, x", "(s.add(x), sorted(s, key=repr))", ["({1}, 2)", "({1}, [])", "(None, 1)"]),
    ("s_disc", "set s, x", "(s.discard(x), sorted(s, key=repr))", ["({1, 2}, 2)", "({1}, 5)", "({1}, [])", "({frozenset([1])}, {1})", "(None, 1)"]),
    ("s_rem", "set s, x", "(s.remove(x), sorted(s, key=repr))", ["({1, 2}, 2)", "({1}, 5)", "({1}, [])", "({frozenset([1])}, {1})"]),
    ("s_pop", "set s", "s.pop()", ["{7}", "set()", "None"]), ("s_clr", "set s", "(s.clear(), s)", ["{1}", "None"]),
    ("d_keys", "dict d", "sorted(d.keys())", ["{2: 1, 1: 0}", "{}", "None"]), ("d_items", "dict d", "sorted(d.items())", ["{2: 1, 1: 0}", "None"]),
    ("d_vals", "dict d", "sorted(d.values())", ["{2: 1, 1: 0}", "None"]), ("d_copy", "dict d", "d.copy()", ["{1: 2}", "None"]),
    ("d_clr", "dict d", "(d.clear(), d)", ["{1: 2}", "None"]), ("d_upd", "dict d, x", "(d.update(x), d)", ["({1: 2}, {3: 4})", "({}, [(1, 2)])", "({}, 5)"]),
    ("d_in", "dict d, k", "k in d", ["({1: 2}, 1)", "({1: 2}, [])", "({}, BadHash())", "(None, 1)"]),
    ("d_loop", "dict d", "[(k, v) for k, v in d.items()]", ["{1: 2, 3: 4}", "{}", "None"]),
    ("ba_app", "bytearray b, x", "(b.append(x), b)", ["(bytearray(b'a'), 66)", "(bytearray(), 256)", "(bytearray(), -1)", "(bytearray(), 'c')", "(bytearray(), b'c')", "(bytearray(), 2**70)", "(bytearray(), 1.5)", "(None, 1)"]),
    ("ba_app_c", "bytearray b, int x", "(b.append(x), b)", ["(bytearray(b'a'), 66)", "(bytearray(), 256)", "(bytearray(), -1)", "(bytearray(), 255)"]),
    ("ba_ext", "bytearray b, x", "(b.extend(x), b)", ["(bytearray(b'a'), b'bc')", "(bytearray(), [1, 2])", "(bytearray(), [256])", "(bytearray(), 'a')", "(bytearray(), 5)"]),
    ("u_join", "str u, x", "u.join(x)", ["(',', ['a', 'b'])", "('', [])", "(',', ['a', 1])", "(',', 'abc')", "(',', 5)", "(',', [SS('x'), 'y'])", "(None, [])"]),
    ("u_split", "str u, x", "u.split(x)", ["('a,b', ',')", "('a b', None)", "('a', '')", "('a', 5)", "(None, 'a')"]),
    ("u_split2", "str u, x, n", "u.split(x, n)", ["('a,b,c', ',', 1)", "('a,b', ',', -1)", "('a,b', ',', 2**70)", "('a b', None, 1)"]),
    ("u_splitl", "str u, k", "u.splitlines(k)", ["('a\\nb\\r\\n', True)", "('a\\nb', False)", "('a', 5)", "('a', [])"]),
    ("u_find", "str u, p, s, e", "u.find(p, s, e)", ["('abcabc', 'c', 0, 6)", "('abcabc', 'c', 3, None)", "('abc', 'c', -1, 2**70)", "('abc', '', 4, 5)", "('abc', 5, 0, 1)", "('abc', 'a', None, None)"]),
    ("u_rfind", "str u, p, s", "u.rfind(p, s)", ["('abcabc', 'c', 0)", "('abc', '', 4)", "('abc', 'a', -2**70)"]),
    ("u_count", "str u, p, s, e", "u.count(p, s, e)", ["('aaa', 'a', 0, 2)", "('aaa', '', 0, 3)", "('aaa', 'a', 2, 1)", "('aaa', 5, 0, 1)", "('aaa', 'aa', -5, None)"]),
    ("u_repl", "str u, a, b, n", "u.replace(a, b, n)", ["('aaa', 'a', 'b', 2)", "('aaa', 'a', 'b', -1)", "('aaa', '', '-', 2)", "('a', 1, 'b', 1)", "('aaa', 'a', 'b', 2**70)"]),
    ("u_enc", "str u", "u.encode('utf-8')", ["'a\\xe9\\u20ac'", "'\\ud800'", "''", "None"]), ("u_enc2", "str u, e", "u.encode(e)", ["('a', 'ascii')", "('\\xe9', 'ascii')", "('a', 'nope')", "('a', 5)"]),
    ("u_pred", "str u", "(u.isalpha(), u.isdigit(), u.isspace(), u.isupper(), u.islower(), u.isalnum(), u.istitle(), u.isnumeric(), u.isdecimal(), u.isprintable())", ["'a'", "'1'", "' '", "''", "'Ab'", "'\\u0661'", "'\\u2167'", "'\\x00'", "'A1 b'"]),
    ("uc_pred", "Py_UCS4 c", "(c.isalpha(), c.isdigit(), c.isspace(), c.isupper(), c.islower(), c.isalnum(), c.isnumeric(), c.isdecimal(), c.isprintable())", ["'a'", "'1'", "' '", "'\\u0661'", "'\\u2167'", "'\\x00'", "'\\U0001f600'", "'A'"]),
    ("uc_conv", "Py_UCS4 c", "(c.lower(), c.upper(), c.title())", ["'a'", "'A'", "'\\xdf'", "'\\u01c5'", "'1'", "'\\u0130'"]),
    ("b_dec", "bytes b", "b.decode('utf-8')", ["b'a\\xc3\\xa9'", "b'\\xff'", "b''", "None"]), ("b_dec2", "bytes b, e, r", "b.decode(e, r)", ["(b'\\xff', 'ascii', 'ignore')", "(b'a', 'nope', 'strict')", "(b'a', None, None)", "(b'\\xff', 'utf-8', 'nope')"]),
    ("b_dec_a", "bytes b", "b.decode('ascii')", ["b'abc'", "b'a\\x80'", "b''"]), ("b_dec_16", "bytes b", "b.decode('utf-16')", ["b'\\xff\\xfea\\x00'", "b'a'", "b''"]),
    ("type1", "x", "type(x).__name__", _SCAL[:8]), ("callable_o", "x", "callable(x)", ["len", "1", "X", "X()"]),
    ("o_add", "a, b", "a.__add__(b)", ["(1, 2)", "(1, 2.0)", "([1], [2])", "(1.5, 2)"]), ("f_add", "double a, b", "a.__add__(b)", ["(1.5, 2)", "(1.5, 2.5)", "(1.5, 'a')"]),
    ("hash_o", "x", "hash(x)", ["1", "2**70", "[]", "(1, 2)", "BadHash()", "-1", "1.0"]), ("repr_o", "x", "repr(x)", ["1", "'a'", "[1]", "X()"]),
    ("id_same", "x", "id(x) == id(x)", ["1", "[]"]), ("iter2", "f, s", "list(iter(f, s))", ["(iter([1, 2, 0, 3]).__next__, 0)", "(5, 0)"]),
    ("bytes_o", "x", "bytes(x)", ["3", "[1, 2]", "'a'", "b'x'", "-1", "[256]", "None", "bytearray(b'q')"]),
    ("tuple_l", "list x", "tuple(x)", ["[1, 2]", "[]", "None"]), ("list_t", "tuple x", "list(x)", ["(1, 2)", "None"]),
    ("set_l", "list x", "sorted(set(x), key=repr)", ["[1, 1, 2]", "[[]]", "None"]),
    ("in_b", "bytes b, x", "x in b", ["(b'abc', 98)", "(b'abc', b'bc')", "(b'abc', 256)", "(b'abc', 'a')", "(b'abc', -1)"]),
    ("in_b_c", "bytes b, char x", "x in b", ["(b'abc', 98)", "(b'abc', 0)", "(b'a\\x00', 0)", "(b'\\x7f', 127)"]),
    ("in_u", "str u, x", "x in u", ["('abc', 'b')", "('abc', '')", "('abc', 5)", "('abc', 'bd')"]), ("in_u_c", "str u, Py_UCS4 x", "x in u", ["('abc', 'b')", "('a\\u20ac', '\\u20ac')", "('abc', 'z')", "('', 'a')"]),
]
SRC_MISC = PRELUDE + "".join(F(n, p, e) for n, p, e, _ in MISC)


# ---------------------------------------------------------------- helpers for the modelled groups
def nats(xs):
    return ".".join(str(int(x)) for x in xs) if len(xs) else "-"


def _cls_misc(fn, argsrc, impl, orc):
    """stable key of a two-way difference of an un-modelled call"""
    if fn.startswith("divmod_") and impl == "crash SIGFPE" and argsrc.replace(" ", "").endswith(",-1)"):
        return "divmod-cint-min-by-minus-one-crash"
    if impl == "err OverflowError" and ("2**70" in argsrc):
        return "misc-%s-index-beyond-ssize-overflowerror" % fn
    return "misc-%s-%s-vs-%s" % (fn, impl.split(":")[0].replace(" ", "_"), orc.split(":")[0].replace(" ", "_"))


def detect_variants(ctx):
    """which variant of the repaired/unrepaired helpers the CURRENT source is"""
    import os
    st = open(os.path.join(ctx.stage, "Cython", "Utility", "StringTools.c")).read()
    sec = st[st.index("bytes_tailmatch ///"):]
    sec = sec[:sec.index("static int __Pyx_PyBytes_TailmatchTuple")]
    if re.search(r"start\s*\+\s*sub_len\s*<=\s*end", sec):
        tail_fixed = 0
    elif re.search(r"sub_len\s*<=\s*end\s*-\s*start", sec):
        tail_fixed = 1
    else:
        tail_fixed = None
    return tail_fixed


def tail_arg_token(p, kind):
    """prefix argument -> model token, or None if outside the model (subclass overriding etc.)"""
    def one(x):
        if kind == "b":
            if isinstance(x, (bytes, bytearray, memoryview)):
                return nats(bytes(x))
            return "!"
        if isinstance(x, str):
            return nats([ord(c) for c in x])
        return "!"
    if isinstance(p, tuple):
        return "t:" + ",".join(one(x) for x in p)
    return "s:" + one(p)


def gen_tail_cases(ctx):
    rng = ctx.rng
    idx = [None, 0, 1, 2, 3, 4, 5, 7, -1, -2, -3, -4, -6, -9, MAX, MAX - 1, MAX - 2, MIN, MIN + 1, 2 ** 62, 2 ** 63, -2 ** 63 - 1, 2 ** 70]
    cases = []
    alph_b = [b"a", b"b", b"\x00", b"\xff"]
    alph_u = ["a", "b", "\xe9", "€", "\U0001f600"]

    def rb(n):
        return b"".join(rng.choice(alph_b[:2] if rng.random() < 0.8 else alph_b) for _ in range(n))

    def ru(n):
        k = rng.choice((2, 2, 3, 4, 5))
        return "".join(rng.choice(alph_u[:k]) for _ in range(n))

    def mkp(kind, s):
        r = rng.random()
        mk = rb if kind == "b" else ru
        if r < 0.45:      # a real affix of some window, or near miss
            if len(s) and rng.random() < 0.8:
                i = rng.randrange(len(s) + 1); j = rng.randrange(i, len(s) + 1)
                return s[i:j]
            return mk(rng.randrange(0, 4))
        if r < 0.55:
            return s[:0]
        if r < 0.85:
            n = rng.randrange(0, 4)
            items = []
            for _ in range(n):
                q = rng.random()
                if q < 0.15:
                    items.append(rng.choice([None, 5, "x" if kind == "b" else b"x", 1.5]))
                elif q < 0.25 and kind == "b":
                    items.append(rng.choice([bytearray(mk(1)), memoryview(mk(2))]))
                else:
                    items.append(mkp(kind, s) if rng.random() < 0.5 else mk(rng.randrange(0, 3)))
            items = [x for x in items if not isinstance(x, tuple)]
            return tuple(items)
        if r < 0.93:
            return rng.choice([None, 5, "x" if kind == "b" else b"x", [], bytearray(b"a"), memoryview(b"ab")])
        return mk(rng.randrange(0, 3))

    def src(x):
        if isinstance(x, memoryview):
            return "memoryview(%r)" % bytes(x)
        if isinstance(x, tuple):
            return "(" + "".join(src(i) + ", " for i in x) + ")"
        return repr(x)

    n = ctx.n(2500, 14000)
    fixed_first = [(b"abc", b"x", MAX, MAX), (b"abc", b"", MAX, MAX), (b"abc", b"xx", MAX - 1, 3), (b"abc", b"c", MAX, MAX),
                   (b"abc", b"", 3, 3), (b"abc", b"", 4, 3), (b"abc", b"", 2, 1), (b"", b"", 0, 0), (b"", b"", 1, 0)]
    for self_, p, s, e in fixed_first:
        for fn in ("b_sw", "b_ew"):
            cases.append((fn, "b", self_, p, s, e, "(%r, %r, %r, %r)" % (self_, p, s, e)))
    for i in range(n):
        kind = "b" if i % 2 == 0 else "u"
        s_ = (rb if kind == "b" else ru)(rng.choice((0, 1, 2, 3, 3, 4, 5, 6)))
        p = mkp(kind, s_)
        a = rng.choice(idx) if rng.random() < 0.5 else rng.randrange(-len(s_) - 2, len(s_) + 3)
        b = rng.choice(idx) if rng.random() < 0.5 else rng.randrange(-len(s_) - 2, len(s_) + 3)
        pre = kind
        form = rng.random()
        d = rng.choice(("sw", "ew"))
        if form < 0.7:
            cases.append(("%s_%s" % (pre, d), kind, s_, p, a, b, "(%r, %s, %r, %r)" % (s_, src(p), a, b)))
        elif form < 0.8:
            cases.append(("%s_%s3" % (pre, d), kind, s_, p, a, None, "(%r, %s, %r)" % (s_, src(p), a)))
        elif form < 0.88:
            cases.append(("%s_%s2" % (pre, d), kind, s_, p, None, None, "(%r, %s)" % (s_, src(p))))
        elif form < 0.94 and kind == "b":
            a2 = a if a is not None and MIN <= a <= MAX else 0
            b2 = b if b is not None and MIN <= b <= MAX else MAX
            cases.append(("b_%s_c" % d, kind, s_, p, a2, b2, "(%r, %s, %r, %r)" % (s_, src(p), a2, b2)))
        else:
            recv = rng.choice(["US(%r)" % (s_ if kind == "u" else "q"), "SS(%r)" % (s_ if kind == "u" else "q"),
                               "BS(%r)" % (s_ if kind == "b" else b"q"), "bytearray(%r)" % (s_ if kind == "b" else b"q"), "None", "5"])
            cases.append(("o_%s" % d, None, None, p, a, b, "(%s, %s, %r, %r)" % (recv, src(p), a, b)))
    return cases


def run_tail(ctx, so, orc, tail_fixed):
    cases = gen_tail_cases(ctx)
    outs = _run_cases(ctx, so, [(c[0], c[6]) for c in cases])
    lines, idxs = [], []
    for k, (fn, kind, s_, p, a, b, argsrc) in enumerate(cases):
        if kind is None:
            continue
        if (a is not None and not MIN <= a <= MAX) or (b is not None and not MIN <= b <= MAX):
            continue
        tok = tail_arg_token(p, kind)
        d = 1 if "_ew" in fn else -1
        selfn = nats(s_) if kind == "b" else nats([ord(c) for c in s_])
        lines.append("C13 tail %s %d %d %d %d %s %s" % (kind, tail_fixed or 0, d, 0 if a is None else a, MAX if b is None else b, selfn, tok))
        lines.append("C13 tail py 0 %d %d %d %s %s" % (d, 0 if a is None else a, MAX if b is None else b, selfn, tok))
        idxs.append(k)
    mout = ctx.drv.batch(lines) if lines else []
    model = {k: (mout[2 * j], mout[2 * j + 1]) for j, k in enumerate(idxs)}
    for k, (fn, kind, s_, p, a, b, argsrc) in enumerate(cases):
        impl = outs[k]
        if impl == "skipped":
            continue
        want = orc.call(fn, argsrc)
        big = (a is not None and not MIN <= a <= MAX) or (b is not None and not MIN <= b <= MAX)
        ctx.count("tail/%s%s%s" % (fn, "/tuple" if isinstance(p, tuple) else "", "/bigidx" if big else ""))
        ctx.seen(("tail", fn, argsrc), nontrivial=True)
        if k % 97 == 0:
            ctx.sample({"fn": fn, "args": argsrc[:120], "impl": impl, "oracle": want, "model": model.get(k, ("-",))[0]})
        rep = {"group": "tail", "func": fn, "args": argsrc[:300], "impl": impl, "oracle": want}
        if impl != want:
            if big and impl == "err OverflowError":
                key = "tailmatch-index-beyond-ssize-overflowerror"
            elif impl.startswith("crash") and kind == "b" and a is not None and a > MAX - 8:
                key = "bytes-tailmatch-start-near-ssize-max-crash"
            else:
                key = "tailmatch-%s" % fn
            ctx.violation(key, "%s%s -> %s, CPython %s" % (fn, argsrc[:200], impl, want), rep)
        if k in model:
            m, pym = model[k]
            mtxt = {"ok True": "ok bool:True", "ok False": "ok bool:False"}.get(m, m)
            ptxt = {"ok True": "ok bool:True", "ok False": "ok bool:False"}.get(pym, pym)
            if ptxt != want:
                ctx.tie_break("pyTail (reference semantics in Lean) vs CPython", "%s%s: spec %s CPython %s" % (fn, argsrc[:200], pym, want), rep)
            if m.startswith("ub "):
                ctx.count("tail/model-ub")
                continue
            if mtxt != impl:
                ctx.tie_break("D-c %s vs CyVerif.C13.%s" % (fn, "bytesTail" if kind == "b" else "uniTail"),
                              "%s%s: model %s impl %s" % (fn, argsrc[:200], m, impl), rep)


def run_window(ctx, so, orc):
    """decode_bytes / decode_bytearray / decode_c_string / PyUnicode_Substring start-stop logic"""
    rng = ctx.rng
    edge = [0, 1, 2, 3, 5, 8, -1, -2, -3, -5, -8, MAX, MAX - 1, MIN, MIN + 1, 2 ** 40, -2 ** 40]
    cases = []
    texts = ["", "a", "ab", "abc\xe9", "h€llo w", "\U0001f600xy", "abcdefgh"]
    for _ in range(ctx.n(1500, 10000)):
        n = rng.choice((0, 1, 2, 3, 5, 8))
        bs = bytes(rng.randrange(1, 256) for _ in range(n))
        s = rng.choice(edge) if rng.random() < 0.4 else rng.randrange(-n - 2, n + 3)
        e = rng.choice(edge) if rng.random() < 0.4 else rng.randrange(-n - 2, n + 3)
        r = rng.random()
        if r < 0.25:
            cases.append(("dec_b", "decb", bs, s, e, "(%r, %d, %d)" % (bs, s, e)))
        elif r < 0.33:
            cases.append(("dec_b8", None, bs, s, e, "(%r, %d, %d)" % (bs, s, e)))
        elif r < 0.41:
            cases.append(("dec_bs", "decb", bs, s, MAX, "(%r, %d)" % (bs, s)))
        elif r < 0.49:
            cases.append(("dec_be", "decb", bs, 0, e, "(%r, %d)" % (bs, e)))
        elif r < 0.57:
            so_, eo = rng.choice([s, None, "IX(%d)" % max(min(s, 99), -99)]), rng.choice([e, None])
            cases.append(("dec_bo", None, bs, s, e, "(%r, %s, %s)" % (bs, so_, eo)))
        elif r < 0.70:
            cases.append(("dec_ba", "decb", bs, s, e, "(bytearray(%r), %d, %d)" % (bs, s, e)))
        elif r < 0.80:
            # char*: only inside the C contract (start, stop <= strlen)
            s2 = s if s <= n else rng.randrange(-n - 2, n + 1)
            e2 = e if e <= n else rng.randrange(-n - 2, n + 1)
            cases.append(("dec_cs", "decs", bs, s2, e2, "(%r, %d, %d)" % (bs, s2, e2)))
        else:
            u = rng.choice(texts)
            s3 = s if abs(s) > 100 else rng.randrange(-len(u) - 2, len(u) + 3)
            e3 = e if abs(e) > 100 else rng.randrange(-len(u) - 2, len(u) + 3)
            f = rng.choice(("substr", "substr", "substr_s", "substr_e"))
            if f == "substr":
                cases.append((f, "substr", u, s3, e3, "(%r, %d, %d)" % (u, s3, e3)))
            elif f == "substr_s":
                cases.append((f, "substr", u, s3, MAX, "(%r, %d)" % (u, s3)))
            else:
                cases.append((f, "substr", u, 0, e3, "(%r, %d)" % (u, e3)))
    outs = _run_cases(ctx, so, [(c[0], c[5]) for c in cases])
    lines, idxs = [], []
    for k, (fn, mk, data, s, e, argsrc) in enumerate(cases):
        if mk:
            lines.append("C13 win %s %d %d %d" % (mk, len(data), s, e))
            lines.append("C13 win py %d %d %d" % (len(data), s, e))
            idxs.append(k)
    mout = ctx.drv.batch(lines) if lines else []
    model = {k: (mout[2 * j], mout[2 * j + 1]) for j, k in enumerate(idxs)}

    def expect(m, data):
        if m == "ok empty":
            return "ok str:''"
        _, off, n = m.split()
        piece = data[int(off):int(off) + int(n)]
        return "ok str:" + repr(piece.decode("latin-1") if isinstance(piece, bytes) else piece)
    for k, (fn, mk, data, s, e, argsrc) in enumerate(cases):
        impl = outs[k]
        if impl == "skipped":
            continue
        want = orc.call(fn, argsrc)
        ctx.count("window/" + fn)
        ctx.seen(("win", fn, argsrc))
        rep = {"group": "window", "func": fn, "args": argsrc[:300], "impl": impl, "oracle": want}
        if impl != want:
            ctx.violation("window-%s" % fn, "%s%s -> %s, CPython %s" % (fn, argsrc[:200], impl[:80], want[:80]), rep)
        if k in model:
            m, pym = model[k]
            if expect(pym, data) != want:
                ctx.tie_break("pyWindow (reference slice semantics in Lean) vs CPython", "%s%s: spec %s CPython %s" % (fn, argsrc[:150], pym, want[:80]), rep)
            if expect(m, data) != impl:
                ctx.tie_break("D-c %s vs CyVerif.C13 window model %s" % (fn, mk), "%s%s: model %s impl %s" % (fn, argsrc[:150], m, impl[:80]), rep)


def run_list(ctx, so, orc):
    rng = ctx.rng
    cases = []
    for _ in range(ctx.n(700, 4000)):
        n, a, p = rng.choice((0, 1, 2, 3, 4, 5, 8, 9, 16, 17)), rng.choice((0, 0, 1, 2, 5)), rng.choice((0, 0, 1, 3, 6))
        ops = []
        for _ in range(rng.randrange(1, 14)):
            r = rng.random()
            if r < 0.3:
                ops.append(("a", rng.randrange(200, 300)))
            elif r < 0.6:
                ops.append(("p",))
            else:
                ops.append(("i", rng.choice([0, -1, 1, -2, 2, 5, -5, MAX, MIN, rng.randrange(-20, 20)])))
        cases.append(("hist", (n, a, p), ops, "(mk(%d, %d, %d), %r)" % (n, a, p, ops)))
    outs = _run_cases(ctx, so, [(c[0], c[3]) for c in cases])
    lines, idxs = [], []
    for k, (fn, mkargs, ops, argsrc) in enumerate(cases):
        m = re.match(r"ok tuple:\[int:(\d+);", outs[k])
        if not m:
            continue
        l0 = orc.env["mk"](*mkargs)
        optxt = ";".join("a%d" % o[1] if o[0] == "a" else "p" if o[0] == "p" else "i%d" % o[1] for o in ops)
        lines.append("C13 list %s %s %s" % (m.group(1), nats(l0), optxt))
        idxs.append(k)
    mout = ctx.drv.batch(lines) if lines else []
    model = dict(zip(idxs, mout))
    for k, (fn, mkargs, ops, argsrc) in enumerate(cases):
        impl = outs[k]
        if impl == "skipped":
            continue
        want = orc.call(fn, argsrc)
        ctx.count("list/hist")
        ctx.seen(("hist", argsrc))
        rep = {"group": "list", "func": fn, "args": argsrc[:400], "impl": impl[:300], "oracle": want[:300]}
        if k % 211 == 0:
            ctx.sample({"fn": fn, "args": argsrc[:100], "impl": impl[:100], "model": model.get(k, "-")[:100]})
        if impl != want:
            ctx.violation("list-pop-append-history", "hist%s -> %s, CPython %s" % (argsrc[:150], impl[:100], want[:100]), rep)
        if k in model:
            m = model[k]
            mm = re.match(r"ok tuple:\[int:(\d+);list:\[(.*)\];list:\[(.*)\]\]$", impl)
            if m.startswith("ub"):
                ctx.tie_break("list model reports UB (contradicts listOps_refine)", argsrc[:200], rep)
            elif mm:
                obs = ",".join(x.split(":", 1)[1].strip("'") for x in mm.group(2).split(";")) if mm.group(2) else ""
                items = ".".join(x.split(":")[1] for x in mm.group(3).split(";")) if mm.group(3) else "-"
                if m != "ok %s|%s" % (obs, items):
                    ctx.tie_break("D-c hist (list.pop/pop(i)/append fast paths) vs CyVerif.C13.pyxRun",
                                  "%s: model %s impl %s" % (argsrc[:150], m[:100], impl[:100]), rep)
            else:
                ctx.tie_break("D-c hist outcome not parseable", impl[:100], rep)
    # single calls: index types, receivers (2-way + oracle)
    singles = []
    lsts = ["[1, 2, 3]", "[]", "[7]", "mk(4, 3, 5)", "mk(9, 0, 5)", "None"]
    objs = lsts + ["LS([1, 2])", "{1: 2}", "{1, }", "bytearray(b'ab')", "(1, 2)", "5"]
    idxo = ["0", "-1", "2", "-3", "3", "2**70", "-2**70", "None", "1.5", "'a'", "IX(1)", "IX(-9)", "True", str(MAX), str(MIN)]
    for l in lsts:
        singles += [("l_pop", "(%s,)" % l), ("l_pop_c0", "(%s,)" % l), ("l_pop_cm2", "(%s,)" % l), ("l_app", "(%s, 5)" % l)]
        singles += [("l_pop_o", "(%s, %s)" % (l, i)) for i in idxo]
        singles += [("l_pop_int", "(%s, %d)" % (l, i)) for i in (0, -1, 1, -2, 5, 2 ** 31 - 1, -2 ** 31)]
        singles += [("l_pop_ssz", "(%s, %d)" % (l, i)) for i in (0, -1, 2, MAX, MIN)]
        singles += [("l_pop_ull", "(%s, %d)" % (l, i)) for i in (0, 1, 2, 2 ** 63 - 1, 2 ** 63, 2 ** 64 - 1)]
        singles += [("l_pop_uc", "(%s, %d)" % (l, i)) for i in (0, 1, 255)]
    for o in objs:
        singles += [("o_pop", "(%s,)" % o), ("o_app", "(%s, 5)" % o)]
        singles += [("o_pop_o", "(%s, %s)" % (o, i)) for i in idxo[:9]]
        singles += [("o_pop_int", "(%s, %d)" % (o, i)) for i in (0, -1, 1, 5)]
    singles += [("hist_o", "(%s, %r)" % (o, [("a", 1), ("p",), ("i", 0), ("i", -1), ("p",), ("p",)])) for o in objs]
    outs = _run_cases(ctx, so, singles)
    for (fn, argsrc), impl in zip(singles, outs):
        if impl == "skipped":
            continue
        want = orc.call(fn, argsrc)
        ctx.count("list/" + fn)
        ctx.seen(("single", fn, argsrc))
        if impl != want:
            ctx.violation("list-%s-%s" % (fn, impl.split(":")[0].replace(" ", "_")), "%s%s -> %s, CPython %s" % (fn, argsrc[:150], impl[:100], want[:100]),
                          {"group": "list", "func": fn, "args": argsrc, "impl": impl[:300], "oracle": want[:300]})


def mv_token(src):
    """argument source -> min/max model token"""
    if src == "nan":
        return "n"
    if src == "X()":
        return "x"
    if src.startswith("fs("):
        return "s" + src[3:-1]
    if src.startswith("Boom("):
        return "!" + src[5:-1]
    return "i" + src


def mv_canon(tok):
    if tok == "n":
        return "float:nan"
    if tok == "x":
        return "X:X"
    if tok[0] == "s":
        return "frozenset:" + repr(frozenset(i for i in range(8) if int(tok[1:]) >> i & 1))
    return "int:" + tok[1:]


def run_num(ctx, so, so_oc, orc):
    rng = ctx.rng
    cases = []          # (fn, argsrc, model_line or None, expect(model_out)->canonical or None)
    # ---- abs
    W = {"abs_i": 32, "abs_l": 64, "abs_ll": 64}
    for fn, w in list(W.items()) + [("abs_s", 16), ("abs_sc", 8), ("abs_ss", 64)]:
        lo, hi = -2 ** (w - 1), 2 ** (w - 1) - 1
        vals = [lo, lo + 1, lo + 2, -2, -1, 0, 1, 2, hi - 1, hi] + [rng.randint(lo, hi) for _ in range(ctx.n(30, 400))]
        for v in vals:
            cases.append((fn, "(%d,)" % v, ("C13 abs 0 %d %d" % (w, v)) if fn in W else None, "abs"))
    for v in (0, 1, 5, 2 ** 32 - 1):
        cases.append(("abs_ui", "(%d,)" % v, None, None))
    for v in (0, 2 ** 64 - 1):
        cases.append(("abs_ul", "(%d,)" % v, None, None))
    for v in ("-0.0", "nan", "-inf", "-2.5", "1e308"):
        cases.append(("abs_d", "(%s,)" % v, None, None))
    for v in ("-5", "-2**63", "-2**64", "2**30", "-2**30", "-(2**30)+1", "-2**60", "-1", "0", "True", "-1.5", "X()", "None", "'a'", "-3+4j", "-2**31", "-2**62", "-2**120"):
        cases.append(("abs_o", "(%s,)" % v, None, None))
    # ---- ord / chr
    for fn in ("ord_o", "ord_u", "ord_b"):
        for a, kind, vals in (("'a'", "str", [97]), ("'\\u20ac'", "str", [8364]), ("'\\U0001f600'", "str", [128512]), ("'ab'", "str", [97, 98]), ("''", "str", []),
                              ("SS('z')", "str", [122]), ("SS('zz')", "str", [122, 122]),
                              ("b'a'", "bytes", [97]), ("b'\\xff'", "bytes", [255]), ("b''", "bytes", []), ("b'ab'", "bytes", [97, 98]), ("BS(b'q')", "bytes", [113]),
                              ("bytearray(b'a')", "bytearray", [97]), ("bytearray(b'')", "bytearray", []), ("bytearray(b'abc')", "bytearray", [97, 98, 99]),
                              ("5", "other", []), ("None", "other", []), ("[1]", "other", []), ("memoryview(b'a')", "other", []), ("1.5", "other", [])):
            typed_ok = fn == "ord_o" or (fn == "ord_u" and kind == "str" and not a.startswith("SS")) or (fn == "ord_b" and kind == "bytes" and not a.startswith("BS")) or a == "None"
            ml = "C13 ord %%d %s %s" % (kind, nats(vals)) if (fn == "ord_o" or (typed_ok and a != "None")) else None
            cases.append((fn, "(%s,)" % a, ml, "ord"))
    for fn, w, sg in (("chr_i", 32, 1), ("chr_l", 64, 1), ("chr_ll", 64, 1), ("chr_s", 16, 1), ("chr_ui", 32, 0)):
        lo, hi = (-2 ** (w - 1), 2 ** (w - 1) - 1) if sg else (0, 2 ** w - 1)
        vals = {0, 1, 65, 127, 128, 255, 256, 0xd7ff, 0xd800, 0xdfff, 0xffff, 0x10000, 0x10ffff, 0x110000, -1, lo, hi, 2 ** 31 - 1, 2 ** 31, -2 ** 31, -2 ** 31 - 1,
                2 ** 32, 2 ** 32 + 65, 2 ** 40, -2 ** 40}
        vals |= {rng.randrange(0, 0x110000) for _ in range(ctx.n(15, 200))}
        for v in sorted(x for x in vals if lo <= x <= hi):
            cases.append((fn, "(%d,)" % v, "C13 chr %d" % v, "chr"))
    for v in ("65", "0x10ffff", "0x110000", "-1", "2**31", "2**70", "-2**70", "1.5", "'a'", "None", "IX(66)", "True"):
        cases.append(("chr_o", "(%s,)" % v, None, None))
    # ---- min / max
    vals = ["3", "1", "2", "1", "-5", "7", "fs(1)", "fs(3)", "fs(4)", "fs(5)", "fs(7)", "fs(0)", "nan", "X()"]
    for _ in range(ctx.n(500, 4000)):
        k = rng.choice((2, 2, 3, 3, 4))
        pool = rng.choice(([v for v in vals if v[0] != "f" and v != "X()"], [v for v in vals if v[0] == "f"], vals))
        args = [rng.choice(pool) for _ in range(k)]
        op = rng.choice(("mn", "mx"))
        ml = "C13 mm %%d %s %s" % ("min" if op == "mn" else "max", " ".join(mv_token(a) for a in args))
        cases.append(("%s%d" % (op, k), "(%s)" % ", ".join(args), ml, "mm"))
        if k == 3 and op == "mn" and rng.random() < 0.3:
            cases.append(("mns3", "(%s)" % ", ".join(args), ml, "mm"))
        if k == 2 and op == "mx" and rng.random() < 0.3:
            cases.append(("mxs2", "(%s)" % ", ".join(args), ml, "mm"))
    booms = ["Boom(KeyError)", "Boom(ValueError)", "Boom(ZeroDivisionError)"]
    for _ in range(ctx.n(200, 1500)):
        fn, k = rng.choice((("mnf2", 2), ("mnf3", 3), ("mxf3", 3)))
        args = [rng.choice(booms) if rng.random() < 0.35 else rng.choice(vals) for _ in range(k)]
        ml = "C13 mm %%d %s %s" % ("min" if fn[1] == "n" else "max", " ".join(mv_token(a) for a in args))
        cases.append((fn, "(%s)" % ", ".join(args), ml, "mmf"))
    fl = ["0.0", "-0.0", "1.5", "-2.5", "nan", "inf", "-inf"]
    for a in fl:
        for b in fl:
            cases += [("mn_dd", "(%s, %s)" % (a, b), None, None), ("mx_dd", "(%s, %s)" % (a, b), None, None)]
            cases.append(("mn_ddd", "(%s, %s, %s)" % (a, b, rng.choice(fl)), None, None))
    for a in (-2 ** 31, -1, 0, 1, 2 ** 31 - 1):
        for b in (-2 ** 31, -1, 0, 1, 2 ** 31 - 1):
            cases += [("mn_ii", "(%d, %d)" % (a, b), None, None), ("mx_ll", "(%d, %d)" % (a * 2 ** 32, b), None, None)]
    cases += [("mn_id", "(1, 2.0)", None, None), ("mn_id", "(3, 2.0)", None, None), ("mn_id", "(1, nan)", None, None)]
    outs = _run_cases(ctx, so, [(c[0], c[1]) for c in cases])
    # behavioural variant detection
    def one(fn, a):
        return _run_cases(ctx, so, [(fn, a)])[0]
    probe = one("mnf2", "(1, 2)")
    mm_fixed = 1 if probe.endswith("list:[int:0;int:1]]") else 0 if probe.endswith("list:[int:1;int:0]]") else None
    probe2 = one("ord_o", "('ab',)")
    ord_fixed = 1 if probe2 == "err TypeError" else 0 if probe2 == "err ValueError" else None
    ctx.notes.setdefault("variants", {}).update({"minmax_argument_order": {1: "left-to-right (repaired)", 0: "e1..e(n-1), e0 (code as it is)", None: "unknown: " + probe[:60]}[mm_fixed],
                             "ord_str_length": {1: "TypeError (repaired)", 0: "ValueError (code as it is)", None: "unknown: " + probe2[:40]}[ord_fixed]})
    if mm_fixed is None:
        ctx.tie_break("min/max argument evaluation order matches neither model variant", probe[:100], {"probe": "mnf2(1, 2)", "impl": probe})
    if ord_fixed is None:
        ctx.tie_break("ord('ab') matches neither model variant", probe2[:100], {"probe": "ord_o('ab')", "impl": probe2})
    lines, idxs = [], []
    for k, (fn, argsrc, ml, grp) in enumerate(cases):
        if ml:
            if grp in ("mm", "mmf"):
                ml = ml % (mm_fixed or 0)
            elif grp == "ord":
                ml = ml % (ord_fixed or 0)
            lines.append(ml)
            idxs.append(k)
    mout = ctx.drv.batch(lines) if lines else []
    model = dict(zip(idxs, mout))
    for k, (fn, argsrc, ml, grp) in enumerate(cases):
        impl = outs[k]
        if impl == "skipped":
            continue
        want = orc.call(fn, argsrc)
        ctx.count("num/" + fn)
        ctx.seen(("num", fn, argsrc))
        rep = {"group": "num", "func": fn, "args": argsrc[:300], "impl": impl[:200], "oracle": want[:200]}
        if k % 173 == 0:
            ctx.sample({"fn": fn, "args": argsrc[:80], "impl": impl[:80], "oracle": want[:80], "model": model.get(k, "-")[:80]})
        if impl != want and impl == "err TypeError" and fn in ("ord_u", "ord_b") and argsrc[1:-2] not in ("None",) and \
                not re.match(r"^\(b'[^']*',\)$" if fn == "ord_b" else r"^\('[^']*',\)$", argsrc):
            ctx.count("num/typed-argument-rejected-by-exact-type-rule")
            continue
        if impl != want:
            if fn in W and re.search(r"-\d+,\)$", argsrc) and int(argsrc[1:-2]) == -2 ** (W[fn] - 1):
                key = "abs-cint-most-negative"
            elif fn.startswith("ord") and impl == "err ValueError" and want == "err TypeError":
                key = "ord-str-length-valueerror"
            elif fn.startswith("chr_") and fn != "chr_o" and want == "err OverflowError":
                key = "chr-cint-wider-than-int-truncated"
            elif grp == "mmf":
                key = "minmax-argument-evaluation-order"
            elif fn == "mn_id":
                key = "minmax-mixed-c-types-result-type"
            elif fn == "chr_o" and argsrc == "(1.5,)":
                key = "chr-float-accepted"
            else:
                key = "num-%s-%s" % (fn, impl.split(":")[0].replace(" ", "_"))
            ctx.violation(key, "%s%s -> %s, CPython %s" % (fn, argsrc[:150], impl[:100], want[:100]), rep)
        if k in model:
            m = model[k]
            if m.startswith("ub "):
                ctx.count("num/model-ub")
                continue
            if grp == "abs" or grp == "chr":
                exp = m if m.startswith("err") else ("ok int:" + m[3:] if grp == "abs" else "ok str:" + repr(chr(int(m[3:]))))
            elif grp == "ord":
                exp = m if m.startswith("err") else "ok int:" + m[3:]
                if fn != "ord_o" and want.startswith("err") and impl == want and exp != impl and "None" in argsrc:
                    continue
            elif grp == "mm":
                r = m.split(" log=")[0]
                exp = r if r.startswith("err") else "ok " + mv_canon(r[3:])
            else:   # mmf
                r, lg = m.split(" log=")
                lgc = "list:[" + ";".join("int:" + x for x in lg.split(".")) + "]"
                exp = "ok tuple:[str:'err';str:'%s';%s]" % (r[4:], lgc) if r.startswith("err") else "ok tuple:[str:'ok';%s;%s]" % (mv_canon(r[3:]), lgc)
            if exp != impl:
                ctx.tie_break("D-c %s vs CyVerif.C13 model (%s)" % (fn, grp), "%s%s: model %s impl %s" % (fn, argsrc[:150], m[:80], impl[:100]), rep)
    # overflowcheck=True variant of abs
    oc_cases = []
    for fn, w in W.items():
        lo, hi = -2 ** (w - 1), 2 ** (w - 1) - 1
        for v in [lo, lo + 1, -1, 0, 1, hi] + [rng.randint(lo, hi) for _ in range(ctx.n(10, 200))]:
            oc_cases.append((fn, "(%d,)" % v, "C13 abs 1 %d %d" % (w, v), v, w))
    outs = _run_cases(ctx, so_oc, [(c[0], c[1]) for c in oc_cases])
    mout = ctx.drv.batch([c[2] for c in oc_cases])
    for (fn, argsrc, _, v, w), impl, m in zip(oc_cases, outs, mout):
        if impl == "skipped":
            continue
        want = "ok int:%d" % abs(v) if abs(v) < 2 ** (w - 1) else "err OverflowError"
        ctx.count("num/overflowcheck/" + fn)
        ctx.seen(("absoc", fn, v))
        exp = m if m.startswith("err") else "ok int:" + m[3:]
        rep = {"group": "abs-overflowcheck", "func": fn, "args": argsrc, "impl": impl, "oracle": want}
        if impl != want:
            ctx.violation("abs-overflowcheck-%s" % fn, "overflowcheck=True %s%s -> %s, expected %s" % (fn, argsrc, impl, want), rep)
        if exp != impl:
            ctx.tie_break("D-c %s (overflowcheck=True) vs CyVerif.C13.cAbs true" % fn, "%s: model %s impl %s" % (argsrc, m, impl), rep)


def run_dict(ctx, so, orc):
    rng = ctx.rng
    dicts = ["{}", "{1: 'a', 'k': 2}", "{(1, 2): 3}", "{BadEq(7): 1}", "dict.fromkeys(range(9), 0)", "None"]
    keys = ["1", "'k'", "'zz'", "(1, 2)", "[]", "{}", "BadHash()", "BadEq(7)", "1.0", "True", "None", "SS('k')", "2**70", "nan"]
    dfl = ["None", "0", "'d'", "[]"]
    cases = []
    for d in dicts:
        for k in keys:
            v = rng.choice(dfl)
            cases += [("d_get", "(%s, %s, %s)" % (d, k, v)), ("d_get2", "(%s, %s)" % (d, k)), ("d_sd", "(%s, %s, %s)" % (d, k, v)),
                      ("d_sd2", "(%s, %s)" % (d, k)), ("d_pop", "(%s, %s, %s)" % (d, k, v)), ("d_pop2", "(%s, %s)" % (d, k)),
                      ("d_pop_ign", "(%s, %s, %s)" % (d, k, v))]
    for d in ["{1: 2}", "DS({1: 2})", "None", "5", "[1, 2]", "{1, 2}"]:
        for k in ("1", "3", "[]"):
            cases += [("o_get", "(%s, %s, 'd')" % (d, k)), ("o_sd", "(%s, %s, 'd')" % (d, k)), ("o_pop3", "(%s, %s, 'd')" % (d, k))]
    cases += [("d_get", "(DS({1: 2}), 1, 0)"), ("d_pop", "(DS({1: 2}), 1, 0)"), ("d_sd", "(DS({1: 2}), 1, 0)")]
    outs = _run_cases(ctx, so, cases)
    lines, idxs = [], []
    for k, (fn, argsrc) in enumerate(cases):
        if fn in ("d_get", "d_get2", "d_pop", "d_pop2") and not argsrc.startswith(("(None", "(DS")):
            # probe outcome computed on CPython: found / missing / error
            try:
                args = eval(argsrc, dict(orc.env))
                sentinel = object()
                try:       # outcome of CPython's own probe for this operation (an empty dict is not hashed by pop)
                    got = dict.get(args[0], args[1], sentinel) if "get" in fn else dict.pop(dict(args[0]), args[1], sentinel)
                    look = "m" if got is sentinel else "f" + repr(got).replace(" ", "_")
                except Exception as e:
                    look = "e" + type(e).__name__
            except Exception:
                continue
            d = repr(args[2]).replace(" ", "_") if len(args) > 2 else ("None" if "get" in fn else "NULL")
            lines.append("C13 %s %s %s" % ("dget" if "get" in fn else "dpop", look, d))
            idxs.append(k)
    mout = ctx.drv.batch(lines) if lines else []
    model = dict(zip(idxs, mout))
    for k, (fn, argsrc) in enumerate(cases):
        impl = outs[k]
        if impl == "skipped":
            continue
        want = orc.call(fn, argsrc)
        ctx.count("dict/" + fn)
        ctx.seen(("dict", fn, argsrc))
        rep = {"group": "dict", "func": fn, "args": argsrc, "impl": impl[:200], "oracle": want[:200]}
        if impl != want and impl == "err TypeError" and argsrc.startswith("(DS(") and fn.startswith("d_"):
            ctx.count("dict/typed-argument-rejected-by-exact-type-rule")     # no bypass of the override: the subclass never gets in
            continue
        if impl != want and "nan" not in argsrc:
            ctx.violation("dict-%s-%s" % (fn, impl.split(":")[0].replace(" ", "_")), "%s%s -> %s, CPython %s" % (fn, argsrc[:150], impl[:100], want[:100]), rep)
        if k in model:
            m = model[k].replace(" removed", "").replace(" kept", "")
            # first component of the returned pair
            if m.startswith("err"):
                ok = impl == m
            else:
                ok = impl.startswith("ok tuple:[") and impl[len("ok tuple:["):].split(":", 1)[1].replace(" ", "_").startswith(m[3:])
            if not ok:
                ctx.tie_break("D-c %s vs CyVerif.C13 dict helper model" % fn, "%s%s: model %s impl %s" % (fn, argsrc[:120], model[k], impl[:100]), rep)


def run_misc(ctx, so, orc):
    cases = [(n, a if a.startswith("(") and a.endswith(")") and p.count(",") else "(%s,)" % a) for n, p, e, args in MISC for a in args]
    outs = _run_cases(ctx, so, cases)
    for (fn, argsrc), impl in zip(cases, outs):
        if impl == "skipped":
            continue
        want = orc.call(fn, argsrc)
        ctx.count("misc/" + fn)
        ctx.seen(("misc", fn, argsrc))
        if impl != want and "nan" not in impl and "iter(" not in argsrc:
            ctx.violation(_cls_misc(fn, argsrc, impl, want), "%s%s -> %s, CPython %s" % (fn, argsrc[:150], impl[:100], want[:100]),
                          {"group": "misc", "func": fn, "args": argsrc, "impl": impl[:300], "oracle": want[:300]})


EXPECT_C = {   # handler selection: the specialised helper must appear in the generated C of the module
    "c13str": ["__Pyx_PyBytes_Tailmatch(", "__Pyx_PyUnicode_Tailmatch(", "__Pyx_decode_bytes(", "__Pyx_decode_bytearray(",
               "__Pyx_decode_c_string(", "__Pyx_PyUnicode_Substring("],
    "c13list": ["__Pyx_PyList_Pop(", "__Pyx_PyList_PopIndex(", "__Pyx_PyObject_Pop(", "__Pyx_PyObject_PopIndex(", "__Pyx_PyList_Append(",
                "__Pyx_PyObject_Append("],
    "c13num": ["__Pyx_abs_longlong(", "labs(", "__Pyx_PyNumber_Absolute(", "__Pyx_PyObject_Ord(", "PyUnicode_FromOrdinal("],
    "c13dict": ["__Pyx_PyDict_GetItemDefault(", "__Pyx_PyDict_SetDefault(", "__Pyx_PyDict_Pop(", "__Pyx_PyDict_Pop_ignore("],
}


def run(ctx):
    import os
    ctx.rule = ("one compiled function per replaced call x typed/untyped receiver; arguments: (tailmatch) random strings over small "
                "alphabets incl. NUL/0xff and UCS1/2/4 code points, prefixes that are real affixes / near misses / empty / tuples with "
                "wrong-typed items / buffers, start/end from -9..9, None, +-PY_SSIZE_T_MAX and neighbours, beyond-ssize ints; (decode/"
                "substring) all small windows + extreme bounds; (list) histories of append/pop/pop(i) on lists whose capacity is read with "
                "sys.getsizeof and fed to the model; (abs/chr) all width boundaries + random; (min/max) 2-4 arguments from ints, frozensets "
                "(partial order), NaN, unorderable objects, raising argument expressions with an evaluation log; (dict) present/missing/"
                "unhashable/raising-__eq__ keys; non-trivial = every case (distinct by function and argument source)")
    ctx.explanation = ("Theorems cover ONLY the helpers that re-implement logic: bytes/str startswith/endswith index logic, decode/substring "
                       "start-stop normalisation, list pop/pop(i)/append fast paths over a capacity model, abs of C integers, min/max "
                       "unrolling (comparison order, winner on ties, evaluation order), ord/chr range logic, dict get/pop decision logic. "
                       "All other replaced calls (len, sum, any/all, sorted, reversed, isinstance, int/float/bool/str/list/tuple/set/"
                       "frozenset/dict/bytes constructors, list/set/dict/bytearray/str/bytes methods, getattr/hasattr, iter/next, divmod, "
                       "pow, round, str predicates, find/count/replace/split/join/encode/decode ...) delegate to CPython's C-API; for them the "
                       "two-way differential run against CPython on generated argument classes is the ONLY evidence (no theorem). "
                       "setdefault is a pure delegate (differential only). Reference-count correctness is not modelled.")
    ctx.assumptions = ["LP64: Py_ssize_t is 64 bit (PY_SSIZE_T_MAX = 2**63-1)", "len(self) + len(prefix) <= PY_SSIZE_T_MAX (both live in one address space)",
                       "list capacity observed through sys.getsizeof (8-byte slots)"]
    rp = getattr(ctx, "replay_case", None)
    tail_fixed = detect_variants(ctx)
    ctx.notes.setdefault("variants", {})
    specs = [dict(name="c13str", source=SRC_STR), dict(name="c13list", source=SRC_LIST), dict(name="c13num", source=SRC_NUM),
             dict(name="c13numoc", source=SRC_NUM, directives={"overflowcheck": True}),
             dict(name="c13dict", source=SRC_DICT), dict(name="c13misc", source=SRC_MISC)]
    if not ctx.quick:
        specs += [dict(name="c13str", source=SRC_STR, opt="-O2"), dict(name="c13list", source=SRC_LIST, opt="-O2"), dict(name="c13num", source=SRC_NUM, opt="-O2")]
    sos = cybuild.build_many(ctx, specs)
    for sp, so in zip(specs, sos):
        if isinstance(so, cybuild.BuildError):
            ctx.tie_break("D-c build of %s" % sp["name"], so.stage + ": " + so.log[-300:], {"module": sp["name"]})
    if any(isinstance(so, cybuild.BuildError) for so in sos):
        return
    by = {}
    for sp, so in zip(specs, sos):
        by.setdefault(sp["name"], []).append(so)
    for name, needles in EXPECT_C.items():
        ctext = open(os.path.join(os.path.dirname(by[name][0]), name + ".c")).read()
        missing = [n for n in needles if n not in ctext]
        ctx.obligation("handler-selection-" + name, not missing, "specialised helpers present in the generated C: " + (", ".join(needles) if not missing else "MISSING " + ", ".join(missing)))
        if missing:
            ctx.budget_scale = max(ctx.budget_scale, 3.0)
    orcs = {"c13str": Oracle(SRC_STR), "c13list": Oracle(SRC_LIST), "c13num": Oracle(SRC_NUM), "c13dict": Oracle(SRC_DICT), "c13misc": Oracle(SRC_MISC)}
    if rp:
        c = rp.get("case", rp)
        grp = {"tail": "c13str", "window": "c13str", "list": "c13list", "num": "c13num", "abs-overflowcheck": "c13numoc", "dict": "c13dict", "misc": "c13misc"}.get(c.get("group"))
        if grp and "func" in c and "args" in c:
            impl = _run_cases(ctx, by[grp][0], [(c["func"], c["args"])])[0]
            want = orcs[grp if grp != "c13numoc" else "c13num"].call(c["func"], c["args"])
            ctx.count("replay")
            ctx.seen(("replay", c["func"], c["args"]))
            if impl != want:
                ctx.violation(rp.get("key", "replay"), "%s%s -> %s, CPython %s" % (c["func"], c["args"][:150], impl[:100], want[:100]), c)
            return
    ctx.notes["variants"]["bytes_tailmatch_compare"] = {1: "sub_len <= end - start (repaired)", 0: "start + sub_len <= end (code as it is)",
                                                        None: "unknown"}[tail_fixed]
    if tail_fixed is None:
        ctx.tie_break("bytes tailmatch final comparison matches neither model variant (translator)", "section bytes_tailmatch of StringTools.c", {})
    # the counterexample witnesses of Props/C13 replayed on the real code are the first cases of each group
    for i, so in enumerate(by["c13str"]):
        run_tail(ctx, so, orcs["c13str"], tail_fixed)
        run_window(ctx, so, orcs["c13str"])
    for so in by["c13list"]:
        run_list(ctx, so, orcs["c13list"])
    for so in by["c13num"]:
        run_num(ctx, so, by["c13numoc"][0], orcs["c13num"])
    run_dict(ctx, by["c13dict"][0], orcs["c13dict"])
    run_misc(ctx, by["c13misc"][0], orcs["c13misc"])

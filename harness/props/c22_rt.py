"""Runtime support imported by the generated C22 test modules (always plain CPython code, in both legs):
exception classes that register their instances, the world `W` (object identities, event log, snapshots),
scripted context managers, and the three calling conventions (plain / inside a handler / from a generator frame)."""
import sys

_CUR = [None]


class E0(Exception):
    def __init__(self, *a):
        Exception.__init__(self, *a)
        if _CUR[0] is not None:
            _CUR[0].objs.append(self)


class E1(E0):
    pass


class E2(E0):
    pass


class E3(Exception):
    def __init__(self, *a):
        Exception.__init__(self, *a)
        if _CUR[0] is not None:
            _CUR[0].objs.append(self)


CLS = [E0, E1, E2, E3]


class W:
    def __init__(self, classes):
        self.objs = []
        self.ev = []
        _CUR[0] = self
        for c in classes:
            CLS[c]()
        self.X = list(self.objs)

    def ident(self, e):
        if e is None:
            return None
        for i, o in enumerate(self.objs):
            if o is e:
                return i
        self.objs.append(e)
        return len(self.objs) - 1

    def cls_of(self, e):
        for i, c in enumerate(CLS):
            if type(e) is c:
                return i
        return 100 if type(e) is RuntimeError else 101

    def snap(self, roots=()):
        for r in roots:
            self.ident(r)
        out = {}
        i = 0
        while i < len(self.objs):      # grows while unknown objects are discovered
            o = self.objs[i]
            out[i] = [self.cls_of(o), self.ident(o.__context__), self.ident(o.__cause__), bool(o.__suppress_context__)]
            i += 1
        return out

    def log(self, k):
        self.ev.append(["L", k])

    def probe(self, n):
        top = sys.exc_info()[1]
        self.ev.append(["P", self.ident(top), self.ident(n), self.snap()])

    def cm(self, er, ex):
        return CM(self, er, ex)


class CM:
    def __init__(self, w, er, ex):
        self.w, self.er, self.ex = w, er, ex

    def __enter__(self):
        self.w.ev.append(["E", self.w.ident(sys.exc_info()[1])])
        if self.er is not None:
            raise self.w.X[self.er]
        return self

    def __exit__(self, t, v, tb):
        self.w.ev.append(["X", self.w.ident(v), self.w.ident(sys.exc_info()[1])])
        if self.ex == "T":
            return True
        if self.ex == "F":
            return False
        raise self.w.X[self.ex]


def _call(f, w, s):
    try:
        r = f(w, s)
        return ["ret"] if r == 7 else ["norm"] if r is None else ["value", repr(r)[:40]]
    except SystemError:
        return ["SystemError"]
    except BaseException as e:
        return ["exc", w.ident(e)]


def run(f, classes, s, mode, j):
    """mode 0: plain call; 1: inside `except` handling X[j]; 2: from a generator frame resumed inside such a handler."""
    w = W(classes)
    if mode == 0:
        out = _call(f, w, s)
        slots = [w.ident(sys.exc_info()[1])]
    elif mode == 1:
        try:
            raise w.X[j]
        except BaseException:
            out = _call(f, w, s)
            slots = [w.ident(sys.exc_info()[1])]
    else:
        def gen():
            o = _call(f, w, s)
            t = sys.exc_info()[1]
            yield o, t
            yield sys.exc_info()[1]
        g = gen()
        try:
            raise w.X[j]
        except BaseException:
            out, t = next(g)
        cur = next(g)
        slots = [w.ident(cur), w.ident(t)]
    heap = w.snap()
    _CUR[0] = None
    return {"out": out, "slots": slots, "events": w.ev, "heap": heap}

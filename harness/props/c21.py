"""C21 — unbound locals fail exactly where CPython fails (verified validator + dynamic leg).

Legs, on every generated function (see c21_gen.py for the program distribution):
 A  I-art / V: the staged compiler is run in a child with FlowControl.check_definitions wrapped; the
    dumped flow graph, bit sets and node flags go to the Lean checker `C21 validate` (proved sound:
    Props/C21.lean) — it must answer `ok true`; and to the Lean model of the analysis `C21 analyse`,
    whose fixpoint and flags must equal the dumped ones (model == implementation).
 B  flags vs CPython: the same source runs under CPython for every selector vector; a read that
    raised UnboundLocalError/NameError must sit on a node flagged cf_maybe_null, a read that
    succeeded must not be flagged cf_is_null (this leg checks AST -> CFG construction against the
    reference semantics).
 C  D-c: the module compiled by the staged compiler (lenient mode, Options.error_on_uninitialized =
    False) and gcc runs the same vectors in a child; outcome (result / exception class / crash) and
    the log of values seen must equal CPython's.
"""
import concurrent.futures as cf
import hashlib
import json
import os
import re
import signal
import subprocess
import sys

import cybuild
import lib
from props import c21_child as c21child, c21_gen as c21gen

CAP = 300          # cap for strings that go into violation/tie_break/sample records


def cap(s, n=CAP):
    s = str(s)
    return s if len(s) <= n else s[:n] + "..."


# --------------------------------------------------------------------------
# building

def build(ctx, name, source, lenient=True, opt="-O0", want_so=True, directives=None):
    """-> dict(so=path|None, dump=dict|None, error=None|(stage, log))"""
    key = hashlib.sha256(json.dumps([name, source, lenient, opt, directives], sort_keys=True).encode()).hexdigest()[:16]
    d = os.path.join(ctx.scratch, "c21b", name + "_" + key)
    so = os.path.join(d, name + cybuild.EXT_SUFFIX)
    dumpf = os.path.join(d, "dump.json")
    os.makedirs(d, exist_ok=True)
    srcp = os.path.join(d, name + ".py")
    with open(srcp, "w") as f:
        f.write(source)
    env = lib._clean_env({"PYTHONPATH": ctx.stage})
    spec = {"src": srcp, "out": dumpf, "lenient": lenient, "directives": directives or {}}
    p = subprocess.run([lib.PYTHON, "-c", c21child.COMPILE_AND_DUMP, json.dumps(spec)], cwd=d, env=env,
                       stdout=subprocess.PIPE, stderr=subprocess.STDOUT, text=True, timeout=1200)
    dump = None
    if os.path.exists(dumpf):
        try:
            dump = json.load(open(dumpf))
        except ValueError:
            dump = None
    if p.returncode != 0:
        return {"so": None, "dump": dump, "error": ("cython", p.stdout[-8000:])}
    if not want_so:
        return {"so": None, "dump": dump, "error": None}
    cmd = ["gcc", opt, "-shared", "-fPIC", "-w", "-I" + cybuild.PYINC, "-I" + d, os.path.join(d, name + ".c"), "-o", so]
    p = subprocess.run(cmd, cwd=d, stdout=subprocess.PIPE, stderr=subprocess.STDOUT, text=True, timeout=1200)
    if p.returncode != 0:
        return {"so": None, "dump": dump, "error": ("cc", p.stdout[-2500:])}
    return {"so": so, "dump": dump, "error": None}


def build_all(ctx, specs, workers=12):
    def one(s):
        try:
            return build(ctx, **s)
        except subprocess.TimeoutExpired:
            return {"so": None, "dump": None, "error": ("timeout", "")}
    with cf.ThreadPoolExecutor(max_workers=workers) as ex:
        return list(ex.map(one, specs))


# --------------------------------------------------------------------------
# running

def chooser_file(ctx):
    p = os.path.join(ctx.scratch, "c21_chooser.py")
    if not os.path.exists(p):
        with open(p, "w") as f:
            f.write(c21gen.CHOOSER_SRC + c21child.RUN_ONE_SRC)
    return p


def run_compiled(ctx, so, cases, max_crashes=40, max_per_func=3):
    """cases: list of dict(f, s, a) -> list of outcomes (['ok', r, L] | ['err', E, L] | ['crash', SIG] | ['timeout'] |
    ['skipped']).  Every crash costs a child start: after `max_per_func` crashes the remaining vectors of that
    function, after `max_crashes` the rest of the module, are skipped (and counted)."""
    modname = os.path.basename(so).split(".")[0]
    runner = os.path.join(ctx.scratch, "c21_runner.py")
    if not os.path.exists(runner):
        with open(runner, "w") as f:
            f.write(c21child.RUNNER)
    env = lib._clean_env({"PYTHONPATH": ctx.stage})
    results = [None] * len(cases)
    crashes = {}
    total = 0
    while True:
        todo = []
        for i, c in enumerate(cases):
            if results[i] is None:
                if total >= max_crashes or crashes.get(c["f"], 0) >= max_per_func:
                    results[i] = ["skipped"]
                else:
                    todo.append(i)
        if not todo:
            break
        data = "".join(json.dumps(cases[i]) + "\n" for i in todo)
        try:
            p = subprocess.run([lib.PYTHON, runner, so, modname, chooser_file(ctx)], input=data, stdout=subprocess.PIPE,
                               stderr=subprocess.PIPE, text=True, env=env, timeout=120 + 0.02 * len(todo))
            out, rc, err = p.stdout.split("\n"), p.returncode, p.stderr
        except subprocess.TimeoutExpired as e:
            o = e.stdout.decode() if isinstance(e.stdout, bytes) else (e.stdout or "")
            out, rc, err = o.split("\n"), "timeout", ""
        got = []
        for l in out:
            if l.startswith("["):
                try:
                    got.append(json.loads(l))
                except ValueError:
                    break
        got = got[:len(todo)]
        for i, r in zip(todo, got):
            results[i] = r
        if len(got) >= len(todo):
            break
        # the case after the last completed one killed the child
        k = todo[len(got)]
        total += 1
        crashes[cases[k]["f"]] = crashes.get(cases[k]["f"], 0) + 1
        if rc == "timeout":
            results[k] = ["timeout"]
        elif isinstance(rc, int) and rc < 0:
            try:
                nm = signal.Signals(-rc).name
            except ValueError:
                nm = str(rc)
            results[k] = ["timeout"] if nm == "SIGALRM" else ["crash", nm]
        else:
            if not got and total == 1 and "Error" in err and "Traceback" in err:
                raise lib.Infra("C21 runner failed to start: " + err[-600:])
            results[k] = ["crash", "exit%s" % rc]
    return results


_UNB = re.compile(r"variable '([^']+)'|name '([^']+)'")


def run_oracle(ns, fname, s, nargs, filename, watch=None):
    """CPython on the same source: (outcome, events).  events, in order of occurrence:
    ('exc', line, var)  a NameError/UnboundLocalError was raised at `line` (also those the program catches);
    ('pre', line, var)  `line` (an assignment/del statement listed in `watch`) started while `var` was unbound."""
    canon = ns["canon"]
    L = []
    c = ns["Chooser"](list(s))
    events = []
    seen = set()
    keep = []
    last_exc = {}
    pending = {}
    open_with = set()
    watch = watch or {}

    def local(frame, event, arg):
        if event == "line":
            pend = pending.pop(id(frame), None)
            if pend and frame.f_lineno == pend[0] + 1:
                # the body of the `for` / `case` line was entered: its target binding has executed
                for v in pend[1]:
                    events.append(("pre", pend[0], v))
            vs = watch.get(frame.f_lineno)
            if vs:
                loc = frame.f_locals
                for v, kind, site in vs:
                    # the binding on this line executes: always / iff the pending exception is a ValueError /
                    # iff __enter__ of the context manager at selector `site` does not raise / iff the body is entered
                    if kind == "except" and not (last_exc.get(id(frame)) and issubclass(last_exc[id(frame)], ValueError)):
                        continue
                    if kind == "with":
                        # the `with` line is reported twice: on entry (target bound after __enter__) and again when
                        # the block is left (__exit__ call): only the entry is a binding
                        key = (id(frame), frame.f_lineno, v)
                        if key in open_with:
                            open_with.discard(key)
                            continue
                        if s[site] == 1:
                            continue
                        open_with.add(key)
                    if kind == "nul":
                        if v in loc:
                            events.append(("nul", frame.f_lineno, v))
                        continue
                    if v not in loc:
                        if kind == "body":
                            pending.setdefault(id(frame), (frame.f_lineno, []))[1].append(v)
                        else:
                            events.append(("pre", frame.f_lineno, v))
        elif event == "exception" and not isinstance(arg[1], NameError):
            last_exc[id(frame)] = arg[0]
        elif event == "exception" and isinstance(arg[1], NameError) and id(arg[1]) not in seen:
            seen.add(id(arg[1]))
            keep.append(arg[1])       # keep the object alive: a freed exception's id would be reused by the next one
            nm = getattr(arg[1], "name", None)
            if not nm:
                m = _UNB.search(str(arg[1]))
                nm = (m.group(1) or m.group(2)) if m else None
            events.append(("exc", frame.f_lineno, nm))
            last_exc[id(frame)] = arg[0]
        return local

    def tracer(frame, event, arg):
        if frame.f_code.co_filename != filename:
            return None
        frame.f_trace_lines = bool(watch)
        return local

    old = sys.gettrace()
    sys.settrace(tracer)
    try:
        try:
            r = ns[fname](c, L, *[-(i + 1) for i in range(nargs)])
            out = ["ok", canon(r), canon(L)]
        except BaseException as e:
            out = ["err", type(e).__name__, canon(L)]
    finally:
        sys.settrace(old)
    return out, events


_ALWAYS = re.compile(r"^\s*(del \w+$|import \w+ as \w+$|from \w+ import \w+ as \w+$|if \(\w+ := .*\):$|\w+(, \w+)* (\+?=) |\w+ = \w+ = )")
_BODY = re.compile(r"^\s*(for .* in .*:$|case (?!.* if c\.b\().*:$)")
_EXCEPT_AS = re.compile(r"^\s*except ValueError as \w+:$")
_WITH_AS = re.compile(r"^\s*with c\.cm\((\d+)\) as \w+:$")


def watch_lines(src_lines, nidx):
    """line -> [(variable, kind, site)]: variables whose assignment/deletion node on that line is NOT flagged
    cf_maybe_null, for statements whose binding is known to execute once the line starts (kind 'always'), or under a
    condition the oracle can evaluate ('except': a ValueError is pending; 'with': __enter__ at `site` does not raise).
    Such a variable must be bound when the line starts."""
    w = {}
    for (ln, name), nodes in nidx.items():
        if not ln or ln > len(src_lines):
            continue
        t = src_lines[ln - 1]
        if _ALWAYS.match(t):
            kind, site = "always", 0
        elif _EXCEPT_AS.match(t):
            kind, site = "except", 0
        elif _WITH_AS.match(t):
            kind, site = "with", int(_WITH_AS.match(t).group(1))
        elif _BODY.match(t):
            kind, site = "body", 0
        else:
            continue
        rel = relevant_nodes(nidx, "pre", ln, name)
        if unflagged(rel):
            w.setdefault(ln, []).append((name, kind, site))
        elif kind == "always" and rel and all(n["isnull"] and not n["in_closure"] for n in rel):
            # (not for cells shared with inner functions: an inner function may have bound the variable, which the
            #  flow graph of the outer function does not show - outside the model, see claims)
            # the analysis calls the variable definitely unbound at this assignment / del: it must not be bound
            w.setdefault(ln, []).append((name, "nul", site))
    return w


# --------------------------------------------------------------------------
# leg A: artefacts -> Lean

def table(rows):
    return ":" + ";".join(",".join(str(x) for x in r) for r in rows) if rows else "-"


def enc_graph(d):
    vs = ",".join("%d:%d" % (v["ubit"], 1 if v["clo"] else 0) for v in d["vars"]) or "-"
    def ev(e):
        return "r.%d.%d" % (e[1], e[2]) if e[0] == "r" else "%s.%d.%d.%d" % (e[0], e[1], e[2], e[3])
    bs = ":" + ";".join(",".join(ev(e) for e in b) for b in d["blocks"]) if d["blocks"] else "-"
    es = ",".join("%d>%d" % (p, c) for p, c in d["edges"]) or "-"
    return "%s %s %s %d" % (vs, bs, es, d["entry"])


def enc_flags(nodes):
    return "".join(str((1 if n["maybe"] else 0) + (2 if n["isnull"] else 0)) for n in nodes) or "-"


def validate_line(d):
    return "C21 validate %s %s %s %s" % (enc_graph(d), table(d["inp"]), table(d["out"]), enc_flags(d["nodes"]))


def analyse_line(d):
    order = ",".join(str(b) for b in range(len(d["blocks"])) if b != d["entry"]) or "-"
    return "C21 analyse %s %s %d" % (enc_graph(d), order, len(d["nodes"]))


def flow_ok_shape(d):
    """parents/children symmetric, gen/kill as `initialize` defines them (cheap Python-side sanity of the dump)."""
    par = [[] for _ in d["blocks"]]
    for p, c in d["edges"]:
        par[c].append(p)
    return all(sorted(par[i]) == sorted(d["parents"][i]) for i in range(len(d["blocks"])))


def leg_a(ctx, flows, mod=None):
    """flows: list of (tag, dump dict).  Returns {tag: reason} for flows whose artefacts were rejected
    (validator says false, or analysis model disagrees with the dumped solution/flags)."""
    bad = {}
    lines = []
    idx = []
    msrc = {"module": cap(mod["src"], 6000), "directives": mod.get("directives")} if mod else {}
    for tag, d in flows:
        if "dump_error" in d:
            bad[tag] = "dump failed: " + cap(d["dump_error"], 120)
            ctx.tie_break("I-art dump of the flow graph", cap("%s: %s" % (tag, d["dump_error"])), {"flow": tag})
            continue
        if not any(d["blocks"]):
            ctx.count("flow/no-events")
            continue
        if not flow_ok_shape(d):
            bad[tag] = "parents/children asymmetric"
            ctx.tie_break("I-art block.parents vs block.children", cap(tag), {"flow": tag, "dump": slim(d)})
        lines.append(validate_line(d))
        lines.append(analyse_line(d))
        idx.append((tag, d))
    if not lines:
        return bad
    out = ctx.drv.batch(lines)
    for k, (tag, d) in enumerate(idx):
        v, a = out[2 * k], out[2 * k + 1]
        nb, nbits = len(d["blocks"]), sum(len(b) for b in d["blocks"])
        ctx.count("flow/blocks<=%d" % (8 if nb <= 8 else 16 if nb <= 16 else 32 if nb <= 32 else 64 if nb <= 64 else 999))
        vk = "validator/" + "-".join(v.split(" ")[:2])
        ctx.dist[vk] = ctx.dist.get(vk, 0) + 1
        ctx.seen(("flow", lines[2 * k]), nontrivial=nbits > 0)
        if v != "ok true":
            bad[tag] = "validator: " + v
            ctx.tie_break("V validate(dumped graph, solution, flags)",
                          cap("%s: Lean checker answered %r: the dumped solution/flags do not satisfy the soundness "
                              "obligations" % (tag, v)), dict(msrc, flow=tag, line=cap(lines[2 * k], 4000), dump=slim(d)))
        # analysis model == implementation
        exp_inp = table([sorted(r) for r in d["inp"]])
        exp_out = table([sorted(r) for r in d["out"]])
        parts = a.split(" ")
        if len(parts) != 4 or parts[0] != "ok":
            bad.setdefault(tag, "analysis model: " + a)
            ctx.tie_break("D-py analysis model", cap("%s: model answered %r" % (tag, a)), {"flow": tag, "line": cap(lines[2 * k + 1], 4000)})
            continue
        mism = []
        if parts[1] != exp_inp:
            mism.append("i_input")
        if parts[2] != exp_out:
            mism.append("i_output")
        mf, rf = parts[3], enc_flags(d["nodes"])
        if mf != rf:
            # scope_predefined_names never get cf_is_null: outside the model
            pre = {v_["name"] for v_ in d["vars"] if v_.get("predef")}
            diff = [i for i in range(min(len(mf), len(rf))) if mf[i] != rf[i] and d["nodes"][i]["name"] not in pre]
            if diff or len(mf) != len(rf):
                mism.append("flags@nodes%s" % diff[:6])
        if mism:
            bad.setdefault(tag, "analysis model != implementation: " + ",".join(mism))
            ctx.tie_break("D-py reaching_definitions/check_definitions vs CyVerif.C21.solve/flagsOf",
                          cap("%s: %s differ (model %s | impl %s %s %s)" % (tag, ",".join(mism), a, exp_inp, exp_out, rf)),
                          dict(msrc, flow=tag, line=cap(lines[2 * k + 1], 4000), dump=slim(d)))
    return bad


def slim(d):
    """dump without bulky redundant parts, strings capped (for replay files)."""
    return {"func": d.get("func"), "line": d.get("line"), "vars": [(v["name"], v["ubit"], v["clo"]) for v in d.get("vars", [])][:12],
            "nblocks": len(d.get("blocks", [])), "nnodes": len(d.get("nodes", []))}


# --------------------------------------------------------------------------
# legs B and C

_SIMPLE_READ = re.compile(r"^\s*L\.append\(\((\d+), (\w+)\)\)$")
_SITE = re.compile(r"L\.append\(\((\d+),")
_CLAUSE = re.compile(r"^(\s*)(try|except|finally|else|elif|if|for|while|with|match|case|def)\b")


def line_context(src_lines, ln, depth=3):
    """innermost enclosing clause keywords of 1-based line `ln` (up to `depth`), e.g. 'except<for<def'."""
    if not ln or ln > len(src_lines):
        return "?"
    ind = len(src_lines[ln - 1]) - len(src_lines[ln - 1].lstrip())
    chain = []
    for i in range(ln - 2, -1, -1):
        m = _CLAUSE.match(src_lines[i])
        if m and len(m.group(1)) < ind:
            ind = len(m.group(1))
            chain.append(m.group(2))
            if m.group(2) == "def" or len(chain) >= depth:
                break
    return "<".join(chain) or "top"


def enclosing_clauses(src_lines, ln):
    """[(keyword, line text, 0-based index)] of the clauses enclosing 1-based line `ln`, innermost first"""
    out = []
    if not ln or ln > len(src_lines):
        return out
    ind = len(src_lines[ln - 1]) - len(src_lines[ln - 1].lstrip())
    for i in range(ln - 2, -1, -1):
        m = _CLAUSE.match(src_lines[i])
        if m and len(m.group(1)) < ind:
            ind = len(m.group(1))
            out.append((m.group(2), src_lines[i], i))
            if m.group(2) == "def" and ind == 0:
                break
    return out


def has_finally_sibling(src_lines, i):
    """the except/else clause on 0-based line `i` belongs to a try statement with a finally clause
    (so its body lies inside the body of a try/finally)"""
    clause_text = src_lines[i]
    ind = len(clause_text) - len(clause_text.lstrip())
    for t in src_lines[i + 1:]:
        if not t.strip():
            continue
        j = len(t) - len(t.lstrip())
        if j < ind:
            return False
        if j == ind:
            w = t.strip()
            if w.startswith("finally:"):
                return True
            if not (w.startswith("except") or w.startswith("else:")):
                return False
    return False


def stmt_kind(text):
    t = text.strip()
    if t.startswith("L.append"):
        return "read"
    if t.startswith("del "):
        return "del"
    if "+=" in t:
        return "augassign"
    if re.match(r"[A-Za-z_0-9]+\(\)$", t):
        return "call"
    if re.match(r"\w+(, \w+)* = ", t):
        return "assign"
    return re.split(r"[ (:]", t, 1)[0] or "?"


def node_index(flows):
    """(line, name) -> list of dict(maybe, isnull, kinds, ctype) over all flows of the module."""
    idx = {}
    for d in flows:
        if "blocks" not in d:
            continue
        kinds, nvar = {}, {}
        for b in d["blocks"]:
            for e in b:
                kinds.setdefault(e[-1], set()).add(e[0])
                nvar[e[-1]] = e[1]
        for i, n in enumerate(d["nodes"]):
            v = d["vars"][nvar[i]] if i in nvar else {}
            idx.setdefault((n["line"], n["name"]), []).append(
                {"maybe": n["maybe"], "isnull": n["isnull"], "kinds": kinds.get(i, set()), "func": d["func"],
                 "ctype": bool(v.get("ctype")), "in_closure": bool(v.get("in_closure")), "arg": bool(v.get("arg")),
                 "arg_decl": n["cls"] != "NameNode"})
    return idx


def okind(o):
    if o[0] == "ok":
        return "ok"
    if o[0] == "err":
        return o[1]
    return " ".join(o)


def func_span(src_lines, fname):
    """(first, last) 1-based line numbers of top-level function `fname`"""
    first = None
    for i, t in enumerate(src_lines):
        if first is None and re.match(r"def %s\(" % re.escape(fname), t):
            first = i + 1
        elif first is not None and t.startswith("def "):
            return first, i
    return first or 1, len(src_lines)


def static_features(src_lines, fname):
    """source-level facts about a function that the known CFG defects depend on"""
    lo, hi = func_span(src_lines, fname)
    feats = {"del_in_try": set(), "match_simple_after_case": False, "match_guard": False}
    prev_case_indent = None
    for ln in range(lo, hi + 1):
        t = src_lines[ln - 1]
        m = re.match(r"\s*del (\w+)$", t)
        if m:
            # inside the BODY of a try or with statement of the same function, or inside an `except ... as v` handler
            # (its body is wrapped in an implicit try/finally that deletes v)
            for k, text, idx in enclosing_clauses(src_lines, ln):
                if (k in ("try", "with") or (k == "except" and " as " in text)
                        or (k in ("except", "else") and has_finally_sibling(src_lines, idx))):
                    feats["del_in_try"].add(m.group(1))
                    break
                if k == "def":
                    break
        m = re.match(r"(\s*)case (.*):$", t)
        if m:
            simple = re.match(r"^(None|_|\d+( \| \d+)*)$", m.group(2)) is not None
            if simple and prev_case_indent == len(m.group(1)):
                feats["match_simple_after_case"] = True
            if " if c.b(" in m.group(2):
                feats["match_guard"] = True
            prev_case_indent = len(m.group(1))
        elif re.match(r"\s*match ", t):
            prev_case_indent = None
    return feats


def relevant_nodes(nidx, kind, ln, var):
    """nodes of `var` on line `ln` that an event of this kind speaks about: 'exc' (an unbound-name error was raised):
    reads and explicit deletions; 'pre' (unbound when a binding statement starts): assignment targets and explicit
    deletions.  The implicit `del` of an except-as target (kinds == {'d'}) is never relevant.  A finally body exists in
    two copies (normal / exceptional entry) with separate nodes at the same position: a claim is only contradicted if
    ALL relevant nodes are unflagged."""
    out = []
    for n in nidx.get((ln, var), []):
        k = n["kinds"]
        if (kind == "exc" and "r" in k) or (kind == "pre" and ("a" in k or {"d", "r"} <= k)):
            if not n["arg_decl"]:
                out.append(n)
    return out


def unflagged(nodes):
    return bool(nodes) and not any(n["maybe"] for n in nodes)


def isnull_key(src_lines, fname, ln):
    """key for a node flagged cf_is_null whose variable is bound under CPython"""
    feats = static_features(src_lines, fname)
    if feats["match_simple_after_case"]:
        return "match-simple-case-entered-from-previous-body"
    if feats["match_guard"]:
        return "isnull-unsound:match-guard-failed-then-later-case"
    return "isnull-unsound:" + line_context(src_lines, ln)


def attribute(src_lines, nidx, fname, kind, ln, var):
    """cause key for one oracle event, or None if the node there is flagged and of no special kind"""
    text = src_lines[ln - 1] if ln and ln <= len(src_lines) else ""
    if kind == "nul":
        return isnull_key(src_lines, fname, ln)
    nodes = relevant_nodes(nidx, kind, ln, var)
    if nodes and any(n["ctype"] for n in nodes):
        return "ctyped-unbound-read"
    if unflagged(nodes):
        feats = static_features(src_lines, fname)
        if var in feats["del_in_try"]:
            return "del-in-try-no-exception-edge"
        if feats["match_simple_after_case"]:
            return "match-simple-case-entered-from-previous-body"
        return "unflagged:%s/%s" % (stmt_kind(text), line_context(src_lines, ln))
    if kind == "exc" and nodes and any(n["arg"] for n in nodes):
        return "arg-unbound-no-check"
    if kind == "exc" and nodes and stmt_kind(text) == "del" and any(n["isnull"] and "d" in n["kinds"] for n in nodes):
        return "del-definitely-unbound-silent"
    return None


def classify(src_lines, nidx, oracle, events, comp, fname):
    """Stable key for an oracle/compiled disagreement: the first event of the CPython run whose node explains a
    divergence (argument / C-typed variable / definitely-unbound del / node the analysis calls bound) names the cause;
    otherwise the outcome pair plus the statement context."""
    ok_, ck = okind(oracle), okind(comp)
    first = None
    for kind, ln, var in events:
        key = attribute(src_lines, nidx, fname, kind, ln, var)
        if key:
            return key if not key.startswith("unflagged:") else "dc:%s->%s:%s" % (ok_, ck, key)
        if first is None and kind == "exc":
            text = src_lines[ln - 1] if ln and ln <= len(src_lines) else ""
            first = "flagged@%s/%s" % (stmt_kind(text), line_context(src_lines, ln))
    if comp[0] == "crash":
        # No event names the cause, the compiled code crashed.  Two known defects crash at places the oracle cannot
        # watch: (A) the implicit `del` of an except-as target / the exceptional copy of a finally body after a
        # deletion inside a try body; (E) pattern captures with guards in the known match CFG shape.
        feats = static_features(src_lines, fname)
        if feats["del_in_try"]:
            return "del-in-try-no-exception-edge"
        if feats["match_simple_after_case"]:
            return "match-simple-case-entered-from-previous-body"
    if first is None:
        first = "values" if ok_ == ck else "other"
    return "dc:%s->%s:%s" % (ok_, ck, first)


def check_module(ctx, mod, vec_cap, stats):
    """legs B and C for one built module; returns number of disagreements reported."""
    src, funcs, res = mod["src"], mod["funcs"], mod["res"]
    src_lines = src.split("\n")
    filename = "c21_%s.py" % mod["name"]
    ns = {}
    exec(compile(c21gen.CHOOSER_SRC + c21child.RUN_ONE_SRC, "c21_chooser", "exec"), ns)
    exec(compile(src, filename, "exec"), ns)
    flows = (res["dump"] or {}).get("flows", [])
    nidx = node_index(flows)
    site_line = {}
    simple = {}
    for i, t in enumerate(src_lines):
        m = _SITE.search(t)
        if m:
            site_line.setdefault((enclosing_func(src_lines, i + 1), int(m.group(1))), i + 1)
        m = _SIMPLE_READ.match(t)
        if m:
            simple[i + 1] = m.group(2)
    cases, meta = [], []
    for f in funcs:
        for s in f["vectors"][:vec_cap]:
            cases.append({"f": f["name"], "s": s, "a": f["nargs"]})
            meta.append(f)
    watch = watch_lines(src_lines, nidx)
    oracle = [run_oracle(ns, c["f"], c["s"], c["a"], filename, watch) for c in cases]
    comp = run_compiled(ctx, res["so"], cases) if res["so"] else [["nobuild"]] * len(cases)
    nbad = 0
    succeeded = {}     # (func, site) that completed under CPython -> (function meta, selectors)
    for c, f, (o, events), r in zip(cases, meta, oracle, comp):
        if r == ["skipped"]:
            stats["cases-skipped-after-crashes"] += 1
            continue
        ctx.count("case/" + okind(o))
        ctx.seen((f["src"], tuple(c["s"])), nontrivial=bool(len(o[-1]) > 1 or events))
        for item in o[-1][1:]:
            if isinstance(item, list) and len(item) > 1 and isinstance(item[1], int):
                succeeded.setdefault((f["name"], item[1]), (f, c["s"]))
        # leg B (maybe_null half): the variable is unbound at a node the analysis calls definitely bound
        for kind, ln, var in events:
            if kind == "nul":
                stats["isnull-unsound"] += 1
                ctx.violation(isnull_key(src_lines, f["name"], ln),
                              cap("%s%s line %d: node flagged cf_is_null but %r is bound there under CPython: %s | %s"
                                  % (f["name"], tuple(c["s"]), ln, var, src_lines[ln - 1].strip(),
                                     cap(f["src"].replace("\n", " / "), 160))), replay_of(mod, f, c["s"], o, r))
                continue
            nodes = relevant_nodes(nidx, kind, ln, var)
            stats[("unbound-at-node" if nodes else "unbound-no-node") if kind == "exc" else "unbound-before-unflagged-binding"] += 1
            if unflagged(nodes):
                stats["flag-unsound"] += 1
                key = attribute(src_lines, nidx, f["name"], kind, ln, var)
                ctx.violation(key if not key.startswith("unflagged:") else "flag-unsound:" + key[10:],
                              cap("%s%s line %d: %r is unbound there under CPython (%s) but no node there is flagged "
                                  "cf_maybe_null (the compiled code has no check) | %s"
                                  % (f["name"], tuple(c["s"]), ln, var, "raises" if kind == "exc" else "before the binding",
                                     cap(f["src"].replace("\n", " / "), 160))), replay_of(mod, f, c["s"], o, r))
        if r != o:
            nbad += 1
            key = classify(src_lines, nidx, o, events, r, f["name"])
            ctx.violation(key, cap("%s%s: CPython %s, compiled %s | %s" % (f["name"], tuple(c["s"]), cap(o, 90), cap(r, 90),
                                                                            cap(f["src"].replace("\n", " / "), 160))),
                          replay_of(mod, f, c["s"], o, r))
        else:
            ctx.sample({"func": cap(f["src"], 240), "selectors": c["s"], "outcome": cap(o, 120)})
    # leg B (is_null half): a simple read that succeeded under CPython must not be flagged cf_is_null
    for (fn, site) in sorted(succeeded):
        ln = site_line.get((fn, site))
        if ln in simple:
            rd = [n for n in nidx.get((ln, simple[ln]), []) if "r" in n["kinds"]]
            if rd and all(n["isnull"] and not n["in_closure"] for n in rd):
                for n in rd[:1]:
                    stats["isnull-unsound"] += 1
                    f, sel = succeeded[(fn, site)]
                    ctx.violation(isnull_key(src_lines, fn, ln), cap("%s line %d: node flagged cf_is_null (compile error by default) but the read "
                                           "succeeds under CPython with selectors %s: %s" % (fn, ln, sel, src_lines[ln - 1].strip())),
                                  replay_of(mod, f, sel, "read succeeds", "cf_is_null"))
    return nbad


def enclosing_func(src_lines, ln):
    for i in range(ln - 1, -1, -1):
        m = re.match(r"def (\w+)\(", src_lines[i])
        if m:
            return m.group(1)
    return "?"


def replay_of(mod, f, s, o, r):
    return {"func_src": cap(f["src"], 5000), "func": f["name"], "sites": f["sites"], "nargs": f["nargs"],
            "selectors": list(s), "oracle": cap(o, 600), "compiled": cap(r, 600), "directives": mod.get("directives")}


# --------------------------------------------------------------------------
# driver

OBJ = {"infer_types": False}     # configuration "obj": every local is a Python object (no C type inference)


def make_module(ctx, name, nfuncs, vec_cap, weights=None, funcs=None, directives=OBJ):
    rng = ctx.rng
    if funcs is None:
        funcs = [c21gen.gen_function(rng, "f%d" % i, weights) for i in range(nfuncs)]
    for f in funcs:
        if "vectors" not in f:
            f["vectors"] = c21gen.vectors(rng, f["sites"], vec_cap)
        if not directives:
            # default configuration (safe type inference): the pinned compiler turns `a = b = <int>` into
            # `b = (PyObject*)<int>` under some inferred types (a crash that has nothing to do with unbound names);
            # cascaded assignments are written as two statements there
            f["src"] = re.sub(r"(?m)^(\s*)(\w+) = (\w+) = (\d+)$", r"\1\3 = \4\n\1\2 = \4", f["src"])
    src, first = c21gen.module_source(funcs)
    return {"name": name, "src": src, "funcs": funcs, "first": first, "directives": directives}


def process(ctx, mods, vec_cap, stats, bad_flows):
    """build + legs A, B, C for a list of modules; returns number of D-c disagreements."""
    results = build_all(ctx, [{"name": m["name"], "source": m["src"], "directives": m.get("directives"),
                               "opt": m.get("opt", "-O0")} for m in mods])
    total = 0
    for m, res in zip(mods, results):
        m["res"] = res
        if res["error"]:
            stage, log = res["error"]
            errs = [l for l in log.split("\n") if re.match(r"^\S+:\d+:\d+: ", l) and not l.startswith("warning")]
            related = (stage == "timeout" or "FlowControl.py" in log or "ControlFlowAnalysis" in log
                       or any("referenced before assignment" in l for l in errs))
            if related:
                # the generator only emits programs CPython accepts; a compiler crash inside the flow analysis or an
                # uninitialised-name error in lenient mode means the anchored code no longer does what the model says
                stats["build-failed"] += 1
                ctx.tie_break("build of a generated module (%s)" % stage, cap(log[-CAP:]),
                              {"module": cap(m["src"], 6000), "log": cap(log, 1500), "directives": m.get("directives")})
            else:
                # rejected for a reason outside this property (e.g. the pinned compiler emits invalid C for a nested def
                # inside a literal match case): recorded, not a verdict
                stats["build-rejected-other"] += 1
                ctx.count("build/rejected-other")
                ctx.notes.setdefault("build_rejected_other", [])
                if len(ctx.notes["build_rejected_other"]) < 3:
                    ctx.notes["build_rejected_other"].append(cap("%s: %s" % (stage, log[-260:]), 300))
            if not res["dump"]:
                continue
        flows = [("%s:%s@%d" % (m["name"], d.get("func"), d.get("line", 0)), d) for d in (res["dump"] or {}).get("flows", [])]
        bad = leg_a(ctx, flows, m)
        for tag, why in bad.items():
            bad_flows.append((m, tag, why))
        for f in m["funcs"]:
            for ft in f["features"]:
                ctx.dist["feature/" + ft] = ctx.dist.get("feature/" + ft, 0) + 1
        if res["so"]:
            total += check_module(ctx, m, vec_cap, stats)
    return total


def default_mode_check(ctx, mods, stats):
    """Default mode (Options.error_on_uninitialized = True): every 'referenced before assignment' ERROR must sit on a
    node that the (validated) analysis flags cf_is_null; a module without such nodes must be accepted."""
    results = build_all(ctx, [{"name": m["name"], "source": m["src"], "lenient": False, "want_so": False,
                               "directives": m.get("directives")} for m in mods])
    for m, res in zip(mods, results):
        nidx = node_index((m["res"]["dump"] or {}).get("flows", []))
        isnull_lines = {(ln, nm) for (ln, nm), ns_ in nidx.items() for n in ns_ if n["isnull"] and "r" in n["kinds"]}
        errs = set()
        if res["error"]:
            for mm in re.finditer(r":(\d+):\d+: local variable '([^']+)' referenced before assignment", res["error"][1]):
                errs.add((int(mm.group(1)), mm.group(2)))
            other = [l for l in res["error"][1].split("\n") if re.search(r":\d+:\d+: ", l) and "referenced before assignment" not in l
                     and not l.startswith("warning")]
            if other and not errs:
                ctx.tie_break("default-mode compile", cap(other[0]), {"module": cap(m["src"], 6000)})
        stats["default-mode-errors"] += len(errs)
        ctx.count("default-mode/" + ("rejected" if errs else "accepted"))
        for e in sorted(errs - isnull_lines):
            ctx.tie_break("default-mode error without cf_is_null node", cap("%s line %d variable %r" % (m["name"], e[0], e[1])),
                          {"module": cap(m["src"], 6000), "line": e[0]})


def case_func(case):
    if case.get("all_vectors"):
        import itertools
        vecs = [list(v) for v in itertools.product(*[range(d) for d in case["sites"]])]
    else:
        vecs = [case["selectors"]] + [v for v in case.get("more_selectors", [])]
    return {"name": case["func"], "src": case["func_src"], "sites": case["sites"], "nargs": case["nargs"],
            "features": case.get("features", []), "vectors": vecs}


def corpus_modules(ctx, cases, prefix):
    """recorded (function, selectors) cases -> one module per configuration (functions must have distinct names)"""
    groups = {}
    for case in cases:
        d = case.get("directives", OBJ)
        groups.setdefault(json.dumps(d, sort_keys=True), (d, []))[1].append(case_func(case))
    mods = []
    for k, (d, funcs) in sorted(groups.items()):
        names = set()
        uniq = [f for f in funcs if not (f["name"] in names or names.add(f["name"]))]
        mods.append(make_module(ctx, "%s%d" % (prefix, len(mods)), 0, 10 ** 6, funcs=uniq, directives=d))
    return mods


def replay(ctx, case, stats):
    """re-run one recorded function/selector pair (replay files)."""
    bad = []
    process(ctx, corpus_modules(ctx, [case], "c21replay"), 10 ** 6, stats, bad)
    return bad


def unlisted(ctx):
    known = lib.load_known_findings()
    return [v for v in ctx.violations if (ctx.prop, v["key"]) not in known]


def search(ctx, bad_flows, vec_cap, stats):
    """An obligation / correspondence broke: look harder for a program + selector vector on which compiled code
    and CPython disagree.  (1) all selector vectors of the functions whose artefacts were rejected, (2) fresh
    programs biased towards the constructs those functions use."""
    stats["search-rounds"] += 1
    seen_mod = {}
    feats = {}
    for m, tag, why in bad_flows:
        fn = tag.split(":")[1].split("@")[0]
        line = int(tag.split("@")[1])
        top = enclosing_func(m["src"].split("\n"), line) if line else fn
        for f in m["funcs"]:
            if f["name"] in (fn, top):
                seen_mod.setdefault(id(m), (m, []))[1].append(f)
                for ft in f["features"]:
                    feats[ft] = feats.get(ft, 0) + 1
    for m, fs in list(seen_mod.values())[:6]:
        if not m.get("res") or not m["res"]["so"]:
            continue
        full = []
        for f in fs[:4]:
            g = dict(f)
            g["vectors"] = c21gen.vectors(ctx.rng, f["sites"], 3000)
            full.append(g)
        check_module(ctx, dict(m, funcs=full), 3000, stats)
        if unlisted(ctx):
            return
    # boosted generation
    fmap = {"del": "del", "try": "try", "finally": "try", "while": "while", "for": "for", "with": "with", "match": "match",
            "closure": "inner", "closure-call": "call_inner", "raising-call": "raisepoint", "raise": "raisepoint",
            "break": "jump", "continue": "jump", "return": "jump", "if": "if"}
    weights = dict(c21gen.DEFAULT_WEIGHTS)
    for ft, n in feats.items():
        if ft in fmap:
            weights[fmap[ft]] = c21gen.DEFAULT_WEIGHTS[fmap[ft]] * 2.5
    for rnd in range(ctx.n(2, 4)):
        mods = [make_module(ctx, "c21s%d_%d" % (rnd, i), 10, vec_cap, weights) for i in range(8)]
        process(ctx, mods, vec_cap, stats, [])
        if unlisted(ctx):
            return


def run(ctx):
    import collections
    stats = collections.Counter()
    ctx.rule = ("random structured Python functions (c21_gen.py) over 2-4 local variables: assign/augassign/multi-assign/import, "
                "read (plain, conditional expression, and/or, lambda closure read, list comprehension), del, if/elif/else with walrus, "
                "while/for (range, list, tuple target) with break/continue/else, try/except[/as]/else/finally with raising calls and "
                "raise statements, with[-as] (enter raises / exit swallows), match (sequence/mapping/class/or/capture patterns, guards), "
                "inner functions with nonlocal, early return; every decision reads a selector; each function runs on the full selector "
                "product if small, else boundary + random vectors. One evaluated case = one (function, selector vector) run under "
                "CPython and compiled, or one dumped flow graph checked by the Lean validator + analysis model. Non-trivial = the "
                "run reaches at least one read / the flow has events; distinct by (function text, vector).")
    ctx.explanation = ("Theorems: validate_sound (and corollaries) for ALL graphs/solutions/flags - a dumped analysis result accepted by "
                       "the checker has no unflagged unbound read, deletion or assignment target on any walk of the dumped graph, and "
                       "cf_is_null nodes are unbound on every walk; analysis_validates / solve_terminates for the model of reaching_definitions + flag rules. "
                       "NOT covered by a theorem: (1) AST -> CFG construction (ControlFlowAnalysis visitor: which edges/events exist, "
                       "exceptions leaving a block in the middle) - checked only dynamically by legs B and C; (2) code generation from "
                       "the flags (NameNode.generate_result_code / generate_assignment_code / generate_deletion_code, "
                       "__Pyx_RaiseUnboundLocalError / __Pyx_RaiseClosureNameError) - leg C only; (3) assignments to closure cells made "
                       "by inner functions (outside the walk semantics of the outer graph); generators/async, class bodies, cdef "
                       "variables, memoryviews, C++ optionals and parallel blocks are not generated.")
    ctx.assumptions = ["every real execution of a function is a walk of the dumped graph that executes blocks completely "
                       "(CFG construction soundness; sampled by legs B and C, not proved)"]
    ctx.extra_trusted = ["in-process wrapper of FlowControl.check_definitions / ControlFlowAnalysis.visit_FuncDefNode that serialises "
                         "blocks, stats, bit sets and NameNode flags (harness/props/c21_child.py)"]
    vec_cap = 48 if ctx.quick else 160
    bad_flows = []
    if ctx.replay_case:
        case = ctx.replay_case.get("case", ctx.replay_case)
        if "func_src" in case:
            replay(ctx, case, stats)
        elif "module" in case:
            # artefact-level replay: rebuild the module, dump and re-validate its flows (leg A only)
            m = {"name": "c21replaymod", "src": case["module"], "funcs": [], "first": {}, "directives": case.get("directives") or OBJ}
            process(ctx, [m], 1, stats, bad_flows)
        elif "correspondence" in ctx.replay_case:
            for t in ctx.replay_case["correspondence"][:3]:
                rc = t.get("replay", {})
                if "func_src" in rc:
                    replay(ctx, rc, stats)
                elif "module" in rc:
                    m = {"name": "c21replaymod", "src": rc["module"], "funcs": [], "first": {}, "directives": rc.get("directives") or OBJ}
                    process(ctx, [m], 1, stats, bad_flows)
        ctx.notes["stats"] = dict(stats)
        return
    # corpus / witnesses first (same build batch as the first generated modules)
    cdir = os.path.join(lib.VERIF, "corpus", "C21")
    cases = []
    if os.path.isdir(cdir):
        for fn in sorted(os.listdir(cdir)):
            if fn.endswith(".json"):
                cj = json.load(open(os.path.join(cdir, fn)))
                for one in cj.get("cases", [cj]):
                    cases.append(one)
                    stats["corpus-cases"] += 1
    nmods = int(os.environ.get("C21_DEV_NMODS", 0)) or ctx.n(8, 40)
    nfuncs = 10
    # one module in eight keeps the default configuration (safe C type inference)
    mods = [make_module(ctx, "c21m%d" % i, nfuncs, vec_cap, directives=({} if i % 8 == 3 else OBJ)) for i in range(nmods)]
    if not ctx.quick:
        for i, m in enumerate(mods):
            if i % 6 == 5:
                m["opt"] = "-O2"      # thorough tier: some modules optimised (NULL reads behave differently under -O2)
    allmods = corpus_modules(ctx, cases, "c21corpus") + mods
    for i in range(0, len(allmods), 16):
        process(ctx, allmods[i:i + 16], 10 ** 6 if i == 0 else vec_cap, stats, bad_flows)
    default_mode_check(ctx, [m for m in mods if m.get("res") and m["res"]["dump"]][:ctx.n(3, 12)], stats)
    if (bad_flows or ctx.tie_breaks) and not unlisted(ctx):
        search(ctx, bad_flows, vec_cap, stats)
    if os.environ.get("C21_DEV_DUMP"):
        with open(os.environ["C21_DEV_DUMP"], "w") as fdump:
            json.dump({"tie_breaks": ctx.tie_breaks, "violations": ctx.violations}, fdump, indent=1, default=repr)
    ctx.notes["stats"] = dict(stats)
    ctx.notes["rejected_flows"] = [cap("%s: %s" % (tag, why), 200) for _, tag, why in bad_flows[:10]]
    ctx.notes["coverage"] = ("legs B/C execute the whole pipeline; leg A covers every line of ControlFlow.initialize/"
                             "reaching_definitions/map_one and the flag rules of check_definitions (all generated flows pass through them)")

"""C26 — global and builtin lookups always see the current binding.

impl   = module compiled by the staged compiler (4 configurations: cache_builtins x CYTHON_USE_DICT_VERSIONS)
model  = CyVerif.C26.run (per-site dict-version cache, frozen builtins)
oracle = the same module source executed by CPython (plain name resolution)
"""
import cybuild

# 0,1: plain globals; 2: global that shadows a builtin; 3,4: builtin function known to the compiler, never bound
# in the module (builtin-only read); 5,6: other builtins never bound in the module (frozen at import under cache_builtins)
NAMES = ["ga", "gb", "oct", "divmod", "hex", "round", "vars"]
BUILTIN_INIT = {2: 1, 3: 2, 4: 3, 5: 4, 6: 5}           # name index -> value id of the original builtin
# read sites: (name index)
SITES = [0, 0, 1, 2, 2, 3, 4, 5, 6]


def site_kind(site, cache_builtins):
    n = SITES[site]
    if n in (3, 4):
        return "b"
    if n in (5, 6):
        return "f" if cache_builtins else "d"
    return "d"

MODULE = '''
import sys as _sys
import builtins as _b
_F = False
if _F:
    ga = gb = oct = None

NAMES = %r
class _V:
    def __init__(self, i): self.i = i
VALS = [None, _b.oct, _b.divmod, _b.hex, _b.round, _b.vars] + [_V(i) for i in range(6, 14)]

def r0(): return ga
def r1(): return ga
def r2(): return gb
def r3(): return oct
def r4(): return oct
def r5(): return divmod
def r6(): return hex
def r7(): return round
def r8(): return vars
READERS = [r0, r1, r2, r3, r4, r5, r6, r7, r8]

def _vid(v):
    for i, x in enumerate(VALS):
        if x is v:
            return str(i)
    return "?"

def run_hist(ops):
    m = _sys.modules[__name__]
    out = []
    for op in ops.split():
        p = op.split(":")
        k = p[0]
        if k == "G":
            setattr(m, NAMES[int(p[1])], VALS[int(p[2])]); out.append("-")
        elif k == "D":
            try:
                delattr(m, NAMES[int(p[1])]); out.append("-")
            except AttributeError:
                out.append("X")
        elif k == "B":
            setattr(_b, NAMES[int(p[1])], VALS[int(p[2])]); out.append("-")
        elif k == "E":
            try:
                delattr(_b, NAMES[int(p[1])]); out.append("-")
            except AttributeError:
                out.append("X")
        elif k == "T":
            d = {}; d[1] = 2; out.append("-")
        elif k == "R":
            try:
                out.append(_vid(READERS[int(p[1])]()))
            except NameError:
                out.append("NameError")
    # leave the process usable
    _b.oct, _b.divmod, _b.hex, _b.round, _b.vars = VALS[1], VALS[2], VALS[3], VALS[4], VALS[5]
    return ",".join(out)
''' % (NAMES,)


def gen_history(rng, n):
    ops = []
    for _ in range(n):
        r = rng.random()
        if r < 0.45:
            ops.append("R:%d" % rng.randrange(len(SITES)))
        elif r < 0.65:
            ops.append("G:%d:%d" % (rng.choice([0, 0, 1, 1, 2, 2, 3, 4, 5, 6]), rng.choice([1, 2, 6, 7, 8, 9, 10])))
        elif r < 0.78:
            ops.append("D:%d" % rng.choice([0, 0, 1, 1, 2, 2, 3, 4, 5, 6]))
        elif r < 0.88:
            ops.append("B:%d:%d" % (rng.choice([2, 3, 4, 5, 6]), rng.choice([1, 2, 3, 4, 5, 11, 12])))
        elif r < 0.94:
            ops.append("E:%d" % rng.choice([2, 3, 4, 5, 6]))
        else:
            ops.append("T")
    return ops


CORPUS = [
    # F10 witnesses: builtin-only / frozen name shadowed through the module namespace
    ["R:5", "G:3:7", "R:5", "D:3", "R:5"],
    ["R:7", "G:5:7", "R:7", "D:5", "R:7"],
    # builtin changed in the builtins module (seen by builtin-only reads; by frozen reads only with cache_builtins=False)
    ["R:6", "B:4:11", "R:6", "E:4", "R:6"],
    ["R:8", "B:6:11", "R:8", "E:6", "R:8"],
    # cache hit / miss / delete / recreate on a plain global, two sites
    ["R:0", "G:0:4", "R:0", "R:1", "R:0", "G:0:4", "R:0", "G:0:5", "R:1", "D:0", "R:0", "R:1", "G:0:6", "R:0"],
    # global shadowing a builtin, then restored
    ["R:3", "G:2:5", "R:3", "R:4", "D:2", "R:3", "B:2:9", "R:4", "E:2", "R:3", "B:2:1", "R:3"],
]


def spec_run(ops):
    """Independent oracle in Python (plain name resolution), used only as a cross-check of the CPython leg."""
    g = {}
    b = dict(BUILTIN_INIT)
    out = []
    for op in ops:
        p = op.split(":")
        if p[0] == "G":
            g[int(p[1])] = int(p[2]); out.append("-")
        elif p[0] == "D":
            out.append("-" if g.pop(int(p[1]), None) is not None else "X")
        elif p[0] == "B":
            b[int(p[1])] = int(p[2]); out.append("-")
        elif p[0] == "E":
            out.append("-" if b.pop(int(p[1]), None) is not None else "X")
        elif p[0] == "T":
            out.append("-")
        else:
            n = SITES[int(p[1])]
            v = g.get(n, b.get(n))
            out.append("NameError" if v is None else str(v))
    return out


def spec_globals(ops):
    g = {}
    for op in ops:
        p = op.split(":")
        if p[0] == "G":
            g[int(p[1])] = int(p[2])
        elif p[0] == "D":
            g.pop(int(p[1]), None)
    return g


def spec_builtins(ops):
    b = dict(BUILTIN_INIT)
    for op in ops:
        p = op.split(":")
        if p[0] == "B":
            b[int(p[1])] = int(p[2])
        elif p[0] == "E":
            b.pop(int(p[1]), None)
    return b


def run(ctx):
    ctx.rule = ("operation histories over 7 names (2 plain globals, 1 global shadowing a builtin, 2 compiler-known builtin functions, 2 other builtins) and 9 read sites: "
                "set/delete module attribute, set/delete builtins attribute, unrelated dict mutation, read; corpus first, then seeded random "
                "histories of 40-250 ops; a case = one op of one history in one build configuration; non-trivial = a read that follows at least one mutation")
    ctx.explanation = ("Theorem read_current covers every history for reads compiled to __Pyx_GetModuleGlobalName (with and without the dict-version cache). "
                       "Not covered by a theorem: that the compiler classifies names as the model assumes (checked by the tie), reference-count safety of the "
                       "borrowed cached pointer, Limited-API / AVOID_BORROWED_REFS variants of __Pyx__GetModuleGlobalName, class-body name lookups.")
    ctx.assumptions = ["interpreter-wide dict version counter does not wrap (fewer than 2^64 dict mutations)",
                       "CPython dict version discipline as in 3.12 dictobject.c (fresh tag on insert/replace-by-different-object/delete)"]
    configs = []
    for cb in (True, False):
        for uv in (0, 1):
            configs.append((cb, uv))
    specs = [dict(name="c26mod", source=MODULE, ext=".py", global_options={"cache_builtins": cb},
                  cflags=["-DCYTHON_USE_DICT_VERSIONS=%d" % uv, "-Wno-deprecated-declarations"]) for cb, uv in configs]
    sos = cybuild.build_many(ctx, specs)
    # oracle module: same source, interpreted
    import os
    opath = os.path.join(ctx.scratch, "c26oracle.py")
    with open(opath, "w") as f:
        f.write(MODULE)
    if getattr(ctx, "replay_case", None) and "history" in ctx.replay_case.get("case", {}):
        hists = [ctx.replay_case["case"]["history"]]
    else:
        hists = [list(h) for h in CORPUS]
        for _ in range(ctx.n(40, 600)):
            hists.append(gen_history(ctx.rng, ctx.rng.choice([40, 80, 250])))
    # each history runs in a fresh child (fresh module, fresh statics); to also reach "arbitrary reachable cache state"
    # half of the histories are glued to their predecessor in the same child by a reset prefix
    reset = ["D:0", "D:1", "D:2", "D:3", "D:4", "B:2:1", "B:3:2", "B:4:3"]
    for (cb, uv), so in zip(configs, sos):
        cfg = "cache_builtins=%s,dict_versions=%d" % (cb, uv)
        if isinstance(so, cybuild.BuildError):
            ctx.tie_break("D-c build " + cfg, so.stage + ": " + so.log[-500:], {"module": MODULE, "config": cfg})
            continue
        descs = " ".join("%d:%s" % (n, site_kind(i, cb)) for i, n in enumerate(SITES))
        inits = " ".join("I:%d:%d" % kv for kv in sorted(BUILTIN_INIT.items()))
        mlines = ["C26 run %d %s %s ; %s" % (uv, descs, inits, " ".join(h)) for h in hists]
        mouts = ctx.drv.batch(mlines)
        # one child per history for impl and oracle
        impl = run_isolated(ctx, so, "c26mod", hists)
        orac = run_isolated(ctx, opath, "c26oracle", hists)
        for h, mo, io, oo in zip(hists, mouts, impl, orac):
            if not mo.startswith("ok "):
                raise RuntimeError("model rejected history: " + mo)
            m = mo[3:].split(",")
            i = io.split(",") if io is not None else None
            o = oo.split(",")
            sp = spec_run(h)
            if o != sp:
                raise RuntimeError("oracle legs disagree (machinery bug): %r %r %r" % (h, o, sp))
            if i is None or len(i) != len(h):
                ctx.violation("crash-" + cfg, "history crashed the compiled module: %r" % (io,), {"history": h, "config": cfg})
                continue
            mutated = False
            for k, op in enumerate(h):
                ctx.count(cfg + "/" + op[0])
                if op[0] != "R":
                    mutated = True
                ctx.seen((cfg, tuple(h[:k + 1])), nontrivial=(op[0] == "R" and mutated))
                if i[k] != o[k]:
                    site = int(op.split(":")[1]) if op[0] == "R" else -1
                    kind = site_kind(site, cb) if site >= 0 else "-"
                    g_now = spec_globals(h[:k])
                    b_now = spec_builtins(h[:k])
                    n = SITES[site] if site >= 0 else -1
                    if kind == "f" and i[k] == str(BUILTIN_INIT[n]):
                        # documented design of Options.cache_builtins: looked up once at import
                        key = "frozen-builtin-returns-import-time-value"
                    elif kind == "b" and n in g_now and i[k] == (str(b_now[n]) if n in b_now else "NameError"):
                        # builtin function known to the compiler, bound later through the module namespace only
                        key = "builtin-only-read-ignores-module-namespace"
                    else:
                        key = "read-wrong-%s-%s" % (cfg, op if op[0] != "R" else "site%d" % site)
                    ctx.violation(key, "%s: after %r op %s gave %s, CPython gives %s" % (cfg, h[max(0, k - 6):k], op, i[k], o[k]),
                                  {"history": h[:k + 1], "config": cfg, "impl": i[k], "oracle": o[k]})
                    if key.startswith("read-wrong"):
                        break       # a listed finding must not hide a different mismatch later in the history
            for k, op in enumerate(h):
                if m[k] != i[k]:
                    ctx.tie_break("D-c %s vs CyVerif.C26.run" % cfg, "op %d %s: model %s impl %s" % (k, op, m[k], i[k]),
                                  {"history": h[:k + 1], "config": cfg})
                    break
        ctx.sample({"config": cfg, "history": hists[2][:10], "impl": impl[2].split(",")[:10] if impl[2] else None, "model": mouts[2][:40]})


def run_isolated(ctx, so, modname, hists):
    """Run each history in its own child process (fresh module state); 16 at a time."""
    import concurrent.futures as cf

    def one(h):
        r = cybuild.run_cases(ctx, so, [("run_hist", "(%r,)" % " ".join(h))], modname=modname)[0]
        if r.startswith("ok str:"):
            return eval(r[len("ok str:"):])
        return None if r.startswith(("crash", "timeout")) else r
    with cf.ThreadPoolExecutor(max_workers=16) as ex:
        return list(ex.map(one, hists))

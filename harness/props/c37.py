"""C37 — prange: sequential results on every schedule (leg 1) and the exit/exception hand-off protocol (leg 2).

Implementation: modules compiled by the STAGED compiler and gcc with -fopenmp (and once without: prange must
degrade to the sequential loop), run with thread counts 1..16, schedules none/static/dynamic/guided/runtime,
chunk sizes, OMP_NUM_THREADS / OMP_SCHEDULE.  Every run records which thread executed which iteration
(`who[k] = threadid()`), i.e. the schedule-as-partition that really happened.
Model: the Lean driver is given the same (n, partition, body) with a random interleaving and a random merge order
(`C37 par`), or the same (partition, iteration outcomes) (`C37 reach` = all interleavings, `C37 allowed`).
Oracle: the Python sequential loop (leg 1); an independent Python implementation of the documented best-effort
outcome set and of the interleaving exploration, plus live-object accounting of the exception instances (leg 2).
"""
import itertools
import os
import re

import cybuild

OPS = ("add", "mul", "sub", "and", "or", "xor")
TYPES = {"uint": ("unsigned int", 32), "ull": ("unsigned long long", 64), "short": ("short", 16), "int": ("int", 32)}
# (name, prange keyword text, uses chunk)
SCHEDS = [("none", "", False), ("static", ", schedule='static'", False),
          ("staticc", ", schedule='static', chunksize=chunk", True),
          ("dynamic", ", schedule='dynamic'", False), ("dynamicc", ", schedule='dynamic', chunksize=chunk", True),
          ("guided", ", schedule='guided'", False), ("guidedc", ", schedule='guided', chunksize=chunk", True),
          ("runtime", ", schedule='runtime'", False)]
RED_VARIANTS = [(s[0], "uint") for s in SCHEDS] + [(s, t) for t in ("ull", "short", "int") for s in ("staticc", "dynamicc")]

RED_HEAD = '''# cython: language_level=3, boundscheck=False, wraparound=False, cdivision=True
from cython.parallel import prange, parallel, threadid
from posix.unistd cimport usleep
'''

RED_FUNC = '''
def red_{name}_{tn}(long start, long stop, long step, int nthreads, int chunk,
        {T}[::1] g, int[::1] aflag, long[::1] aval, int[::1] widx, long[::1] wval, long[::1] arr, int[::1] who,
        {T} i_add, {T} i_mul, {T} i_sub, {T} i_and, {T} i_or, {T} i_xor, long lp0, long i0, int pause):
    cdef long i = i0
    cdef long k
    cdef {T} sadd = i_add, smul = i_mul, ssub = i_sub, sand = i_and, sor = i_or, sxor = i_xor
    cdef long lp = lp0, lpc = lp0
    {pre}for i in prange(start, stop, step{nogil}{nt}{sched}):
    {ind}    k = (i - start) // step
    {ind}    who[k] = threadid()
    {ind}    if pause > 0:
    {ind}        usleep(pause)
    {ind}    sadd += g[k]
    {ind}    smul *= g[k]
    {ind}    ssub -= g[k]
    {ind}    sand &= g[k]
    {ind}    sor |= g[k]
    {ind}    sxor ^= g[k]
    {ind}    lp = aval[k]
    {ind}    if aflag[k]:
    {ind}        lpc = aval[k]
    {ind}    arr[widx[k]] = wval[k]
    return " ".join([str(x) for x in (sadd, smul, ssub, sand, sor, sxor, lp, lpc, i)])
'''


RACE_PROBE = '''
def race_probe(long n, int nthreads):
    # many read-modify-write updates of the reduction variables with no other work: if a variable were left shared
    # (no reduction clause) updates would be lost
    cdef long i
    cdef unsigned int sadd = 7, sxor = 5
    cdef unsigned long long ssub = 3
    for i in prange(n, nogil=True, num_threads=nthreads, schedule='static'):
        sadd += <unsigned int>(i * 40503)
        sxor ^= <unsigned int>(i * 3)
        ssub -= <unsigned long long>i
    return "%d %d %d" % (sadd, sxor, ssub)
'''


def race_oracle(n):
    sadd, sxor, ssub = 7, 5, 3
    for i in range(n):
        sadd = (sadd + i * 40503) & 0xffffffff
        sxor ^= (i * 3) & 0xffffffff
    ssub = (ssub - n * (n - 1) // 2) & 0xffffffffffffffff
    return "%d %d %d" % (sadd, sxor, ssub)


def red_group(name, tn):
    return "a" if tn == "uint" and name != "inpar" else "b"


def red_source(group):
    src = RED_HEAD
    sched = dict((s[0], s[1]) for s in SCHEDS)
    for name, tn in RED_VARIANTS:
        if red_group(name, tn) != group:
            continue
        src += RED_FUNC.format(name=name, tn=tn, T=TYPES[tn][0], sched=sched[name], pre="", ind="",
                               nogil=", nogil=True", nt=", num_threads=nthreads")
    if group == "a":
        return src + RACE_PROBE + RED_WRAPPER
    # prange inside a `with parallel()` block: `#pragma omp parallel` + `#pragma omp for`
    src += RED_FUNC.format(name="inpar", tn="uint", T="unsigned int", sched=", schedule='dynamic', chunksize=chunk",
                           pre="with nogil, parallel(num_threads=nthreads):\n        ", ind="    ", nogil="", nt="")
    return src + RED_WRAPPER


EXIT_HEAD = '''# cython: language_level=3, boundscheck=False, wraparound=False, cdivision=True
from cython.parallel import prange, parallel, threadid
from posix.unistd cimport usleep
import gc
import numpy as np

_created = [0]
_finalized = [0]

class Tracked(Exception):
    def __init__(self, i):
        Exception.__init__(self, i)
        self.idx = i
        _created[0] += 1
    def __del__(self):
        _finalized[0] += 1
'''

EXIT_FUNC = '''
cdef int ex_{name}(int[::1] kind, int[::1] ran, int[::1] who, int[::1] delay, int[::1] els, int nthreads, int chunk) except -2:
    cdef int i
    cdef int n = kind.shape[0]
    for i in prange(n, nogil=True, num_threads=nthreads{sched}):
        who[i] = threadid()
        ran[i] = 1
        if delay[i] > 0:
            usleep(delay[i])
        if kind[i] == 1:
            break
        elif kind[i] == 2:
            return 1000 + i
        elif kind[i] == 3:
            with gil:
                raise Tracked(i)
    else:
        els[0] = 1
    return -1
'''

EXIT_INPAR = '''
cdef int ex_inpar(int[::1] kind, int[::1] ran, int[::1] who, int[::1] delay, int[::1] els, int nthreads, int chunk) except -2:
    # prange inside `with parallel()`: `#pragma omp parallel` + `#pragma omp for`; the prange's own why / exception slot
    # are then per-thread, the hand-off of the modelled protocol happens at the level of the parallel block
    cdef int i
    cdef int n = kind.shape[0]
    with nogil, parallel(num_threads=nthreads):
        for i in prange(n, schedule='static', chunksize=chunk):
            who[i] = threadid()
            ran[i] = 1
            if delay[i] > 0:
                usleep(delay[i])
            if kind[i] == 1:
                els[0] = 2
                break
            elif kind[i] == 2:
                return 1000 + i
            elif kind[i] == 3:
                with gil:
                    raise Tracked(i)
    if els[0] == 0:
        els[0] = 1
    return -1
'''

EXIT_TAIL = '''
def run_exit(variant, kinds, delays, int nthreads, int chunk):
    kind = np.array(kinds, dtype=np.intc)
    delay = np.array(delays, dtype=np.intc)
    ran = np.zeros(len(kinds), dtype=np.intc)
    who = np.full(len(kinds), -1, dtype=np.intc)
    els = np.zeros(1, dtype=np.intc)
    gc.collect()
    c0 = _created[0]
    f0 = _finalized[0]
    try:
        r = _dispatch(variant, kind, ran, who, delay, els, nthreads, chunk)
        out = ("ret:%d" % (r - 1000)) if r >= 1000 else ("fall:0" if els[0] == 1 else "fall:2")
    except Tracked as e:
        out = "raise:%d" % e.idx
        e = None
    except BaseException as e:
        out = "other:" + type(e).__name__
        e = None
    gc.collect()
    return "%s|%s|%s|%d|%d" % (out, ",".join(str(x) for x in ran), ",".join(str(x) for x in who),
                                _created[0] - c0, _finalized[0] - f0)
'''


def exit_source():
    src = EXIT_HEAD
    disp = "\ndef _dispatch(variant, kind, ran, who, delay, els, nthreads, chunk):\n"
    for name, sched, _ in SCHEDS:
        src += EXIT_FUNC.format(name=name, sched=sched)
        disp += "    if variant == %r:\n        return ex_%s(kind, ran, who, delay, els, nthreads, chunk)\n" % (name, name)
    src += EXIT_INPAR
    disp += "    if variant == 'inpar':\n        return ex_inpar(kind, ran, who, delay, els, nthreads, chunk)\n"
    disp += "    raise KeyError(variant)\n"
    return src + disp + EXIT_TAIL


# --------------------------------------------------------------------------
# leg 1: reductions / lastprivate / disjoint writes

def seq_oracle(case):
    """The Python sequential loop (the property's reference)."""
    w = case["w"]
    mask = (1 << w) - 1
    red = dict(zip(OPS, case["init"]))
    lp = lpc = case["lp0"]
    i = case["i0"]
    arr = list(case["arr"])
    k = 0
    for i in range(case["start"], case["stop"], case["step"]):
        g = case["g"][k]
        red["add"] = (red["add"] + g) & mask
        red["mul"] = (red["mul"] * g) & mask
        red["sub"] = (red["sub"] - g) & mask
        red["and"] = red["and"] & g
        red["or"] = red["or"] | g
        red["xor"] = red["xor"] ^ g
        lp = case["aval"][k]
        if case["aflag"][k]:
            lpc = case["aval"][k]
        arr[case["widx"][k]] = case["wval"][k]
        k += 1
    return [red[o] for o in OPS], lp, lpc, i, arr


def gen_red_case(rng, tn, big):
    w = TYPES[tn][1]
    mask = (1 << w) - 1
    shape = rng.random()
    if shape < 0.08:
        N = 0
    elif shape < 0.3:
        N = rng.randint(1, 4)
    else:
        N = rng.randint(5, 200 if big else 48)
    step = rng.choice((1, 1, 1, 2, 3, 7, -1, -1, -2, -5))
    start = rng.randint(-50, 50)
    if N == 0:
        stop = start - rng.choice((0, 1, 5)) * (1 if step > 0 else -1)
    else:
        stop = start + step * (N - 1) + (rng.randint(1, abs(step)) if step > 0 else -rng.randint(1, abs(step)))
    assert len(range(start, stop, step)) == N
    odd = rng.random() < 0.5
    gk = rng.random()
    g = []
    for _ in range(N):
        v = rng.choice((rng.getrandbits(w), rng.getrandbits(w), rng.randint(0, 9), mask - rng.randint(0, 3), 1 << rng.randrange(w)))
        if gk < 0.15:
            v = mask & ~(1 << rng.randrange(w))          # keeps the & reduction informative
        g.append((v | 1) if odd else v)
    alen = N + rng.randint(1, 5)
    widx = rng.sample(range(alen), N)
    lastassign = rng.random() < 0.6
    aflag = [int(rng.random() < 0.4) for _ in range(N)]
    if N and lastassign:
        aflag[-1] = 1
    return {"tn": tn, "w": w, "start": start, "stop": stop, "step": step, "N": N, "g": g,
            "aflag": aflag, "aval": [rng.randint(-10 ** 6, 10 ** 6) for _ in range(N)],
            "widx": widx, "wval": [rng.randint(-10 ** 9, 10 ** 9) for _ in range(N)],
            "arr": [rng.randint(-5, 5) for _ in range(alen)],
            "init": [rng.getrandbits(w), rng.getrandbits(w) | 1, rng.getrandbits(w), mask - rng.getrandbits(3), rng.getrandbits(4), rng.getrandbits(w)],
            "lp0": rng.randint(-99, 99), "i0": rng.choice((-777, 12345)),
            "nthreads": rng.choice((1, 2, 2, 3, 4, 5, 7, 8, 12, 16, rng.randint(1, 16))),
            "chunk": rng.choice((1, 1, 2, 3, 5, 8, 17, 1000)),
            # a short sleep per iteration makes dynamic/guided schedules really hand chunks to several threads
            "pause": rng.choice((0, 20, 50, 100)) if N <= 60 else 0}


def sgn(v, w):
    """value of a w-bit pattern as the signed C type prints it"""
    return v - (1 << w) if v >> (w - 1) else v


def red_call(case, name):
    tn = case["tn"]
    w = case["w"]
    signed = tn in ("short", "int")
    dt = {"uint": "np.uintc", "ull": "np.ulonglong", "short": "np.short", "int": "np.intc"}[tn]
    conv = (lambda v: sgn(v, w)) if signed else (lambda v: v)
    n = max(case["N"], 1)
    pad = lambda l: list(l) + [0] * (n - len(l))
    args = "(%d,%d,%d,%d,%d,np.array(%r,dtype=%s),np.array(%r,dtype=np.intc),np.array(%r,dtype=np.int64)," \
           "np.array(%r,dtype=np.intc),np.array(%r,dtype=np.int64),ARR,WHO,%s,%d,%d,%d)" % (
               case["start"], case["stop"], case["step"], case["nthreads"], case["chunk"],
               [conv(v) for v in pad(case["g"])], dt, pad(case["aflag"]), pad(case["aval"]), pad(case["widx"]), pad(case["wval"]),
               ",".join(str(conv(v)) for v in case["init"]), case["lp0"], case["i0"], case.get("pause", 0))
    # ARR / WHO are created by the wrapper so that their final content comes back in the result string
    return ("call_red", "('red_%s_%s', %r, %d, %r)" % (name, tn, case["arr"], n, args))


RED_WRAPPER = '''
import numpy as np
def call_red(fname, arr, n, argsrc):
    ARR = np.array(arr, dtype=np.int64)
    WHO = np.full(n, -1, dtype=np.intc)
    r = globals()[fname](*eval(argsrc, {"np": np, "ARR": ARR, "WHO": WHO}))
    return r + "|" + ",".join(str(x) for x in ARR) + "|" + ",".join(str(x) for x in WHO)
'''


def lst(xs):
    return ",".join(str(x) for x in xs) if xs else "-"


def red_model_lines(case, who, rng):
    """C37 par lines: the observed partition, a random interleaving, a random merge order."""
    N, w = case["N"], case["w"]
    nthr = max([case["nthreads"]] + [t + 1 for t in who[:N]])
    per = {}
    for k in range(N):
        per.setdefault(who[k], []).append(k)
    queues = [list(v) for v in per.values()]
    tids = list(per.keys())
    sched = []
    live = [j for j in range(len(queues)) if queues[j]]
    while live:
        j = rng.choice(live)
        sched.append("%d:%d" % (tids[j], queues[j].pop(0)))
        if not queues[j]:
            live.remove(j)
    merge = list(range(nthr))
    rng.shuffle(merge)
    lines = []
    for j, op in enumerate(OPS):
        asg = [str(v) for v in case["aval"]] if j != 1 else [str(v) if f else "_" for v, f in zip(case["aval"], case["aflag"])]
        head = "%d %s %d %d %d %d %d %d %s %s %s %s %s" % (
            w, op, N, case["init"][j], case["lp0"], case["i0"], case["start"], case["step"], lst(case["g"]), lst(asg),
            lst(case["widx"]), lst(case["wval"]), lst(case["arr"]))
        lines.append("C37 par " + head + " " + lst(sched) + " " + lst(merge))
        lines.append("C37 seq " + head)
    return lines, nthr


# --------------------------------------------------------------------------
# leg 2: exit protocol

KCH = "cbrx"          # 0 continue, 1 break, 2 return, 3 raise


def allowed_py(kinds, ran, out):
    """Documented best-effort outcome set given the iterations that ran (independent of the Lean text)."""
    raised = [k for k in ran if kinds[k] == 3]
    kind, _, val = out.partition(":")
    if raised:
        return kind == "raise" and val.isdigit() and int(val) in raised
    if kind == "ret":
        return val.isdigit() and int(val) in ran and kinds[int(val)] == 2
    if kind == "fall":
        if val == "0":
            return all(kinds[k] == 0 for k in ran)
        return val == "2" and any(kinds[k] == 1 for k in ran)
    return False


def seq_exit_oracle(kinds):
    """Sequential loop: the first exiting iteration decides."""
    ran = []
    for k, kd in enumerate(kinds):
        ran.append(k)
        if kd == 1:
            return "fall:2", ran
        if kd == 2:
            return "ret:%d" % k, ran
        if kd == 3:
            return "raise:%d" % k, ran
    return "fall:0", ran


def explore_py(kinds, parts, guarded=True, prefer=True, case_ret=True, case_err=True):
    """All interleavings of the hand-off protocol (independent re-implementation of the transition system).
    State: (threads((todo, pc, cur),…), slot, why, ret, released, ran, skipped)."""
    n = len(parts)
    init = (tuple((tuple(p), "i", None) for p in parts), None, 0, None, (), (), ())
    seen = set()
    finals = set()
    stack = [init]
    while stack:
        st = stack.pop()
        if st in seen:
            continue
        seen.add(st)
        ths, slot, why, ret, rel, ran, skp = st
        if all(t[1] == "z" for t in ths):
            w = 4 if (prefer and slot is not None) else why
            cur0 = ths[0][2]
            if w == 3 and case_ret:
                out = "ret:%s" % ("none" if ret is None else ret)
            elif w == 4 and case_err:
                out = "raise:%s" % ("none" if slot is None else slot)
                if cur0 is not None:
                    rel = tuple(sorted(rel + (cur0,)))
                cur0, slot = slot, None
            else:
                out = "fall:%d" % w
            fmt = lambda xs: "[" + ",".join(str(x) for x in xs) + "]"
            finals.add("%s ran=%s rel=%s cur0=%s slot=%s" % (out, fmt(ran), fmt(rel), "none" if cur0 is None else cur0,
                                                           "none" if slot is None else slot))
            continue
        for t in range(n):
            todo, pc, cur = ths[t]

            def put(th, **kw):
                s = {"slot": slot, "why": why, "ret": ret, "rel": rel, "ran": ran, "skp": skp}
                s.update(kw)
                stack.append((ths[:t] + (th,) + ths[t + 1:], s["slot"], s["why"], s["ret"], tuple(sorted(s["rel"])),
                              tuple(sorted(s["ran"])), tuple(sorted(s["skp"]))))
            if pc == "i" and todo:
                k, rest = todo[0], todo[1:]
                if why >= 2:
                    put((rest, "i", cur), skp=skp + (k,))
                kd = kinds[k]
                if kd == 0:
                    put((rest, "i", cur), ran=ran + (k,))
                elif kd == 1:
                    put((rest, "w2", cur), ran=ran + (k,))
                elif kd == 2:
                    put((rest, "r%d" % k, cur), ran=ran + (k,))
                else:
                    put((rest, "f", k), ran=ran + (k,), rel=rel + ((cur,) if cur is not None else ()))
            elif pc == "i":
                if t == 0:
                    put((todo, "z", cur))
                else:
                    put((todo, "z", None), rel=rel + ((cur,) if cur is not None else ()))
            elif pc[0] == "w":
                put((todo, "i", cur), why=int(pc[1:]))
            elif pc[0] == "r":
                put((todo, "w3", cur), ret=int(pc[1:]))
            elif pc == "f":
                if guarded and slot is not None:
                    put((todo, "w4", cur))
                else:
                    put((todo, "w4", None), slot=cur)
    return finals


def gen_exit_case(rng, small):
    if small:
        n = rng.randint(1, 5)
        nthreads = rng.randint(1, 3)
    else:
        n = rng.randint(1, 64)
        nthreads = rng.choice((1, 2, 3, 4, 6, 8, 12, 16, rng.randint(1, 16)))
    dens = rng.choice((0.0, 0.05, 0.15, 0.4, 0.8)) if not small else rng.choice((0.3, 0.6, 0.9))
    kinds = []
    for _ in range(n):
        kinds.append(rng.choice((1, 2, 3, 3)) if rng.random() < dens else 0)
    style = rng.random()
    delays = [0] * n
    if style < 0.35:      # exits at staggered times, so that a later break/return overwrites why=4 and vice versa
        for k in range(n):
            if kinds[k]:
                delays[k] = rng.choice((0, 200, 500, 1000, 2000, 3000))
    elif style < 0.6:     # everybody waits a little: bodies overlap
        delays = [rng.choice((0, 50, 300)) for _ in range(n)]
    elif style < 0.7:     # raise first, break/return clearly later
        for k in range(n):
            if kinds[k] in (1, 2):
                delays[k] = 1500
    variant = rng.choice(SCHEDS)[0] if rng.random() < 0.88 else "inpar"
    if small:
        variant = rng.choice(("staticc", "staticc", "dynamicc", "none"))
    return {"kinds": kinds, "delays": delays, "nthreads": nthreads, "chunk": rng.choice((1, 1, 1, 2, 3, 8)), "variant": variant}


def parse_exit(res):
    """'ok str:'out|ran|who|created|finalized''"""
    m = re.match(r"ok str:'([^|']*)\|([^|']*)\|([^|']*)\|(-?\d+)\|(-?\d+)'$", res)
    if not m:
        return None
    ran = [k for k, v in enumerate(m.group(2).split(",")) if v == "1"] if m.group(2) else []
    who = [int(v) for v in m.group(3).split(",")] if m.group(3) else []
    return m.group(1), ran, who, int(m.group(4)), int(m.group(5))


# --------------------------------------------------------------------------
# leg 2, static shape of the body as a generated dimension: which of raise / break / return / continue the loop body
# CONTAINS decides which labels are used, hence which fix-up / switch cases end_parallel_control_flow_block emits.

SUBSETS = ["".join(c for c, m in zip("xbrc", bits) if m) for bits in itertools.product((1, 0), repeat=4) if any(bits)]
FORMS = ("p1", "p0", "w")       # p1: prange + else clause + return after the loop; p0: prange, no else, no other return
                                # w: prange inside `with parallel()`, return after the loop
KCODE = {"b": 1, "r": 2, "x": 3, "c": 4}


def shape_func(form, S):
    ind = "        " if form == "w" else "    "
    L = ["cdef int sx_%s_%s(int[::1] kind, int[::1] ran, int[::1] who, int[::1] delay, int[::1] flags, int[::1] tail, "
         "int nthreads, int chunk) except -2:" % (form, S), "    cdef int i", "    cdef int n = kind.shape[0]"]
    if form == "w":
        L += ["    with nogil, parallel(num_threads=nthreads):",
              "        for i in prange(n, schedule='static', chunksize=chunk):"]
    else:
        L += ["    for i in prange(n, nogil=True, num_threads=nthreads, schedule='static', chunksize=chunk):"]
    b = ind + "    "
    L += [b + "who[i] = threadid()", b + "ran[i] = 1", b + "if delay[i] > 0:", b + "    usleep(delay[i])"]
    kw = "if"
    for ch, stmt in (("b", "break"), ("r", "return 1000 + i"), ("x", None), ("c", "continue")):
        if ch in S:
            L.append(b + "%s kind[i] == %d:" % (kw, KCODE[ch]))
            if ch == "x":
                L += [b + "    with gil:", b + "        raise Tracked(i)"]
            else:
                L.append(b + "    " + stmt)
            kw = "elif"
    L.append(b + "tail[i] = 1")
    if form == "p1":
        L += [ind + "else:", ind + "    flags[0] = 1"]
    L.append("    flags[1] = 1")
    if form != "p0":
        L.append("    return -1")
    return "\n".join(L) + "\n\n"


SHAPE_TAIL = r"""
def run_shape(fname, kinds, delays, int nthreads, int chunk):
    kind = np.array(kinds, dtype=np.intc)
    delay = np.array(delays, dtype=np.intc)
    ran = np.zeros(len(kinds), dtype=np.intc)
    who = np.full(len(kinds), -1, dtype=np.intc)
    tail = np.zeros(len(kinds), dtype=np.intc)
    flags = np.zeros(2, dtype=np.intc)
    gc.collect()
    c0 = _created[0]
    f0 = _finalized[0]
    try:
        r = _dispatch(fname, kind, ran, who, delay, flags, tail, nthreads, chunk)
        out = ("ret:%d" % (r - 1000)) if r >= 1000 else "fall"
    except Tracked as e:
        out = "raise:%d" % e.idx
        e = None
    except BaseException as e:
        out = "other:" + type(e).__name__
        e = None
    gc.collect()
    return "%s|%s|%s|%d|%d|%d,%d|%s" % (out, ",".join(str(x) for x in ran), ",".join(str(x) for x in who),
                                        _created[0] - c0, _finalized[0] - f0, flags[0], flags[1], ",".join(str(x) for x in tail))
"""


def shape_source(form):
    src = EXIT_HEAD
    disp = "\ndef _dispatch(fname, kind, ran, who, delay, flags, tail, nthreads, chunk):\n"
    for S in SUBSETS:
        src += shape_func(form, S)
        disp += "    if fname == %r:\n        return sx_%s_%s(kind, ran, who, delay, flags, tail, nthreads, chunk)\n" % (S, form, S)
    disp += "    raise KeyError(fname)\n"
    return src + disp + SHAPE_TAIL


def shape_emitted(so, form):
    """Re-read the generated C of every compiled static shape: per function, how many control-flow blocks restore an
    exception (`case 4`), how many of them have the `if (exc_type) why = 4` fix-up, is there a `case 3`."""
    cpath = os.path.join(os.path.dirname(so), "c37sx%s.c" % form)
    txt = open(cpath).read()
    starts = [(m.start(), m.group(1)) for m in re.finditer(r"\nstatic int __pyx_f_\w*?sx_%s_([xbrc]+)\([^;{]*\)\s*\{" % form, txt)]
    out = {}
    for j, (pos, S) in enumerate(starts):
        end = starts[j + 1][0] if j + 1 < len(starts) else txt.find("\n/* Python wrapper */", pos)
        seg = txt[pos:end if end > 0 else len(txt)]
        out[S] = {"fixups": len(re.findall(r"if \(__pyx_parallel_exc_type\) \{\s*(?:/\*.*?\*/\s*)?__pyx_parallel_why = 4;\s*\}", seg, re.S)),
                  "case4": len(re.findall(r"case 4:\s*\{[^}]*?__Pyx_ErrRestoreWithState\(__pyx_parallel_exc_type", seg, re.S)),
                  "case3": len(re.findall(r"case 3: goto", seg)),
                  "guarded_fetch": len(re.findall(r"if \(!__pyx_parallel_exc_type\) \{\s*__Pyx_ErrFetchWithState", seg)),
                  "fetch": seg.count("__Pyx_ErrFetchWithState(&__pyx_parallel_exc_type")}
    return out


def gen_shape_case(rng, small):
    S = rng.choice(SUBSETS)
    form = rng.choice(FORMS)
    n = rng.randint(1, 5) if small else rng.randint(2, 40)
    nthreads = rng.randint(1, 3) if small else rng.choice((2, 2, 3, 4, 8, 16, rng.randint(1, 16)))
    dens = rng.choice((0.3, 0.6, 0.9)) if small else rng.choice((0.1, 0.3, 0.6))
    kinds = [KCODE[rng.choice(S)] if rng.random() < dens else 0 for _ in range(n)]
    delays = [0] * n
    if rng.random() < 0.7:
        for k in range(n):
            if kinds[k]:
                delays[k] = rng.choice((0, 300, 1000, 2500))
    return {"kinds": kinds, "delays": delays, "nthreads": nthreads, "chunk": rng.choice((1, 1, 2)), "variant": "staticc",
            "shape": S, "form": form}


def shape_scenarios():
    """For every static shape and every ordered pair of exit statements it contains: the first exits at once, the second
    2.5 ms later on another thread (later store to parallel_why wins); plus every single exit."""
    out = []
    for S in SUBSETS:
        ex = [c for c in S]
        for form in FORMS:
            for a in ex:
                out.append({"kinds": [KCODE[a], 0], "delays": [0, 0], "nthreads": 2, "chunk": 1, "variant": "staticc", "shape": S, "form": form})
                for b2 in ex:
                    if a != b2 and "c" not in (a, b2):
                        out.append({"kinds": [KCODE[a], KCODE[b2]], "delays": [0, 2500], "nthreads": 2, "chunk": 1,
                                    "variant": "staticc", "shape": S, "form": form})
    return out


def parse_shape(res, case):
    m = re.match(r"ok str:'([^|']*)\|([^|']*)\|([^|']*)\|(-?\d+)\|(-?\d+)\|(\d+),(\d+)\|([^|']*)'$", res)
    if not m:
        return None
    ran = [k for k, v in enumerate(m.group(2).split(",")) if v == "1"]
    who = [int(v) for v in m.group(3).split(",")]
    tail = [int(v) for v in m.group(8).split(",")]
    out = m.group(1)
    els, fin = int(m.group(6)), int(m.group(7))
    kinds = case["kinds"]
    problems = []
    if out == "fall":
        if case["form"] == "p1":
            out = "fall:0" if els else "fall:2"
        else:
            out = "fall:2" if any(kinds[k] == 1 for k in ran) else "fall:0"
        if not fin:
            problems.append("statement after the loop not executed although the loop fell through")
    elif fin:
        problems.append("statement after the loop executed although the loop was left by %s" % out)
    for k in ran:
        if tail[k] != (1 if kinds[k] == 0 else 0):
            problems.append("iteration %d (kind %d): rest of the body %s" % (k, kinds[k], "executed" if tail[k] else "skipped"))
            break
    return (out, ran, who, int(m.group(4)), int(m.group(5))), problems


# --------------------------------------------------------------------------

OMPFLAGS = ["-fopenmp", "-fwrapv"]
ENVS = [{"OMP_SCHEDULE": "dynamic,2", "OMP_NUM_THREADS": "5", "OMP_WAIT_POLICY": "passive"},
        {"OMP_SCHEDULE": "guided", "OMP_NUM_THREADS": "3", "OMP_WAIT_POLICY": "passive"},
        {"OMP_SCHEDULE": "static,3", "OMP_NUM_THREADS": "16", "OMP_WAIT_POLICY": "passive"}]


def run_batched(ctx, so, calls, env, timeout, maxcrash=6, batch=40):
    """run_cases in batches; once several cases have killed the child there is evidence enough: stop early
    (every crash costs a fresh interpreter start)."""
    outs, crashes = [], 0
    for i in range(0, len(calls), batch):
        part = cybuild.run_cases(ctx, so, calls[i:i + batch], timeout_per_case=timeout, env_extra=env)
        outs.extend(part)
        crashes += sum(1 for r in part if r.startswith(("crash", "timeout")))
        if crashes >= maxcrash:
            ctx.notes["stopped_early"] = "a module run was cut short after %d crashing/hanging cases" % crashes
            break
    return outs


def source_variant(so):
    """Which protocol variant does the CURRENT compiler emit? (guard around the fetch, error preferred after the region)"""
    cpath = re.sub(r"\.cpython[^/]*\.so$|\.so$", ".c", so)
    if not os.path.exists(cpath):
        cpath = os.path.join(os.path.dirname(so), "c37exit.c")
    txt = open(cpath).read()
    m = re.search(r"__pyx_L\d+_error:;(.*?)__pyx_parallel_why = 4;", txt, re.S)
    seg = m.group(1) if m else ""
    guarded = bool(re.search(r"if \(!__pyx_parallel_exc_type\) \{\s*__Pyx_ErrFetchWithState\(&__pyx_parallel_exc_type", seg))
    fetches = "__Pyx_ErrFetchWithState(&__pyx_parallel_exc_type" in seg
    prefer = bool(re.search(r"if \(__pyx_parallel_exc_type\) \{\s*(/\*.*?\*/\s*)?__pyx_parallel_why = 4;\s*\}\s*if \(__pyx_parallel_why\)", txt, re.S))
    art = {"fetch_under_gil": bool(re.search(r"PyGILState_Ensure\(\);(?:(?!PyGILState_Release).)*if \(!__pyx_parallel_exc_type\)", seg, re.S)),
           "flush_why": "#pragma omp flush(__pyx_parallel_why)" in txt,
           "critical_return": "#pragma omp critical(__pyx_returning)" in txt,
           "guard_why_lt_2": "if (__pyx_parallel_why < 2)" in txt,
           "restore": "__Pyx_ErrRestoreWithState(__pyx_parallel_exc_type" in txt}
    return guarded, prefer, fetches, art


def red_pragmas(so):
    cpath = os.path.join(os.path.dirname(so), "c37redb.c")
    txt = open(cpath).read() if os.path.exists(cpath) else ""
    return {"reduction_clauses": sorted(set(re.findall(r"reduction\(([-+*&|^]):__pyx_v_s(\w+)\)", txt))),
            "lastprivate": sorted(set(re.findall(r"lastprivate\(__pyx_v_(\w+)\)", txt)))}


def check_red(ctx, case, name, res, omp, rng, pending):
    m = re.match(r"ok str:'([^|']*)\|([^|']*)\|([^|']*)'$", res)
    w, tn, N = case["w"], case["tn"], case["N"]
    rep = {"leg": 1, "case": case, "name": name, "openmp": omp}
    cls = "leg1/%s/%s/%s" % ("omp" if omp else "noomp", name, tn)
    ctx.count(cls)
    if not m:
        ctx.violation("leg1-run-failed-%s" % ("omp" if omp else "noomp"), "red_%s_%s: %s" % (name, tn, res[:120]), rep)
        return
    vals = [int(x) for x in m.group(1).split()]
    arr = [int(x) for x in m.group(2).split(",")]
    who = [int(x) for x in m.group(3).split(",")]
    mask = (1 << w) - 1
    ired = [v & mask for v in vals[:6]]
    ilp, ilpc, ii = vals[6], vals[7], vals[8]
    ored, olp, olpc, oi, oarr = seq_oracle(case)
    nthr_seen = len(set(who[:N]))
    ctx.seen((name, tn, omp, case["start"], case["stop"], case["step"], tuple(case["g"][:4]), tuple(who[:N])), nontrivial=N > 0)
    ctx.count("leg1/threads-used/%d" % nthr_seen)
    for j, op in enumerate(OPS):
        if ired[j] != ored[j]:
            ctx.violation("reduction-%s-differs" % op, "red_%s_%s %s-reduction = %d, sequential loop %d (N=%d, %d threads used, who=%s)"
                          % (name, tn, op, ired[j], ored[j], N, nthr_seen, who[:12]), rep)
    if ilp != olp:
        ctx.violation("lastprivate-differs", "red_%s_%s lp = %d, sequential %d (N=%d who=%s)" % (name, tn, ilp, olp, N, who[:12]), rep)
    if ii != oi:
        ctx.violation("index-differs", "red_%s_%s index after loop = %d, sequential %d (range(%d,%d,%d))"
                      % (name, tn, ii, oi, case["start"], case["stop"], case["step"]), rep)
    if arr != oarr:
        ctx.violation("array-differs", "red_%s_%s array %s, sequential %s" % (name, tn, arr[:10], oarr[:10]), rep)
    if ilpc != olpc:
        if not omp:
            key = "noopenmp-lastprivate-conditional"
        elif N and not case["aflag"][-1]:
            key = "lastprivate-conditional-assign"
        else:
            key = "lastprivate-differs"
        ctx.violation(key, "red_%s_%s conditionally assigned lastprivate = %d, sequential loop %d (N=%d aflag=%s who=%s)"
                      % (name, tn, ilpc, olpc, N, case["aflag"][:8], who[:8]), rep)
    if not omp and any(t != 0 for t in who[:N]):
        ctx.violation("noopenmp-not-sequential", "threadid != 0 without OpenMP: %s" % who[:8], rep)
    lines, nthr = red_model_lines(case, who, rng)
    pending.append((lines, {"ired": ired, "ilp": ilp, "ilpc": ilpc, "ii": ii, "arr": arr, "oracle": (ored, olp, olpc, oi, oarr),
                            "rep": rep, "what": "red_%s_%s" % (name, tn)}))


def settle_red(ctx, pending):
    flat = [l for lines, _ in pending for l in lines]
    outs = ctx.drv.batch(flat) if flat else []
    p = 0
    for lines, info in pending:
        mo = outs[p:p + len(lines)]
        p += len(lines)
        ored, olp, olpc, oi, oarr = info["oracle"]
        for j, op in enumerate(OPS):
            par, seq = mo[2 * j].split(" ", 4), mo[2 * j + 1].split(" ", 4)
            if par[0] != "ok" or seq[0] != "ok":
                ctx.tie_break("C37 par/seq line rejected", "%s -> %s" % (lines[2 * j][:150], mo[2 * j][:80]), info["rep"])
                continue
            exp_lp = info["ilpc"] if j == 1 else info["ilp"]
            got = (int(par[1]), int(par[2]), int(par[3]), par[4])
            impl = (info["ired"][j], exp_lp, info["ii"], "[" + ",".join(str(x) for x in info["arr"]) + "]")
            if got != impl:
                ctx.tie_break("D-c prange result vs CyVerif.C37.parRun", "%s op=%s model(red,lp,idx,arr)=%s impl=%s"
                              % (info["what"], op, str(got)[:120], str(impl)[:120]), info["rep"])
            sq = (int(seq[1]), int(seq[2]), int(seq[3]), seq[4])
            orc = (ored[j], olpc if j == 1 else olp, oi, "[" + ",".join(str(x) for x in oarr) + "]")
            if sq != orc:
                ctx.tie_break("CyVerif.C37.seqRun vs Python sequential loop", "%s op=%s model %s oracle %s"
                              % (info["what"], op, str(sq)[:120], str(orc)[:120]), info["rep"])


def parts_static(n, nthreads, chunk):
    parts = [[] for _ in range(nthreads)]
    for k in range(n):
        parts[(k // chunk) % nthreads].append(k)
    return parts


def check_exit(ctx, case, res, omp, variant_flags, lines, meta, reach_cache, parsed=None, emit=None, problems=()):
    kinds, nthreads = case["kinds"], case["nthreads"]
    n = len(kinds)
    rep = {"leg": 2, "case": case, "openmp": omp}
    vname = case["variant"] if "shape" not in case else "shape-%s-%s" % (case["form"], case["shape"])
    ctx.count("leg2/%s/%s/threads=%d" % ("omp" if omp else "noomp", vname, nthreads if omp else 1))
    pr = parsed if parsed is not None else parse_exit(res)
    if pr is None:
        key = "exit-crash" if res.startswith(("crash", "timeout")) else "exit-run-failed"
        ctx.violation(key, "run_exit(%s, kinds=%s, threads=%d): %s" % (case["variant"], "".join(KCH[k] for k in kinds)[:60], nthreads, res[:100]), rep)
        return
    out, ran, who, created, finalized = pr
    kstr = "".join(KCH[k] for k in kinds)
    desc = "run_exit(%s, kinds=%s, delays=%s, threads=%d, chunk=%d) -> %s ran=%s" % (
        vname, kstr[:70], str(case["delays"])[:60], nthreads, case["chunk"], out, str(ran)[:80])
    ctx.seen((vname, kstr, nthreads, case["chunk"], out, tuple(ran)), nontrivial=any(kinds))
    for pb in problems:
        ctx.violation("exit-body-control-flow", desc + ": " + pb, rep)
    nraise = sum(1 for k in ran if kinds[k] == 3)
    ctx.count("leg2/outcome/" + out.split(":")[0] + ("/several-raised" if nraise > 1 else ""))
    if created != nraise:
        ctx.violation("exception-count", desc + ": %d exception objects created, %d iterations raised" % (created, nraise), rep)
    if finalized != created:
        ctx.violation("exception-leak" if finalized < created else "exception-double-release",
                      desc + ": %d exception objects created, %d finalized after the call" % (created, finalized), rep)
    ok = allowed_py(kinds, ran, out)
    if ok and not any(kinds[k] for k in ran) and len(ran) != n:
        ok = False
    if not ok:
        if nraise and not out.startswith("raise"):
            key = "exit-raised-exception-lost"
        elif out.startswith("other"):
            key = "exit-wrong-exception"
        else:
            key = "exit-outcome-not-allowed"
        ctx.violation(key, desc + " is outside the documented best-effort set", rep)
    if not omp or nthreads == 1:
        so, sran = seq_exit_oracle(kinds)
        if (out, ran) != (so, sran):
            ctx.violation("sequential-exit-differs" if omp else "noopenmp-exit-differs",
                          desc + "; the sequential loop gives %s ran=%s" % (so, str(sran)[:60]), rep)
    if not omp and any(t > 0 for t in who):
        ctx.violation("noopenmp-not-sequential", desc + " threadid != 0 without OpenMP", rep)
    # model legs
    if out.split(":")[0] in ("raise", "ret", "fall") and out.split(":")[1].isdigit():
        alts = [out, "fall:0", "fall:2"] + ["raise:%d" % k for k in ran[:2]] + ["ret:%d" % k for k in ran[-2:]]
        for o in alts:
            lines.append("C37 allowed %s %s %s" % (kstr, lst(ran), o))
            meta.append(("allowed", o, "true" if allowed_py(kinds, ran, o) else "false", o == out, desc, rep))
    small = n <= 5 and nthreads <= 3 and case["variant"] == "staticc" and case.get("form") != "w"
    if small:
        parts = parts_static(n, nthreads if omp else 1, case["chunk"])
        if any(who[k] != t for t, p in enumerate(parts) for k in p if k in ran):
            ctx.count("leg2/small/partition-not-static")
            return
        g, p = variant_flags
        pk = "|".join(lst(x) for x in parts)
        key = (kstr, pk) + (tuple(emit) if emit else ())
        if key not in reach_cache:
            if emit:
                reach_cache[key] = explore_py(kinds, parts, emit[0], emit[1], emit[2], emit[3])
                lines.append("C37 reachE %d %d %d %d %s %s" % (emit[0], emit[1], emit[2], emit[3], kstr, pk))
            else:
                reach_cache[key] = explore_py(kinds, parts, g, p)
                lines.append("C37 reach %d %d %s %s" % (g, p, kstr, pk))
            meta.append(("reach", key, None, None, desc, rep))
        proj = set((f.split(" ")[0], f.split(" ")[1]) for f in reach_cache[key])
        ctx.count("leg2/small/reach-checked")
        if (out, "ran=[" + ",".join(str(k) for k in ran) + "]") not in proj:
            ctx.tie_break("D-c exit outcome vs reachable set of CyVerif.C37.step",
                          desc + " not among the %d reachable (outcome, ran) pairs" % len(proj), rep)


def settle_exit(ctx, lines, meta, reach_cache):
    outs = ctx.drv.batch(lines) if lines else []
    for o, m in zip(outs, meta):
        if m[0] == "allowed":
            _, cand, exp, is_impl, desc, rep = m
            if o != "ok " + exp:
                ctx.tie_break("CyVerif.C37.allowedOutcome vs Python best-effort set", "%s candidate %s: model %s oracle %s" % (desc[:200], cand, o, exp), rep)
            elif is_impl and o != "ok true":
                ctx.tie_break("D-c exit outcome vs CyVerif.C37.allowedOutcome", desc[:300], rep)
        else:
            _, key, _, _, desc, rep = m
            py = ";".join(sorted(reach_cache[key]))
            if o != "ok " + py:
                ctx.tie_break("CyVerif.C37 reach vs Python exploration", "kinds=%s parts=%s emit=%s: model %s / oracle %s" % (key[0], key[1], key[2:], o[:150], py[:150]), rep)


def run(ctx):
    rng = ctx.rng
    ctx.rule = ("leg 1: random prange bodies (six reduction operators on unsigned int / unsigned long long / short / int with -fwrapv, "
                "unconditional and conditional lastprivate, disjoint array writes) over ranges incl. empty and negative steps, threads 1..16 "
                "(num_threads and OMP_NUM_THREADS), schedules none/static/dynamic/guided/runtime x chunk sizes, with and without -fopenmp; "
                "non-trivial = at least one iteration; distinct by (variant, range, operands, observed partition). "
                "leg 2: random iteration outcomes continue/break/return/raise with staggered delays; non-trivial = some iteration exits; "
                "distinct by (variant, kinds, threads, chunk, observed outcome, observed set of executed iterations)")
    ctx.explanation = ("Theorems cover: schedule independence of reduction / lastprivate / index / array results for ALL widths, thread counts, "
                       "partitions, interleavings and merge orders (lastprivate under the hypothesis that the last iteration assigns); and for the "
                       "exit protocol, over ALL interleavings of the modelled atomic steps: exactly-one-owner accounting of every exception object, "
                       "the final outcome lies in the best-effort set. NOT covered by a theorem: the OpenMP runtime itself (that libgomp implements "
                       "reduction/lastprivate/barrier as the standard says), the C memory model (stores to parallel_why are taken as atomic, the "
                       "guard read may be stale), float reductions (not associative: excluded), nested prange / prange inside `with parallel` exits, "
                       "ParallelRangeTransform and reduction inference in TypeInference (only exercised by the compiled modules), "
                       "the nsteps formula and index-type overflow (C14 territory).")
    ctx.assumptions = ["steps executed under the GIL / inside omp critical are atomic; plain int stores to __pyx_parallel_why are atomic",
                       "thread 0 of the team is the calling thread; worker thread states are deleted by PyGILState_Release at the end of the region",
                       "libgomp implements reduction / firstprivate / lastprivate / the closing barrier as OpenMP specifies"]
    ctx.extra_trusted = ["libgomp (gcc 12.2 OpenMP runtime), CPython thread-state handling (PyGILState_*, PyThreadState_Clear)"]
    replay = getattr(ctx, "replay_case", None)
    replay = replay.get("case") if replay else None
    if replay and "probe" in replay:
        replay = None          # a contention probe is reproduced by the normal run
    ex_src = exit_source()
    cfgs = [("omp", OMPFLAGS, ["-fopenmp"], "-O0"), ("noomp", ["-fwrapv"], [], "-O0")]
    if not ctx.quick:
        cfgs.append(("ompO2", OMPFLAGS, ["-fopenmp"], "-O2"))
    specs, keys = [], []
    for cname, cfl, ldf, opt in cfgs:
        mlist = [("c37reda", red_source("a")), ("c37redb", red_source("b")), ("c37exit", ex_src)]
        if cname == "omp":
            mlist += [("c37sxp1", shape_source("p1")), ("c37sxp0", shape_source("p0")), ("c37sxw", shape_source("w"))]
        elif not ctx.quick:       # the sequential cell / -O2 of the static shapes only in the thorough tier (build cost)
            mlist += [("c37sxp1", shape_source("p1"))]
        for mname, src in mlist:
            specs.append(dict(name=mname, source=src, cflags=cfl, ldflags=ldf, opt=opt))
            keys.append((mname, cname))
    built = cybuild.build_many(ctx, specs)
    for s, b in zip(specs, built):
        if isinstance(b, cybuild.BuildError):
            ctx.tie_break("D-c build of %s %s" % (s["name"], s["cflags"]), b.stage + ": " + b.log[-300:], {"leg": 0})
    if any(isinstance(b, cybuild.BuildError) for b in built):
        return
    mods = dict(zip(keys, built))
    ex_omp, ex_no = mods[("c37exit", "omp")], mods[("c37exit", "noomp")]

    def red_so(name, tn, cname):
        return mods[("c37red" + red_group(name, tn), cname)]
    guarded, prefer, fetches, art = source_variant(ex_omp)
    ctx.notes["source_variant"] = {"fetch_guarded": guarded, "error_preferred_after_region": prefer, "fetch_emitted": fetches, "artefacts": art}
    ctx.notes["emitted_clauses"] = red_pragmas(mods[("c37redb", "omp")])
    ctx.obligation("current source emits the guarded fetch (`if (!parallel_exc_type)`): theorems are about Cfg.guarded = true", guarded,
                   "read from the generated C of the exit module")
    ctx.obligation("current source prefers the error after the region (`if (parallel_exc_type) why = 4`): Cfg.preferErr = true", prefer,
                   "read from the generated C of the exit module")
    flags = (int(guarded), int(prefer))

    # ---------------- leg 1
    if replay is None or replay.get("leg") == 1:
        todo = []      # (so, omp, env index, name, case)
        if replay:
            todo.append((red_so(replay["name"], replay["case"]["tn"], "omp" if replay.get("openmp", True) else "noomp"),
                         replay.get("openmp", True), 0, replay["name"], replay["case"]))
        else:
            wit = {"tn": "uint", "w": 32, "start": 0, "stop": 2, "step": 1, "N": 2, "g": [1, 2], "aflag": [1, 0], "aval": [10, 20],
                   "widx": [0, 1], "wval": [7, 8], "arr": [0, 0, 0], "init": [0, 1, 0, 0xffffffff, 0, 0], "lp0": 5, "i0": -777,
                   "nthreads": 2, "chunk": 1}
            todo.append((red_so("staticc", "uint", "omp"), True, 0, "staticc", wit))
            todo.append((red_so("staticc", "uint", "noomp"), False, 0, "staticc", wit))
            per = ctx.n(10, 60)
            for cname, omp in [("omp", True), ("noomp", False)] + ([("ompO2", True)] if not ctx.quick else []):
                for name, tn in RED_VARIANTS + [("inpar", "uint")]:
                    so = red_so(name, tn, cname)
                    for r in range(per if omp else max(3, per // 4)):
                        case = gen_red_case(rng, tn, not ctx.quick)
                        env = rng.randrange(len(ENVS))
                        if rng.random() < 0.12:
                            case["nthreads"] = 0
                        todo.append((so, omp, env, name, case))
        pending = []
        groups = {}
        for item in todo:
            groups.setdefault((item[0], item[2]), []).append(item)
        for (so, env), items in groups.items():
            calls = [red_call(c, name) for (_, _, _, name, c) in items]
            outs = run_batched(ctx, so, calls, ENVS[env], 20.0)
            for (so_, omp, env_, name, c), res in zip(items, outs):
                c = dict(c)
                if c["nthreads"] == 0:
                    c["nthreads_env"] = ENVS[env]["OMP_NUM_THREADS"]
                check_red(ctx, c, name, res, omp, rng, pending)
        settle_red(ctx, pending)
        if not replay:
            # contention probe (search leg only: implementation against the sequential result)
            n = 150000
            probes = [("race_probe", "(%d, %d)" % (n, nt)) for nt in (8, 4, 16) for _ in range(ctx.n(2, 6))]
            exp = "ok str:'%s'" % race_oracle(n)
            for (fn, args), res in zip(probes, run_batched(ctx, mods[("c37reda", "omp")], probes, ENVS[0], 60.0)):
                ctx.count("leg1/race-probe")
                if res != exp:
                    ctx.violation("reduction-race-probe", "race_probe%s = %s, sequential loop %s" % (args, res[:80], exp[:80]),
                                  {"leg": 1, "probe": args})
        if pending:
            ctx.sample({"leg": 1, "what": pending[0][1]["what"], "impl": pending[0][1]["ired"], "oracle": pending[0][1]["oracle"][0]})

    # ---------------- leg 2
    if replay is None or replay.get("leg") == 2:
        todo = []
        if replay:
            if "shape" not in replay["case"]:
                todo.append((ex_omp if replay.get("openmp", True) else ex_no, replay.get("openmp", True), 0, replay["case"]))
        else:
            # boundary scenarios first: several raises at once; raise then late break / return (why=4 overwritten); return then break
            scen = [([3, 3], [0, 0], 2), ([3, 3, 3, 3], [300, 0, 300, 0], 4), ([3, 1], [0, 2500], 2), ([3, 2], [0, 2500], 2),
                    ([1, 3], [0, 2500], 2), ([2, 1], [0, 2500], 2), ([1, 2], [0, 2500], 2), ([3, 1, 2, 0, 3], [0, 1500, 2500, 0, 500], 3),
                    ([0, 0, 0], [0, 0, 0], 3), ([3], [0], 1), ([0, 3, 0, 3], [0, 100, 0, 100], 2)]
            for kinds, delays, nt in scen:
                for rpt in range(ctx.n(3, 10)):
                    todo.append((ex_omp, True, 0, {"kinds": kinds, "delays": delays, "nthreads": nt, "chunk": 1, "variant": "staticc"}))
                todo.append((ex_no, False, 0, {"kinds": kinds, "delays": delays, "nthreads": nt, "chunk": 1, "variant": "staticc"}))
            sos = [(ex_omp, True, ctx.n(400, 3000)), (ex_no, False, ctx.n(60, 400))] + ([(mods[("c37exit", "ompO2")], True, 1500)] if not ctx.quick else [])
            for so, omp, cnt in sos:
                for r in range(cnt):
                    case = gen_exit_case(rng, small=(r % 3 == 0))
                    if rng.random() < 0.1:
                        case["nthreads"] = 0
                    todo.append((so, omp, rng.randrange(len(ENVS)), case))
        lines, meta, reach_cache = [], [], {}
        groups = {}
        for item in todo:
            groups.setdefault((item[0], item[2]), []).append(item)
        wit_rb = [0, 0]
        for (so, env), items in groups.items():
            calls = [("run_exit", "(%r, %r, %r, %d, %d)" % (c["variant"], c["kinds"], c["delays"], c["nthreads"], c["chunk"])) for (_, _, _, c) in items]
            outs = run_batched(ctx, so, calls, ENVS[env], 30.0)
            for (so_, omp, env_, c), res in zip(items, outs):
                c = dict(c)
                if c["nthreads"] == 0:
                    c["nthreads"] = int(ENVS[env]["OMP_NUM_THREADS"]) if omp else 1
                    c["nthreads_from_env"] = True
                check_exit(ctx, c, res, omp, flags, lines, meta, reach_cache)
                if omp and c["kinds"] == [2, 1] and c["delays"] == [0, 2500]:
                    wit_rb[1] += 1
                    wit_rb[0] += int("'fall:2|" in res)
                if len(ctx.samples) < 6 and any(c["kinds"]):
                    ctx.sample({"leg": 2, "kinds": "".join(KCH[k] for k in c["kinds"])[:40], "threads": c["nthreads"], "result": res[:120]})
        # ---- static shape of the body as a dimension (15 subsets of raise/break/return/continue x 3 forms)
        emitted = {}
        for form in FORMS:
            try:
                emitted[form] = shape_emitted(mods[("c37sx" + form, "omp")], form)
            except Exception as e:      # the translator cannot read the C any more: a broken tie, not a crash
                emitted[form] = {}
                ctx.obligation("generated C of the static-shape variants (%s) is readable" % form, False, repr(e)[:200])
            bad = []
            for S in SUBSETS:
                inf = emitted[form].get(S)
                if inf is None:
                    bad.append(S + ":not-found")
                elif not (inf["fixups"] == inf["case4"] and (inf["case4"] > 0) == ("x" in S) and (inf["case3"] > 0) == ("r" in S)
                          and inf["guarded_fetch"] == inf["fetch"] and (inf["fetch"] > 0) == ("x" in S)):
                    bad.append("%s:%s" % (S, inf))
            ctx.obligation("form %s: every compiled static shape has the emission of srcEmit (fix-up and case 4 with guarded fetch iff the "
                           "body can raise, one fix-up per restoring block, case 3 iff the body contains return)" % form, not bad,
                           "15 shapes re-read from the generated C" if not bad else "deviating shapes: " + "; ".join(bad)[:500])
        ctx.notes["static_shapes"] = {f: {S: [v["fixups"], v["case4"], v["case3"]] for S, v in emitted[f].items()} for f in FORMS}

        def emit_of(form, S):
            inf = emitted.get(form, {}).get(S)
            if inf is None:
                return None
            return (int(inf["guarded_fetch"] == inf["fetch"]), int(inf["fixups"] > 0 and inf["fixups"] == inf["case4"]),
                    int(inf["case3"] > 0), int(inf["case4"] > 0))
        stodo = []
        if replay:
            if "shape" in replay["case"]:
                stodo.append((replay.get("openmp", True), 0, replay["case"]))
        else:
            for sc in shape_scenarios():
                for rpt in range(ctx.n(1, 3)):
                    stodo.append((True, 0, sc))
                if not ctx.quick and sc["form"] == "p1" and len(sc["kinds"]) == 2 and sc["delays"][1]:
                    stodo.append((False, 0, sc))
            for r in range(ctx.n(300, 2500)):
                stodo.append((True, rng.randrange(len(ENVS)), gen_shape_case(rng, small=(r % 2 == 0))))
            for r in range(ctx.n(0, 300)):
                c = gen_shape_case(rng, small=(r % 2 == 0))
                c["form"] = "p1"
                stodo.append((False, 0, c))
            if not ctx.quick:
                for r in range(800):
                    c = gen_shape_case(rng, small=False)
                    c["form"] = "p1"
                    stodo.append(("O2", rng.randrange(len(ENVS)), c))
        sgroups = {}
        for item in stodo:
            omp, env, c = item
            cname = "ompO2" if omp == "O2" else ("omp" if omp else "noomp")
            sgroups.setdefault((mods[("c37sx" + c["form"], cname)], env), []).append(item)
        for (so, env), items in sgroups.items():
            calls = [("run_shape", "(%r, %r, %r, %d, %d)" % (c["shape"], c.get("kinds_static", c["kinds"]), c["delays"], c["nthreads"], c["chunk"]))
                     for (_, _, c) in items]
            outs = run_batched(ctx, so, calls, ENVS[env], 30.0)
            for (omp, env_, c), res in zip(items, outs):
                c = dict(c)
                c["kinds"] = list(c.get("kinds_static", c["kinds"]))
                c["kinds_static"] = list(c["kinds"])
                pp = parse_shape(res, c)
                c["kinds"] = [0 if k == 4 else k for k in c["kinds"]]
                check_exit(ctx, c, res, bool(omp), flags, lines, meta, reach_cache, parsed=pp[0] if pp else None,
                           emit=emit_of(c["form"], c["shape"]), problems=pp[1] if pp else ())
        settle_exit(ctx, lines, meta, reach_cache)
        ctx.notes["return_then_break_witness"] = ("iteration 0 returns, iteration 1 (other thread) breaks 2.5 ms later: the function fell through "
                                                  "after the loop in %d of %d runs (allowed by the documentation; theorem return_can_lose_to_break)" % tuple(wit_rb))

"""C35 leg 1: the real `FunctionState` (staged Code.py) against the Lean model and the property spec.

An operation history is a list of tokens (the model's line protocol):
  a<m><s><r>:<id>:<refc><func><cv><wrap>   allocate_temp(type, manage_ref=m, static=s, reusable=r)
  r<n>                                     release_temp('__pyx_t_<n>')
  q                                        all query sets
  cs / ce                                  start_collecting_temps / stop_collecting_temps
"""
import copy
import itertools

import lib

PREFIX = None      # Naming.codewriter_temp_prefix


class StubScope:
    name = "verif_stub"

    def __init__(self, cpp_locals):
        self.directives = {"cpp_locals": cpp_locals}
        self.used = []

    def use_utility_code(self, uc):
        self.used.append(uc)


class StubOwner:
    def __init__(self):
        self.lines = []

    def putln(self, s):
        self.lines.append(s)


class Types:
    """Pool of real PyrexTypes; descriptor = what the model is told about a type."""

    def __init__(self):
        from Cython.Compiler import PyrexTypes as PT, Builtin, Naming
        global PREFIX
        PREFIX = Naming.codewriter_temp_prefix
        self.PT = PT
        cpp = PT.CppClassType("Vec", None, "Vec", [])
        struct = PT.CStructOrUnionType("S", "struct", None, 1, "S")
        fn1 = PT.CFuncType(PT.c_int_type, [], exception_check=False)
        fn2 = PT.CFuncType(PT.c_double_type, [PT.CFuncTypeArg("x", PT.c_int_type, None)], exception_check=False)
        mv = PT.MemoryViewSliceType(PT.c_double_type, [("direct", "strided")])
        self.leaves = [PT.py_object_type, Builtin.list_type, Builtin.dict_type, mv, PT.c_int_type, PT.c_double_type,
                       PT.c_char_ptr_type, struct, cpp, fn1, fn2, PT.c_py_ssize_t_type]
        self.pool = []          # (type object, token)
        for i, leaf in enumerate(self.leaves):
            self.pool.append(leaf)
            if not leaf.needs_refcounting and not leaf.is_cfunction:
                c = PT.c_const_type(leaf)
                self.pool.append(c)
                if leaf.is_cpp_class or leaf is PT.c_int_type or leaf is PT.c_double_type:
                    self.pool += [PT.CReferenceType(leaf), PT.CReferenceType(c), PT.CFakeReferenceType(leaf),
                                  PT.CFakeReferenceType(c), PT.CppRvalueReferenceType(leaf), PT.CppRvalueReferenceType(c)]
        self.tok = {id(t): self.describe(t) for t in self.pool}
        self.by_tok = {self.describe(t): t for t in self.pool}

    def known_leaf(self, t):
        for leaf in self.leaves:
            try:
                if leaf is t or (type(leaf) is type(t) and hash(leaf) == hash(t) and leaf == t):
                    return True
            except Exception:
                pass
        return False

    def leaf_id(self, t):
        for i, leaf in enumerate(self.leaves):
            if leaf is t or (type(leaf) is type(t) and hash(leaf) == hash(t) and leaf == t):
                return i
        raise lib.Infra("unknown leaf type %r" % (t,))

    def describe(self, t, out=False):
        """'<id>:<refc><func><cv><wrap>' (input token) / '<id>.<refc><func><cv><wrap><ptr>' (out=True)"""
        PT = self.PT
        wrap = cv = ptr = 0
        if isinstance(t, PT.CFakeReferenceType):
            wrap, t = 2, t.ref_base_type
        elif isinstance(t, PT.CReferenceType):
            wrap, t = 1, t.ref_base_type
        elif isinstance(t, PT.CppRvalueReferenceType):
            wrap, t = 3, t.ref_base_type
        if isinstance(t, PT.CQualifierType):
            cv, t = 1, t.cv_base_type
        if out and isinstance(t, PT.CPtrType) and t.base_type.is_cfunction and not self.known_leaf(t):
            ptr, t = 1, t.base_type
        i = self.leaf_id(t)
        flags = "%d%d%d%d" % (1 if t.needs_refcounting else 0, 1 if t.is_cfunction else 0, cv, wrap)
        return "%d.%s%d" % (i, flags, ptr) if out else "%d:%s" % (i, flags)


def num(name):
    if not name.startswith(PREFIX):
        raise lib.Infra("unexpected temp name %r" % name)
    return int(name[len(PREFIX):])


def snapshot(fs):
    return (list(fs.temps_allocated), {k: (list(v[0]), set(v[1])) for k, v in fs.temps_free.items()},
            dict(fs.temps_used_type), set(fs.zombie_temps), fs.temp_counter, [set(x) for x in fs.collect_temps_stack])


def render_query(T, fs):
    u = ["%d:%s:%d" % (num(n), T.describe(t, True), 1 if m else 0) for n, t, m in fs.temps_in_use()]
    h = [num(n) for n, t in fs.temps_holding_reference()]
    m = [num(n) for n, t in fs.all_managed_temps()]
    f = [num(n) for n, t in fs.all_free_managed_temps()]
    a = ["%d:%s:%d%d" % (num(n), T.describe(t, True), 1 if mg else 0, 1 if st else 0) for n, t, mg, st in fs.temps_allocated]
    z = sorted(num(n) for n in fs.zombie_temps)
    lst = lambda xs: "[" + ",".join(map(str, xs)) + "]"
    return "U%sH%sM%sF%sA%sZ" % (lst(u), lst(h), lst(m), lst(f), lst(a)), z


def run_impl(Code, T, taken, ops, cpp_locals=False, debug=False):
    """Returns (outputs, spec_violations).  spec_violations: list of (key, what) found by the
    property spec computed here independently of the model (oracle leg)."""
    from Cython.Compiler import DebugFlags
    owner = StubOwner()
    fs = Code.FunctionState(owner, names_taken=set(PREFIX + str(n) for n in taken), scope=StubScope(cpp_locals))
    old_dbg = DebugFlags.debug_temp_code_comments
    DebugFlags.debug_temp_code_comments = debug
    outs, bad = [], []
    live = {}            # oracle bookkeeping: name -> (type token after canon is unknown to the oracle: the key object)
    ever = {}            # name -> key under which it was first handed out
    held_seen = set()    # managed names that were in use at some point (must be in the final cleanup set)
    never_again = set()  # names handed out for reusable=False requests
    zorder = []
    try:
        for i, op in enumerate(ops):
            if op == "q":
                s, z = render_query(T, fs)
                # zombies: a set in Python; the model lists them in allocation order
                outs.append(s + "[" + ",".join(map(str, z)) + "]")
                inuse = set(n for n, t, m in fs.temps_in_use())
                held = set(n for n, t in fs.temps_holding_reference())
                allm = [n for n, t in fs.all_managed_temps()]
                free = [n for n, t in fs.all_free_managed_temps()]
                if inuse != set(live):
                    bad.append(("fs-in-use-set", "temps_in_use %s but handed out and not released: %s" % (sorted(inuse), sorted(live))))
                if not held <= set(allm):
                    bad.append(("fs-cleanup-miss", "in use and managed but not in all_managed_temps: %s" % sorted(held - set(allm))))
                deadz = set(n for n in allm if n in fs.zombie_temps and n not in inuse)
                if len(set(allm)) != len(allm) or set(allm) != held | set(free) | deadz or (held & set(free)):
                    bad.append(("fs-partition", "all_managed %s != holding %s + free %s + released non-reusable %s"
                                % (allm, sorted(held), free, sorted(deadz))))
                held_seen |= held
            elif op == "cs":
                fs.start_collecting_temps()
                outs.append("-")
            elif op == "ce":
                try:
                    got = fs.stop_collecting_temps()
                    outs.append("[" + ",".join(map(str, sorted(num(n) for n, t in got))) + "]")
                except IndexError:
                    outs.append("IndexError")
            elif op[0] == "r":
                name = PREFIX + op[1:]
                before = snapshot(fs)
                try:
                    fs.release_temp(name)
                    outs.append("ok")
                    if name not in live:
                        bad.append(("fs-release-accepted", "release of %s accepted although it is not in use (op %d)" % (name, i)))
                    live.pop(name, None)
                except (KeyError, RuntimeError) as e:
                    outs.append(type(e).__name__)
                    if name in live:
                        bad.append(("fs-release-rejected", "release of in-use %s raised %s" % (name, type(e).__name__)))
                    if snapshot(fs) != before:
                        bad.append(("fs-failed-release-mutates", "state changed by the rejected release of %s" % name))
            else:
                head, ids, flags = op.split(":")
                ty = T.by_tok[ids + ":" + flags]
                m, s, r = (c == "1" for c in head[1:4])
                name = fs.allocate_temp(ty, m, static=s, reusable=r)
                outs.append(str(num(name)))
                key = fs.temps_used_type[name]
                if name in live:
                    bad.append(("fs-double-handout", "%s handed out while in use (op %d)" % (name, i)))
                if name in never_again:
                    bad.append(("fs-nonreusable-reissued", "%s was allocated with reusable=False and is handed out again (op %d)" % (name, i)))
                if not r:
                    never_again.add(name)
                if name in ever and ever[name] != key:
                    bad.append(("fs-reuse-other-key", "%s re-issued for another (type, manage_ref) (op %d)" % (name, i)))
                if name in (PREFIX + str(n) for n in taken):
                    bad.append(("fs-name-taken", "%s is in names_taken" % name))
                ever.setdefault(name, key)
                live[name] = key
                if key[1]:
                    held_seen.add(name)
        final = set(n for n, t in fs.all_managed_temps())
        if not held_seen <= final:
            bad.append(("fs-cleanup-miss", "managed temps once in use missing from the final cleanup list: %s" % sorted(held_seen - final)))
    finally:
        DebugFlags.debug_temp_code_comments = old_dbg
    return outs, bad


def model_line(taken, ops):
    return "C35 fs %s %s" % (",".join(map(str, taken)) or "-", " ".join(ops))


# ---------------------------------------------------------------------------
# generators

ALPHA_ALLOC = ["a101:0:1000", "a100:0:1000", "a001:0:1000", "a001:4:0000", "a101:4:0000", "a001:4:0010", "a101:1:1000"]
ALPHA_REL = ["r1", "r2", "r3", "r9"]


def enum_histories(maxlen):
    """ALL histories up to maxlen over the small alphabet, a query after every operation."""
    alpha = ALPHA_ALLOC + ALPHA_REL
    for n in range(1, maxlen + 1):
        for combo in itertools.product(alpha, repeat=n):
            if combo[0][0] == "r" and n > 1 and combo[0] != "r1":
                continue        # a release on the empty state: one representative is enough
            ops = []
            for c in combo:
                ops += [c, "q"]
            yield ((), tuple(ops), False)


def random_history(rng, Code, T, length, ntypes, p_bad, p_query, taken):
    """Generated online against the real class so that most releases hit temps in use."""
    toks = rng.sample(sorted(T.by_tok), min(ntypes, len(T.by_tok)))
    # always some refcounted type
    toks.append(rng.choice(["0:1000", "1:1000", "3:1000"]))
    fs = Code.FunctionState(StubOwner(), names_taken=set(PREFIX + str(n) for n in taken), scope=StubScope(False))
    ops = []
    p_rel = rng.choice((0.3, 0.45, 0.5, 0.6))
    p_zombie = rng.choice((0.0, 0.05, 0.3))
    depth = 0
    for _ in range(length):
        x = rng.random()
        if x < p_query:
            ops.append("q")
            continue
        if x < p_query + 0.03:
            if depth and rng.random() < 0.6:
                ops.append("ce"); depth -= 1; fs.stop_collecting_temps()
            elif depth == 0 and rng.random() < 0.1:
                ops.append("ce")
            else:
                ops.append("cs"); depth += 1; fs.start_collecting_temps()
            continue
        try:
            inuse = [n for n, t, m in fs.temps_in_use()]
        except Exception:
            break
        if rng.random() < p_rel and (inuse or rng.random() < 0.2):
            if inuse and rng.random() >= p_bad:
                name = rng.choice(inuse[-4:]) if rng.random() < 0.7 else rng.choice(inuse)
            else:
                name = PREFIX + str(rng.randint(1, fs.temp_counter + 2))
            ops.append("r" + str(num(name)))
            try:
                fs.release_temp(name)
            except (KeyError, RuntimeError):
                pass
        else:
            tok = rng.choice(toks)
            m = rng.random() < 0.8
            r = rng.random() >= p_zombie
            s = (not r) and rng.random() < 0.5
            ops.append("a%d%d%d:%s" % (m, s, r, tok))
            try:
                fs.allocate_temp(T.by_tok[tok], m, static=s, reusable=r)
            except Exception:
                break       # a broken class: the history so far is the case (run_impl observes the exception)
    ops.append("q")
    return tuple(ops)


def check_batch(ctx, Code, T, cases, label):
    """cases: (taken tuple, ops tuple, cpp_locals).  Three-way comparison."""
    lines = [model_line(tk, ops) for tk, ops, _ in cases]
    mouts = ctx.drv.batch(lines)
    for (tk, ops, cppl), mo in zip(cases, mouts):
        try:
            outs, bad = run_impl(Code, T, tk, ops, cpp_locals=cppl, debug=(len(ops) % 7 == 3))
            impl = "ok " + " ".join(outs)
        except Exception as e:          # anything else the real class raises is an observation
            impl, bad = "raised %s: %s" % (type(e).__name__, str(e)[:120]), []
        nerr = sum(1 for o in impl.split() if o in ("KeyError", "RuntimeError"))
        nreuse = 0
        ctx.count("%s:len<=%d" % (label, 1 << max(0, (len(ops) - 1)).bit_length()))
        ctx.count("fs:rejected-release" if nerr else "fs:no-rejected-release")
        ctx.seen(("fs", tk, ops), nontrivial=any(o[0] == "a" for o in ops) and any(o[0] == "r" for o in ops))
        replay = {"leg": "fs", "taken": list(tk), "ops": list(ops), "cpp_locals": cppl}
        for key, what in bad:
            ctx.violation(key, what[:300] + " | history: " + " ".join(ops)[:200], replay)
        if impl != mo:
            ctx.tie_break("FunctionState-vs-model", ("impl %s | model %s | ops %s" % (diff_at(impl, mo) + (" ".join(ops)[:150],))), replay)
    if cases:
        ctx.sample({"leg": "fs-" + label, "ops": " ".join(cases[len(cases) // 2][1])[:200]})


def diff_at(a, b):
    ta, tb = a.split(" "), b.split(" ")
    for i, (x, y) in enumerate(zip(ta, tb)):
        if x != y:
            return ("@%d %s" % (i, x[:120]), y[:120])
    return ("len %d" % len(ta), "len %d" % len(tb))


# ---------------------------------------------------------------------------
# leg 2: histories and cleanup lists of REAL compilations


class DynTypes(Types):
    """descriptors for whatever types a real compilation allocates temps for (leaf ids assigned on first sight)"""

    def __init__(self, base):
        self.PT = base.PT
        self.leaves = []

    def leaf_id(self, t):
        for i, leaf in enumerate(self.leaves):
            try:
                if leaf is t or (type(leaf) is type(t) and hash(leaf) == hash(t) and leaf == t):
                    return i
            except Exception:
                pass
        self.leaves.append(t)
        return len(self.leaves) - 1


class Recorder:
    """Wraps FunctionState / CCodeWriter methods in-process while modules are compiled."""

    def __init__(self, Code, T):
        self.Code = Code
        self.T = T
        self.records = []
        self.saved = {}

    def __enter__(self):
        Code, rec = self.Code, self
        FS, CW = Code.FunctionState, Code.CCodeWriter
        self.saved = {(FS, n): getattr(FS, n) for n in ("__init__", "allocate_temp", "release_temp", "all_managed_temps",
                                                         "all_free_managed_temps", "temps_holding_reference")}
        self.saved[(CW, "error_goto")] = CW.error_goto
        orig = {k[1]: v for k, v in self.saved.items()}

        def init(fs, *a, **k):
            orig["__init__"](fs, *a, **k)
            fs._verif = {"ops": [], "top_label": fs.error_label, "types": DynTypes(rec.T),
                         "scope": getattr(getattr(fs, "scope", None), "name", None)}
            rec.records.append(fs._verif)

        def snap(fs):
            fs._verif["busy"] = True
            try:
                s, z = render_query(fs._verif["types"], fs)
            finally:
                fs._verif["busy"] = False
            return s + "[" + ",".join(map(str, z)) + "]"

        def allocate_temp(fs, type, manage_ref, static=False, reusable=True):
            tok = fs._verif["types"].describe(type)
            name = orig["allocate_temp"](fs, type, manage_ref, static, reusable)
            fs._verif["ops"].append(("a", "a%d%d%d:%s" % (bool(manage_ref), bool(static), bool(reusable), tok), str(num(name))))
            return name

        def release_temp(fs, name):
            try:
                orig["release_temp"](fs, name)
                fs._verif["ops"].append(("r", "r%d" % num(name), "ok"))
            except (KeyError, RuntimeError) as e:
                fs._verif["ops"].append(("r", "r%d" % num(name), type(e).__name__))
                raise

        def all_managed_temps(fs):
            res = orig["all_managed_temps"](fs)
            if fs._verif.get("busy"):
                return res
            fs._verif["ops"].append(("M", "q", snap(fs), [num(n) for n, t in res]))
            return res

        def all_free_managed_temps(fs):
            res = orig["all_free_managed_temps"](fs)
            if fs._verif.get("busy"):
                return res
            fs._verif["ops"].append(("F", "q", snap(fs), [num(n) for n, t in res], fs.error_label,
                                     [num(n) for n, t in orig["temps_holding_reference"](fs)]))
            return res

        def temps_holding_reference(fs):
            res = orig["temps_holding_reference"](fs)
            if fs._verif.get("busy"):
                return res
            fs._verif["ops"].append(("H", "q", snap(fs), [num(n) for n, t in res]))
            return res

        def error_goto(cw, pos, used=True):
            fs = cw.funcstate
            if fs is not None and hasattr(fs, "_verif"):
                fs._verif["ops"].append(("G", "q", snap(fs), [num(n) for n, t in orig["temps_holding_reference"](fs)], fs.error_label))
            return orig["error_goto"](cw, pos, used)

        FS.__init__, FS.allocate_temp, FS.release_temp = init, allocate_temp, release_temp
        FS.all_managed_temps, FS.all_free_managed_temps, FS.temps_holding_reference = all_managed_temps, all_free_managed_temps, temps_holding_reference
        CW.error_goto = error_goto
        return self

    def __exit__(self, *exc):
        for (cls, n), v in self.saved.items():
            setattr(cls, n, v)
        return False


def compile_recorded(ctx, Code, T, modname, src):
    """compile `src` in-process with the staged compiler, return the per-function records"""
    import os
    from Cython.Compiler.Main import compile as cy_compile, CompilationOptions
    from Cython.Compiler import Errors
    d = os.path.join(ctx.scratch, "rec_" + modname)
    os.makedirs(d, exist_ok=True)
    path = os.path.join(d, modname + ".py")
    with open(path, "w") as f:
        f.write(src)
    import contextlib, io
    with Recorder(Code, T) as rec, contextlib.redirect_stderr(io.StringIO()), contextlib.redirect_stdout(io.StringIO()):
        try:
            res = cy_compile(path, CompilationOptions(language_level=3))
            ok = res.num_errors == 0
        except Exception as e:
            ok = False
            ctx.notes.setdefault("compile_recording_errors", []).append("%s: %s" % (modname, repr(e)[:200]))
    return rec.records if ok else None


def check_recording(ctx, modname, src, records):
    """model replay + the property spec on the recorded histories"""
    lines, metas = [], []
    for rec in records:
        ops = rec["ops"]
        if not any(o[0] == "a" for o in ops):
            continue
        lines.append("C35 fs - " + " ".join(o[1] for o in ops))
        metas.append(rec)
    outs = ctx.drv.batch(lines) if lines else []
    for rec, line, mo in zip(metas, lines, outs):
        ops = rec["ops"]
        impl = "ok " + " ".join(o[2] for o in ops)
        replay = {"leg": "compile", "module": modname, "function": rec["scope"], "ops": line.split(" ")[3:], "module_source": src[:12000]}
        ctx.count("compile:funcstate")
        ctx.count("compile:error_goto", sum(1 for o in ops if o[0] == "G"))
        ctx.count("compile:handler-cleanup-list", sum(1 for o in ops if o[0] == "F"))
        ctx.seen(("compile", line), nontrivial=any(o[0] == "G" for o in ops))
        if impl != mo:
            ctx.tie_break("recorded-compilation-vs-model", "function %s of %s: impl %s | model %s" % ((rec["scope"], modname) + diff_at(impl, mo)), replay)
        # oracle: cleanup lists cover the managed temps in use at every error_goto
        final = None
        for o in ops:
            if o[0] == "M":
                final = set(o[3])
        handler = {}
        for o in ops:
            if o[0] == "F" and o[4] != rec["top_label"]:
                # (a try/finally that does not handle errors keeps the enclosing error label: its list is not
                # the cleanup of that label)
                handler[o[4]] = (set(o[3]), set(o[5]))
        for i, o in enumerate(ops):
            if o[0] != "G":
                continue
            held, label = set(o[3]), o[4]
            if final is not None and not held <= final:
                ctx.violation("compile-cleanup-miss:function-error-label",
                              "function %s of %s: managed temps %s in use at an error_goto are not in the all_managed_temps() list %s xdecref'ed at the error label"
                              % (rec["scope"], modname, sorted(held - final), sorted(final)), replay)
            if label in handler:
                free, still = handler[label]
                if not held <= free | still:
                    ctx.violation("compile-cleanup-miss:handler",
                                  "function %s of %s: managed temps %s in use at an error_goto to %s are neither in all_free_managed_temps() %s nor still in use %s at the handler"
                                  % (rec["scope"], modname, sorted(held - free - still), label, sorted(free), sorted(still)), replay)
            elif label != rec["top_label"]:
                ctx.count("compile:error_goto-to-other-label")
        # no managed non-reusable temps (hypothesis of the *_partial theorems)
        for o in ops:
            if o[0] == "a" and o[1][1] == "1" and o[1][3] == "0" and o[1].split(":")[2][0] == "1":
                ctx.violation("compile-managed-nonreusable-temp", "function %s of %s requests a managed temp with reusable=False: %s"
                              % (rec["scope"], modname, o[1]), replay)

"""C02 — object arithmetic with constant operands matches CPython.

Implementation: modules of one-line functions `def f(x): return x OP c` / `return c OP x` / `x OP= c` / `cdef bint r = x == c`
for every operator and a constant set around the compiler's admissibility limits, compiled by the STAGED compiler + gcc
(default build, -DCYTHON_USE_PYLONG_INTERNALS=0, and -O2 in the thorough tier).  Which helper each function calls
(`__Pyx_PyLong_{op}{order}`, `__Pyx_PyLong_[Bool]{Eq,Ne}…`, `__Pyx_PyFloat_…`, with which intval / zerodivision_check) is
read back from the generated C, so the compiler's *selection* is tied to the Lean predicate `Admissible` as well.
Model: lean/CyVerif/Model/C02*.lean through cydrv (path + value / exception / "fallback").
Oracle: CPython's `operator` functions on the same operands in the parent process.
"""
import math
import operator
import os
import re
import subprocess
import sys
import sysconfig

import cybuild
import lib

# ---------------------------------------------------------------------------------------------------------------
# operators

INT_OPS = [  # template op name, Python operator text, operator function, in-place function
    ("Add", "+", operator.add, operator.iadd),
    ("Subtract", "-", operator.sub, operator.isub),
    ("Multiply", "*", operator.mul, operator.imul),
    ("Remainder", "%", operator.mod, operator.imod),
    ("FloorDivide", "//", operator.floordiv, operator.ifloordiv),
    ("TrueDivide", "/", operator.truediv, operator.itruediv),
    ("And", "&", operator.and_, operator.iand),
    ("Or", "|", operator.or_, operator.ior),
    ("Xor", "^", operator.xor, operator.ixor),
    ("Lshift", "<<", operator.lshift, operator.ilshift),
    ("Rshift", ">>", operator.rshift, operator.irshift),
    ("Eq", "==", operator.eq, None),
    ("Ne", "!=", operator.ne, None),
]
OPINFO = {o[0]: o for o in INT_OPS}
DIV_OPS = ("Remainder", "FloorDivide", "TrueDivide")
SHIFT_OPS = ("Lshift", "Rshift")
CMP_OPS = ("Eq", "Ne")
FLOAT_OPS = ("Add", "Subtract", "TrueDivide", "Remainder", "Eq", "Ne")   # PyFloatBinop instantiations (`Divide` is Python 2 only)

B = 2 ** 30
INT_CONSTS = [0, 1, -1, 2, -2, 7, -7, 255, 2 ** 15, -2 ** 15, 2 ** 15 - 1, B - 1, -(B - 1), B, -B]
INT_CONSTS_OUT = [B + 1, -(B + 1), 2 ** 31, 2 ** 62]                    # beyond the admissible range: generic code expected
SHIFT_CONSTS = [1, 2, 7, 29, 30, 31, 32, 33, 59, 60, 61, 62, 63]
SHIFT_CONSTS_OUT = [0, 64, 65]
FLOAT_CONSTS = ["0.5", "1.0", "-1.0", "2.0", "7.5", "-7.5", "0.0", "1e300", "-1e300", "9007199254740992.0", "9007199254740993.0",
                "1e-320", "1073741824.0", "3.0", "-2.5", "1e999"]


def admissible(op, order, c):
    """Python mirror of `CyVerif.C02.Admissible` (tied to the Lean definition by a kernel-checked obligation)."""
    if abs(c) > B:
        return False
    if op in DIV_OPS and not (order == "ObjC" and c != 0):
        return False
    if op in SHIFT_OPS and not (order == "ObjC" and 1 <= c <= 63):
        return False
    return True


def float_admissible(op, order, c):
    """`optimise_numeric_binop` + `_optimise_num_div` for a float constant `c` (no Lean counterpart: the float theorems hold
    for every constant; the limits only matter for which C path runs)."""
    if op not in FLOAT_OPS:
        return False
    if op in ("TrueDivide", "Remainder") and order == "ObjC":
        return c != 0 and -2.0 ** 53 <= c <= 2.0 ** 53
    return True


# ---------------------------------------------------------------------------------------------------------------
# helper classes: plain Python, imported by the child (through `_verif_env`) and by the parent (oracle)

HELPERS = r'''
from fractions import Fraction
from decimal import Decimal
inf = float('inf'); nan = float('nan')

class IntSub(int):
    pass

class FloatSub(float):
    pass

def _mk(name, ops):
    ns = {}
    for meth in ops:
        def f(self, other=None, _m=meth, _n=name):
            return (_n, _m, int.__repr__(self) if isinstance(self, int) else float.__repr__(self))
        ns[meth] = f
    return ns

_BIN = ['add', 'sub', 'mul', 'mod', 'floordiv', 'truediv', 'and', 'or', 'xor', 'lshift', 'rshift']
_ALL = ['__%s__' % b for b in _BIN] + ['__r%s__' % b for b in _BIN] + ['__eq__', '__ne__']
# int / float subclasses overriding every operator (the helpers must take the generic path and call these)
IntOp = type('IntOp', (int,), dict(_mk('IntOp', _ALL), __hash__=int.__hash__))
FloatOp = type('FloatOp', (float,), dict(_mk('FloatOp', _ALL), __hash__=float.__hash__))
# in-place methods are preferred by `x op= c`
IntIOp = type('IntIOp', (int,), dict(_mk('IntIOp', ['__i%s__' % b for b in _BIN]), __hash__=int.__hash__))

class Other:
    """not a number: implements reflected / direct operators itself"""
    def __init__(self, tag): self.tag = tag
    def __repr__(self): return 'Other(%r)' % (self.tag,)
    def __radd__(self, o): return ('Other.radd', self.tag, o)
    def __add__(self, o): return ('Other.add', self.tag, o)
    def __rmod__(self, o): return ('Other.rmod', self.tag, o)
    def __eq__(self, o): return ('Other.eq', self.tag, o)
    def __ne__(self, o): return ()
    __hash__ = None
'''

_ns = {}
exec(HELPERS, _ns)


def canon(v):
    """must equal `canon` of cybuild._RUNNER"""
    inf = float("inf")
    if isinstance(v, float):
        return 'float:' + (v.hex() if v == v and v not in (inf, -inf) else repr(v))
    if isinstance(v, complex):
        return 'complex:' + canon(v.real) + ',' + canon(v.imag)
    if isinstance(v, (tuple, list)):
        return type(v).__name__ + ':[' + ';'.join(canon(x) for x in v) + ']'
    return type(v).__name__ + ':' + repr(v)


def outcome(fn, *args):
    try:
        return "ok " + canon(fn(*args))
    except BaseException as e:   # noqa
        return "err " + type(e).__name__


# ---------------------------------------------------------------------------------------------------------------
# test modules

HEADER = "def _verif_env():\n    import c02_helpers\n    return dict(vars(c02_helpers))\n\n"


def ctext(c):
    return c if isinstance(c, str) else "%d" % c


def gen_function(name, op, order, c, form):
    sym = OPINFO[op][1]
    ct = ctext(c)
    if form == "plain":
        expr = "x %s %s" % (sym, ct) if order == "ObjC" else "%s %s x" % (ct, sym)
        return "def %s(x): return %s\n" % (name, expr)
    if form == "inplace":
        return "def %s(x):\n    x %s= %s\n    return x\n" % (name, sym, ct)
    if form == "bint":
        expr = "x %s %s" % (sym, ct) if order == "ObjC" else "%s %s x" % (ct, sym)
        return "def %s(x):\n    if %s: return True\n    return False\n" % (name, expr)
    raise ValueError(form)


def build_plan(ctx):
    """Returns {module name: (source, [function records])}."""
    rng = ctx.rng
    plan = {}

    def add(mod, rec):
        src, recs = plan.setdefault(mod, ([HEADER], []))
        rec["name"] = "f%d" % len(recs)
        rec["line"] = sum(s.count("\n") for s in src) + 1
        text = gen_function(rec["name"], rec["op"], rec["order"], rec["c"], rec["form"])
        if rec["form"] != "plain":
            rec["line"] += 1          # the operator is on the second line of the function
        src.append(text)
        recs.append(rec)

    extra = [rng.randrange(-B, B + 1) for _ in range(ctx.n(2, 6))]
    for op, sym, _, ifn in INT_OPS:
        if op in SHIFT_OPS:
            consts = SHIFT_CONSTS + SHIFT_CONSTS_OUT
        else:
            consts = INT_CONSTS + INT_CONSTS_OUT + extra
        mod = "c02_" + op.lower()
        for c in consts:
            for order in ("ObjC", "CObj"):
                if op in SHIFT_OPS and order == "CObj" and c not in (1, 7, 63, 64):
                    continue     # `c << x` is never optimised; a few probes
                if op in SHIFT_OPS and order == "CObj":
                    pass
                add(mod, dict(kind="int", op=op, order=order, c=c, form="plain"))
                if op in CMP_OPS:
                    add(mod, dict(kind="int", op=op, order=order, c=c, form="bint"))
            if op not in CMP_OPS:
                add(mod, dict(kind="int", op=op, order="ObjC", c=c, form="inplace"))
    for op in ("Add", "Subtract", "Multiply", "TrueDivide", "FloorDivide", "Remainder", "Eq", "Ne"):
        mod = "c02_float_" + op.lower()
        for c in FLOAT_CONSTS:
            for order in ("ObjC", "CObj"):
                add(mod, dict(kind="float", op=op, order=order, c=c, form="plain"))
                if op in CMP_OPS and c in ("7.5", "2.0", "0.0"):
                    add(mod, dict(kind="float", op=op, order=order, c=c, form="bint"))
            if op not in CMP_OPS and c in ("0.5", "7.5", "2.0", "-2.5"):
                add(mod, dict(kind="float", op=op, order="ObjC", c=c, form="inplace"))
    return {m: ("".join(src), recs) for m, (src, recs) in plan.items()}


CALL_RE = re.compile(r"(__Pyx_Py(Long|Float)_(Bool)?([A-Za-z]+?)(ObjC|CObj))\((.*?)\)\)?; if \(unlikely")
ERR_RE = re.compile(r"__PYX_ERR\(0, (\d+),")


def parse_cnum(s, is_float):
    s = s.strip()
    if is_float:
        s = s.replace("((double)", "").replace(")", "").strip()
        if s in ("Py_HUGE_VAL", "__PYX_INF", "INFINITY"):
            return float("inf")
        if s.startswith("-") and s[1:].strip() in ("Py_HUGE_VAL", "__PYX_INF", "INFINITY"):
            return float("-inf")
        return float(s)
    return int(s.rstrip("Ll"), 0)


def scan_c(cpath):
    """line number of the .pyx -> (family 'Long'|'Float', is_bool, op, order, intval, inplace, zerodivision_check|None)"""
    calls = {}
    problems = []
    with open(cpath) as f:
        for line in f:
            if "__Pyx_Py" not in line:
                continue
            m = CALL_RE.search(line)
            e = ERR_RE.search(line)
            if not (m and e):
                continue
            fam, isb, op, order, args = m.group(2), bool(m.group(3)), m.group(4), m.group(5), m.group(6)
            parts = [a.strip() for a in args.split(", ")]
            try:
                if fam == "Long" and op in CMP_OPS:
                    val, inplace, zc = parse_cnum(parts[-2], False), int(parts[-1]), None
                else:
                    val, inplace, zc = parse_cnum(parts[-3], fam == "Float"), int(parts[-2]), int(parts[-1])
            except (ValueError, IndexError) as ex:
                problems.append("cannot parse helper call %r: %s" % (line.strip()[:200], ex))
                continue
            calls[int(e.group(1))] = (fam, isb, op, order, val, inplace, zc)
    return calls, problems


# ---------------------------------------------------------------------------------------------------------------
# inputs

def boundary_ints():
    vals = list(range(-9, 10)) + [255, 256, 257, -255, -256, -257]
    for k in range(1, 6):
        for base in (2 ** (15 * k), 2 ** (30 * k)):
            for d in (-1, 0, 1):
                vals += [base + d, -base + d]
    for e in (52, 53, 62, 63, 64):
        for d in (-2, -1, 0, 1, 2):
            vals += [2 ** e + d, -(2 ** e) + d]
    vals += [2 ** 59 + 12345, -(2 ** 59) - 5, 2 ** 60 - 1, -(2 ** 60) + 1, 2 ** 1023, 2 ** 1024, -(2 ** 1024), 2 ** 1024 - 2 ** 970]
    seen, out = set(), []
    for v in vals:
        if v not in seen:
            seen.add(v)
            out.append(v)
    return out


def random_ints(rng, n):
    out = []
    for _ in range(n):
        mode = rng.random()
        if mode < 0.45:
            bits = rng.choice((8, 14, 15, 16, 29, 30, 31, 32, 44, 45, 46, 52, 53, 54, 59, 60, 61, 62, 63, 64, 65, 89, 90, 91, 120, 200))
            v = rng.getrandbits(bits)
        elif mode < 0.75:   # digit patterns: all-ones / zero low digits
            nd = rng.randint(1, 5)
            v = 0
            for i in range(nd):
                v |= rng.choice((0, 1, 2 ** 30 - 1, 2 ** 29, rng.getrandbits(30))) << (30 * i)
        else:
            v = 2 ** rng.randint(1, 130) + rng.randint(-3, 3)
        out.append(-v if rng.random() < 0.5 else v)
    return out


OBJECT_SRCS = [
    "True", "False", "IntSub(5)", "IntSub(0)", "IntSub(-7)", "IntSub(2**70)", "IntOp(5)", "IntOp(0)", "IntIOp(5)",
    "FloatSub(2.5)", "FloatSub(0.0)", "FloatOp(2.5)",
    "'abc'", "'%d'", "None", "[1, 2]", "(1,)", "b'ab'", "(1+2j)", "Fraction(1, 3)", "Decimal(7)", "Other('t')",
]
FLOAT_SRCS = [
    "nan", "inf", "-inf", "0.0", "-0.0", "5e-324", "-5e-324", "2.2250738585072014e-308", "1e308", "-1.7976931348623157e308",
    "0.5", "1.5", "-2.5", "7.0", "-7.0", "7.5", "-7.5", "3.0", "1.0", "-1.0", "2.0", "1073741824.0", "-1073741824.0",
    "9007199254740992.0", "-9007199254740992.0", "9007199254740994.0", "1e22", "1e300", "-1e300", "15.0", "-15.0", "0.1",
]


def random_floats(rng, n):
    out = []
    for _ in range(n):
        m = rng.random()
        if m < 0.4:
            v = rng.uniform(-100, 100)
        elif m < 0.6:
            v = float(rng.randint(-2 ** 54, 2 ** 54))
        elif m < 0.8:
            v = math.ldexp(rng.random(), rng.randint(-1074, 1023)) * rng.choice((-1, 1))
        else:
            v = rng.choice((7.5, -7.5, 2.0, 0.5, 2.5)) * rng.randint(-20, 20)
        out.append("float.fromhex(%r)" % v.hex())
    return out


def fcls(f):
    if f != f:
        return "nan"
    if f in (float("inf"), float("-inf")):
        return "pinf" if f > 0 else "ninf"
    return "int:%d" % int(f) if f.is_integer() else "frac"


def icls(f):
    if f != f:
        return "nan"
    neg = math.copysign(1.0, f) < 0
    if f in (float("inf"), float("-inf")):
        return "ninf" if neg else "pinf"
    if f == 0:
        return "nzero" if neg else "pzero"
    return "nfin" if neg else "pfin"


def describe(x):
    if type(x) is int:
        return "int %d" % x
    if type(x) is float:
        return "float " + fcls(x)
    return "other"


def c_fmod(a, b):
    """C99 fmod (math.fmod raises where C returns NaN)"""
    if a != a or b != b or a in (float("inf"), float("-inf")) or b == 0:
        return float("nan")
    if b in (float("inf"), float("-inf")):
        return a
    return math.fmod(a, b)


def c_div(a, b):
    """C double division (no exception)"""
    if b == 0:
        if a != a or a == 0:
            return float("nan")
        return math.copysign(float("inf"), a) * math.copysign(1.0, b)
    return a / b


def skip_case(rec, x):
    """inputs whose *correct* evaluation needs gigabytes / minutes"""
    c = rec["cval"]
    if rec["op"] == "Multiply" and isinstance(x, (str, list, tuple, bytes)) and abs(c) > 1000:
        return True
    if rec["op"] == "Lshift" and rec["order"] == "CObj" and isinstance(x, int) and abs(x) > 10 ** 6:
        return True
    return False


# ---------------------------------------------------------------------------------------------------------------
# platform probe, template facts

def probe(ctx):
    d = os.path.join(ctx.scratch, "probe")
    os.makedirs(d, exist_ok=True)
    src = ("#include <Python.h>\n#include <stdio.h>\nint main(void) {\n"
           " int nsw = 0, gnu = 0;\n"
           "#if (defined(__GNUC__) || defined(__clang__)) && (defined(__arm__) || defined(__x86_64__) || defined(__i386__))\n nsw = 1;\n#endif\n"
           "#if defined(__GNUC__) || defined(__clang__)\n gnu = 1;\n#endif\n"
           " printf(\"%d %zu %zu %zu %zu %d %d\\n\", (int)PyLong_SHIFT, sizeof(int), sizeof(long), sizeof(long long), sizeof(size_t), nsw, gnu);\n"
           " return 0; }\n")
    open(os.path.join(d, "probe.c"), "w").write(src)
    p = subprocess.run(["gcc", "-w", "-I" + sysconfig.get_paths()["include"], "probe.c", "-o", "probe"], cwd=d,
                       stdout=subprocess.PIPE, stderr=subprocess.STDOUT, text=True)
    if p.returncode != 0:
        raise lib.Infra("platform probe does not compile: " + p.stdout[-500:])
    out = subprocess.run([os.path.join(d, "probe")], stdout=subprocess.PIPE, text=True).stdout.split()
    vals = [int(v) for v in out]
    if vals[0] != sys.int_info.bits_per_digit:
        raise lib.Infra("PyLong_SHIFT of the headers differs from the running interpreter")
    return vals


def section(text, name):
    m = re.search(r"^/{5,} %s /{5,}\s*$" % re.escape(name), text, re.M)
    if not m:
        return None
    rest = text[m.end():]
    e = re.search(r"^/{5,} [\w.]+ /{5,}\s*$", rest, re.M)
    return rest[:e.start()] if e else rest


def remfix_variant(ctx):
    """Which text the `%` fix-up of PyFloatBinop has in the staged template (selects the model variant)."""
    text = open(os.path.join(ctx.stage, "Cython", "Utility", "Optimize.c")).read()
    sec = section(text, "PyFloatBinop") or ""
    flat = re.sub(r"\s+", " ", sec)
    if "result += ((result < 0) ^ (b < 0)) * b;" in flat:
        return "remfix", None
    if re.search(r"if \(\(result < 0\) \^ \(b < 0\)\) (\{ )?result \+= b;", flat):
        return "remfix-repaired", None
    return "remfix", "the sign fix-up after fmod() in PyFloatBinop matches neither known text"


IC = ["nan", "pinf", "ninf", "pzero", "nzero", "pfin", "nfin"]


def rem_value(desc, r, b):
    if desc == "nan":
        return float("nan")
    if desc == "keep":
        return r
    if desc == "plusB":
        return r + b
    if desc == "zeroSignB":
        return math.copysign(0.0, b)
    raise ValueError(desc)


def xclass(x):
    if type(x) is int:
        return "int"
    if type(x) is float:
        return "float-" + {"nan": "nan", "pinf": "inf", "ninf": "inf", "pzero": "zero", "nzero": "zero"}.get(icls(x), "fin")
    if type(x) is bool:
        return "bool"
    if isinstance(x, (int, float)):
        return "subclass"
    return "other"


class Env:
    pass


def model_line(E, rec, call, x):
    """The driver line for one call (None: the function uses generic code)."""
    if call is None:
        return None
    fam, isb, op, order, val, inplace, zc = call
    c = rec["cval"]
    if fam == "Long" and op in CMP_OPS:
        same = 1 if (type(x) is int and -5 <= x <= 256 and x == c) else 0
        return "C02 cmp %s %s %s %d %d %s" % (E.plat, rec["cfg"], op, same, c, describe(x))
    if fam == "Long":
        return "C02 binop %s %s %s %s %d %d %s" % (E.plat, rec["cfg"], op, order, zc, c, describe(x))
    return "C02 fbin %s %s %s %s 0 %d %s %s" % (E.plat, rec["cfg"], op, order, zc, fcls(c), describe(x))


def expected_from_model(E, rec, mout, x):
    """outcome string predicted by the model, None if the model defers to CPython, 'UB …' for an undefined-behaviour outcome"""
    head = mout.split(" @")[0]
    t = head.split()
    c = rec["cval"]
    if t[0] == "fallback":
        return None
    if t[0] == "ub" or t[0] == "bad-op":
        return "UB " + head
    if t[0] == "err":
        return "err " + t[1]
    kind = t[1]
    if kind == "int":
        return "ok int:%s" % t[2]
    if kind == "bool":
        return "ok bool:%s" % ("True" if t[2] == "1" else "False")
    if kind == "quot":
        return outcome(operator.truediv, int(t[2]), int(t[3]))
    if kind == "flt":
        op, order = t[2], t[3]
        cf = float(c)
        a, b = (x, cf) if order == "ObjC" else (cf, x)
        fn = {"Add": operator.add, "Subtract": operator.sub, "Multiply": operator.mul, "TrueDivide": c_div}[op]
        return "ok " + canon(float(fn(float(a), float(b))))
    if kind == "arith":
        op, order, src = t[2], t[3], t[4]
        if src == "pyfloat":
            xd = float(x)
        else:
            v = int(t[5])
            try:
                xd = float(v)
            except OverflowError:
                return "err OverflowError"
            if src == "exact" and int(xd) != v:
                return "UB inexact conversion claimed exact"
        a, b = (xd, c) if order == "ObjC" else (c, xd)
        if op == "Add":
            r = a + b
        elif op == "Subtract":
            r = a - b
        elif op == "TrueDivide":
            r = c_div(a, b)
        elif op == "Remainder":
            fm = c_fmod(a, b)
            r = rem_value(E.remtable[(icls(b), icls(fm))], fm, b)
        elif op == "Eq":
            return "ok bool:%s" % (a == b)
        elif op == "Ne":
            return "ok bool:%s" % (a != b)
        else:
            return "UB unknown op " + op
        return "ok " + canon(r)
    return "UB unparsed " + head


def oracle_outcome(rec, x):
    c = rec["cval"]
    _, _, fn, ifn = OPINFO[rec["op"]]
    if rec["form"] == "inplace":
        return outcome(ifn, x, c)
    a, b = (x, c) if rec["order"] == "ObjC" else (c, x)
    if rec["form"] == "bint":
        return outcome(lambda p, q: bool(fn(p, q)), a, b)
    return outcome(fn, a, b)


def violation_key(rec, x, impl, oracle):
    key = "%s-%s-%s-%s" % (rec["kind"], rec["op"], rec["order"], xclass(x))
    if (rec["kind"] == "float" and rec["op"] == "Remainder" and rec["order"] == "CObj" and xclass(x) == "float-inf"
            and impl == "ok float:nan" and oracle.startswith("ok float:") and oracle != "ok float:nan"):
        return "float-const-mod-infinity"
    # `__Pyx_PyNumber_Multiply_*` (utility PyNumberBinop, used for non-admissible int constants and for float `*`):
    # "if (float_op1 == 0.) return op1" drops the sign of the product
    if (rec["op"] == "Multiply" and impl in ("ok float:0x0.0p+0", "ok float:-0x0.0p+0") and oracle in ("ok float:0x0.0p+0", "ok float:-0x0.0p+0")):
        c = rec["cval"]
        fl, it = (x, c) if type(x) is float else (c, x)
        if type(fl) is float and fl == 0 and type(it) is int:
            return "number-binop-float-zero-times-int-sign"
    return key


# ---------------------------------------------------------------------------------------------------------------
# evaluation of one built module

IMMUTABLE = (int, float, bool, str, bytes, tuple, complex, type(None))
_xcache = {}


def xval(src):
    if src in _xcache:
        return _xcache[src]
    v = eval(src, _ns)
    if isinstance(v, IMMUTABLE):
        _xcache[src] = v
    return v


def int_inputs(ctx, rec, shared):
    c = rec["cval"]
    srcs = list(shared["bints"])
    if isinstance(c, int) and c != 0:
        rel = [c, -c, c + 1, c - 1, 2 * c, 3 * c + 1, -3 * c - 1, c * 12345, c * 2 ** 31 + 5, -c * 2 ** 29, c * (2 ** 60 // abs(c)), c * 2 ** 70]
        srcs += ["%d" % v for v in rel]
    srcs += shared["rints"]
    srcs += OBJECT_SRCS + shared["fsub"]
    return srcs


def float_inputs(ctx, rec, shared):
    return FLOAT_SRCS + shared["rfloats"] + shared["bints_f"] + shared["rints_f"] + OBJECT_SRCS


def evaluate(ctx, E, so, recs, calls, shared, cfgname, only=None):
    """Three-way comparison of every (function, input) of one module.  Returns list of (rec, xsrc) with model != impl."""
    cases, meta = [], []
    for rec in recs:
        if only and rec["name"] not in only:
            continue
        srcs = only[rec["name"]] if only else (int_inputs(ctx, rec, shared) if rec["kind"] == "int" else float_inputs(ctx, rec, shared))
        for s in srcs:
            x = xval(s)
            if skip_case(rec, x):
                continue
            cases.append((rec["name"], "(%s,)" % s))
            meta.append((rec, s))
    outs = cybuild.run_cases(ctx, so, cases, env_extra={"PYTHONPATH": ctx.stage + os.pathsep + E.helperdir})
    lines, idx = [], []
    for k, (rec, s) in enumerate(meta):
        ml = model_line(E, rec, calls.get(rec["line"]), xval(s))
        if ml is not None:
            idx.append(k)
            lines.append(ml)
    mouts = dict(zip(idx, ctx.drv.batch(lines))) if lines else {}
    disagreements = []
    for k, ((rec, s), impl) in enumerate(zip(meta, outs)):
        x = xval(s)
        oracle = oracle_outcome(rec, x)
        mout = mouts.get(k)
        pred = expected_from_model(E, rec, mout, x) if mout is not None else None
        path = (mout.split(" @")[1] if mout and " @" in mout else (mout.split()[0] + "-" + mout.split()[1] if mout else "generic"))
        ctx.count("%s/%s/%s" % (rec["kind"], rec["op"], path if mout is None or mout.split()[0] != "fallback" else "fallback:" + path))
        ctx.seen((cfgname, rec["op"], rec["order"], rec["c"] if isinstance(rec["c"], str) else rec["c"], rec["form"], s),
                 nontrivial=(pred is not None or type(x) is not int))
        if pred is not None and len(ctx.samples) < 8 and abs(hash(s)) % 97 == 0:
            ctx.sample({"config": cfgname, "function": gen_function(rec["name"], rec["op"], rec["order"], rec["c"], rec["form"]).strip(),
                        "x": s, "impl": impl, "model": mout, "oracle": oracle})
        rp = {"function": gen_function("f0", rec["op"], rec["order"], rec["c"], rec["form"]), "kind": rec["kind"], "op": rec["op"],
              "order": rec["order"], "c": rec["c"], "form": rec["form"], "x": s, "config": cfgname, "cflags": rec["cflags"],
              "opt": rec["opt"], "impl": impl, "oracle": oracle, "model": mout}
        if impl != oracle:
            ctx.violation(violation_key(rec, x, impl, oracle),
                          "%s [%s] x=%s: compiled %s, CPython %s (model: %s)" % (rp["function"].strip().replace("\n", " ; "), cfgname, s, impl,
                                                                               oracle, mout), rp)
        if pred is not None and pred != impl:
            ctx.tie_break("D-c %s%s vs CyVerif.C02" % (rec["op"], rec["order"]),
                          "%s [%s] x=%s: model %s => %s, compiled %s" % (rp["function"].strip().replace("\n", " ; "), cfgname, s, mout, pred, impl),
                          rp)
            disagreements.append((rec, s))
    return disagreements


def neighbours(ctx, s):
    x = xval(s)
    out = []
    if type(x) is int:
        for d in (1, 2, 3, 5):
            out += [x + d, x - d, -x + d, -x - d]
        for k in (0, 14, 15, 29, 30, 31, 44, 45, 59, 60, 61, 62, 63, 64, 89, 90):
            out += [x ^ (1 << k), x + (1 << k), x - (1 << k)]
        bl = max(x.bit_length(), 2)
        for _ in range(150):
            v = ctx.rng.getrandbits(bl) | (1 << (bl - 1))
            out.append(-v if x < 0 else v)
        return ["%d" % v for v in out]
    if type(x) is float and x == x and x not in (float("inf"), float("-inf")):
        outf = [x * 2, x / 2, -x, x + 1, x - 1, math.nextafter(x, math.inf), math.nextafter(x, -math.inf)]
        outf += [ctx.rng.uniform(-abs(x) - 1, abs(x) + 1) for _ in range(60)]
        return ["float.fromhex(%r)" % v.hex() for v in outf] + ["inf", "-inf", "nan", "0.0", "-0.0"]
    return []


# ---------------------------------------------------------------------------------------------------------------

LEAN_OP = {"Add": ".add", "Subtract": ".sub", "Multiply": ".mul", "Remainder": ".rem", "FloorDivide": ".fdiv", "TrueDivide": ".tdiv",
           "And": ".and", "Or": ".or", "Xor": ".xor", "Lshift": ".lsh", "Rshift": ".rsh"}


def lean_admissible_file(triples):
    src = ["import CyVerif.Props.C02", "open CyVerif.C02"]
    for op, order, c in triples:
        ordl = ".objC" if order == "ObjC" else ".cObj"
        if op in CMP_OPS:
            prop = "((%d : Int).natAbs ≤ 2 ^ 30)" % c
        else:
            prop = "Admissible %s %s (%d)" % (LEAN_OP[op], ordl, c)
        src.append("example : %s%s := by decide" % ("" if admissible(op, order, c) else "¬ ", prop))
    return "\n".join(src) + "\n"


def check_selection(ctx, recs, calls, problems, modname):
    """The helper the compiler selected for each function == what `Admissible` / the documented float rule says."""
    not_opt = 0
    for rec in recs:
        call = calls.get(rec["line"])
        c = rec["cval"]
        want = admissible(rec["op"], rec["order"], c) if rec["kind"] == "int" else float_admissible(rec["op"], rec["order"], c)
        fn_text = gen_function(rec["name"], rec["op"], rec["order"], rec["c"], rec["form"]).strip().replace("\n", " ; ")
        if call is None:
            if want:
                not_opt += 1
                ctx.notes.setdefault("admissible_but_generic", []).append(fn_text) if len(ctx.notes.get("admissible_but_generic", [])) < 20 else None
            continue
        fam, isb, op, order, val, inplace, zc = call
        exp_fam = "Long" if rec["kind"] == "int" else "Float"
        exp_zc = None if (fam == "Long" and op in CMP_OPS) else (1 if (rec["kind"] == "float" and order == "CObj" and op in ("TrueDivide", "Remainder")) else 0)
        ok = (want and fam == exp_fam and op == rec["op"] and order == rec["order"] and isb == (rec["form"] == "bint")
              and inplace == (1 if rec["form"] == "inplace" else 0) and zc == exp_zc
              and (val == c or (val != val and c != c)))
        if not ok:
            problems.append("%s: %s calls __Pyx_Py%s_%s%s%s(intval=%r, inplace=%r, zerodivision_check=%r); admissible=%s"
                            % (modname, fn_text, fam, "Bool" if isb else "", op, order, val, inplace, zc, want))
    return not_opt


def run(ctx):
    S, I, L, LL, SZ, nsw, gnu = probe(ctx)
    E = Env()
    E.plat = "%d,%d,%d,%d,%d" % (S, I, L, LL, SZ)
    E.helperdir = os.path.join(ctx.scratch, "helpers")
    os.makedirs(E.helperdir, exist_ok=True)
    with open(os.path.join(E.helperdir, "c02_helpers.py"), "w") as f:
        f.write(HELPERS)
    variant, vproblem = remfix_variant(ctx)
    table = ctx.drv.batch(["C02 %s %s %s" % (variant, b, r) for b in IC for r in IC])
    E.remtable = {}
    for (b, r), out in zip([(b, r) for b in IC for r in IC], table):
        E.remtable[(b, r)] = out.split()[1]
    ctx.notes["platform"] = {"PyLong_SHIFT": S, "sizeof_int": I, "sizeof_long": L, "sizeof_long_long": LL,
                             "negative_shift_works": nsw, "gnu_shift_semantics": gnu}
    ctx.notes["remainder_fixup_variant"] = variant
    ctx.rule = ("cases (build configuration, function `x OP c` | `c OP x` | `x OP= c` | `cdef bint r = x == c`, input x): constants "
                "{0,+-1,+-2,+-7,255,+-2^15,2^15-1,+-(2^30-1),+-2^30} + seeded random |c|<=2^30 + non-admissible 2^30+1, 2^31, 2^62; shift "
                "counts 1..63 selection + 0/64/65; float constants incl. 0.0, 2^53, 2^53+1, subnormal, 1e300, inf; x: every digit boundary "
                "+-2^(15k)+{-1,0,1}, +-2^(30k)+{-1,0,1} (k<=5), 2^52..2^64 neighbourhoods, multiples of c +-1, seeded random ints "
                "(uniform bit length / digit patterns / near powers of two up to 2^200), 2^1023/2^1024, bools, int/float subclasses "
                "(plain and overriding every operator / in-place operator), floats of every IEEE class + random, str/None/list/tuple/"
                "bytes/complex/Fraction/Decimal/custom objects; non-trivial = the model predicts a value (fast path) or x is not an exact "
                "int; distinct by (configuration, function, input expression)")
    ctx.explanation = ("Theorems cover, for ALL ints x and all admissible constants, every (op, order) of PyLongBinop, PyLongCompare and the "
                       "decision part of PyFloatBinop (which conversion, exactness <= 2^53, ZeroDivisionError, == with exact ints, the "
                       "% sign fix-up on IEEE classes). NOT covered by a theorem: rounded values of the C double operations + - * / and "
                       "fmod (hardware/libm; checked only differentially against CPython), what the generic fallback (PyNumber_*, nb_* "
                       "slots, rich comparison) computes (it IS CPython), the compiler's selection of the helper (checked on every run by "
                       "reading the generated C back and comparing with the Lean predicate Admissible), the utility PyNumberBinop "
                       "(`__Pyx_PyNumber_{Add,…}_object_int` etc.) that the compiler uses for non-admissible constants and for `*` with a "
                       "float constant (no model; oracle leg only — it reports the sign-of-zero finding there), builtin-`int`-typed operands and "
                       "the Python 2 `Divide` instantiation, platforms other than the one probed (theorems are platform-generic; "
                       "`x << c` with c >= 32 is formally UB where long has 32 bits, see lshift_overwide_on_32bit_long).")
    ctx.assumptions = ["platform facts measured by a gcc probe and passed to the model: PyLong_SHIFT,sizeof int,long,long long,size_t = " + E.plat,
                       "gcc/clang semantics of signed shifts (<< wraps, >> arithmetic), as the template itself assumes (negative_shift_works, no_sanitize(\"shift\"))",
                       "ints in [-5,256] are singletons (identity shortcut of PyLongCompare)"]
    ctx.extra_trusted = ["regex read-back of the helper calls from the generated C (echoed on mismatch)",
                         "IEEE-754 binary64 arithmetic of the host for the values of float results (Python float ops as reference)"]
    if vproblem:
        ctx.tie_break("G PyFloatBinop remainder fix-up text", vproblem, {"problem": vproblem})

    # --- G: hypotheses of the theorems for the measured platform / dialect
    pl = E.plat.replace(",", ", ")
    ctx.lean_obligation("PlatOK current-platform",
                        "import CyVerif.Props.C02\nopen CyVerif.C02 CyVerif.C05\n"
                        "example : PlatOK ⟨%s⟩ ∧ 7 ≤ (⟨%s⟩ : Plat).shift ∧ (⟨%s⟩ : Plat).shift ≤ 53 := by decide\n"
                        "example : ∀ c : Int, c ≤ 63 → DialectOK ⟨%s⟩ ⟨true, %s, %s⟩ .lsh c ∧ DialectOK ⟨%s⟩ ⟨true, %s, %s⟩ .rsh c := by\n"
                        "  intro c hc; refine ⟨⟨by decide, fun _ => ⟨by decide, ?_⟩⟩, ⟨by decide, fun h => by cases h⟩⟩\n"
                        "  show c < 8 * ((%d : Nat) : Int); omega\n"
                        % (pl, pl, pl, pl, "true" if nsw else "false", "true" if gnu else "false", pl, "true" if nsw else "false",
                           "true" if gnu else "false", L),
                        "measured platform %s and C dialect satisfy PlatOK, 7 <= PyLong_SHIFT <= 53 and DialectOK for every shift count <= 63" % E.plat)

    plan = build_plan(ctx)
    for m, (src, recs) in plan.items():
        for r in recs:
            r["cval"] = float(r["c"]) if r["kind"] == "float" else r["c"]
    triples = sorted({(r["op"], r["order"], r["c"]) for (_, recs) in plan.values() for r in recs if r["kind"] == "int"
                      and (abs(r["c"]) in (0, 1, 7, 63, 64, 65, B - 1, B, B + 1, 2 ** 31))}, key=repr)
    ctx.lean_obligation("Admissible mirror", lean_admissible_file(triples),
                        "the Python predicate used to judge the compiler's selection equals CyVerif.C02.Admissible on %d boundary triples" % len(triples))

    rp = ctx.replay_case["case"] if getattr(ctx, "replay_case", None) and isinstance(ctx.replay_case.get("case"), dict) else None
    if rp and "function" in rp:
        return replay(ctx, E, rp, nsw, gnu)

    configs = [("default", [], "1%d%d" % (nsw, gnu), "-O0", None)]
    sub = None if not ctx.quick else ("c02_add", "c02_and", "c02_eq", "c02_lshift", "c02_remainder", "c02_float_truedivide", "c02_float_eq")
    configs.append(("no-pylong-internals", ["-DCYTHON_USE_PYLONG_INTERNALS=0"], "0%d%d" % (nsw, gnu), "-O0", sub))
    if not ctx.quick:
        configs.append(("default/O2", [], "1%d%d" % (nsw, gnu), "-O2", None))
    specs, owners = [], []
    for cname, cflags, ctok, opt, subset in configs:
        for m, (src, recs) in plan.items():
            if subset is not None and m not in subset:
                continue
            specs.append(dict(name=m, source=src, cflags=list(cflags), opt=opt))
            owners.append((cname, cflags, ctok, opt, m))
    built = cybuild.build_many(ctx, specs)

    rnd = random_ints(ctx.rng, ctx.n(40, 1200))
    shared = {"bints": ["%d" % v for v in boundary_ints() if abs(v) < 2 ** 1000], "rints": ["%d" % v for v in rnd],
              "fsub": FLOAT_SRCS[:14] + ["15.0", "0.1"], "rfloats": random_floats(ctx.rng, ctx.n(40, 800)),
              "bints_f": ["%d" % v for v in boundary_ints()], "rints_f": ["%d" % v for v in rnd[:ctx.n(30, 400)]]}
    sel_problems = []
    scanned = set()
    total_not_opt = 0
    for so, (cname, cflags, ctok, opt, m) in zip(built, owners):
        src, recs0 = plan[m]
        if isinstance(so, cybuild.BuildError):
            ctx.tie_break("D-c build %s [%s]" % (m, cname), so.stage + ": " + so.log[-600:], {"module": m, "config": cname})
            continue
        calls, problems = scan_c(os.path.join(os.path.dirname(so), m + ".c"))
        if m not in scanned:
            scanned.add(m)
            sel_problems += problems
            total_not_opt += check_selection(ctx, recs0, calls, sel_problems, m)
        recs = [dict(r, cfg=ctok, cflags=list(cflags), opt=opt) for r in recs0]
        bad = evaluate(ctx, E, so, recs, calls, shared, cname)
        # search around disagreements for inputs on which the property itself fails
        if bad:
            only = {}
            for rec, s in bad[:12]:
                only.setdefault(rec["name"], [])
                only[rec["name"]] += neighbours(ctx, s)
            evaluate(ctx, E, so, recs, calls, shared, cname + "/search", only=only)
    ctx.notes["admissible_but_generic_count"] = total_not_opt
    # the witness of the counterexample theorem remFix_inf_counterexample (7.5 % inf, 0.5 % inf, ... are fixed inputs of every run)
    seen_w = getattr(ctx, "_vcount", {}).get("float-const-mod-infinity", 0)
    ctx.notes["counterexample_witness_float_const_mod_infinity"] = (
        "reproduces on the staged tree (%d cases)" % seen_w if seen_w else
        "witness no longer reproduces (template variant: %s)" % variant)
    ctx.obligation("compiler selection == Admissible", not sel_problems,
                   "every generated helper call (family, op, order, intval, inplace, zerodivision_check) is the one the Lean "
                   "predicate Admissible / the float rule predicts" if not sel_problems else "; ".join(sel_problems[:6]))
    if sel_problems:
        ctx.tie_break("G helper selection (Optimize.py) vs CyVerif.C02.Admissible", "; ".join(sel_problems[:4]), {"problems": sel_problems[:20]})


def replay(ctx, E, rp, nsw, gnu):
    rec = dict(kind=rp["kind"], op=rp["op"], order=rp["order"], c=rp["c"], form=rp["form"], name="f0", cflags=rp.get("cflags", []),
               opt=rp.get("opt", "-O0"))
    rec["cval"] = float(rec["c"]) if rec["kind"] == "float" else rec["c"]
    rec["cfg"] = ("0" if any("PYLONG_INTERNALS=0" in f for f in rec["cflags"]) else "1") + "%d%d" % (nsw, gnu)
    src = HEADER + gen_function("f0", rec["op"], rec["order"], rec["c"], rec["form"])
    rec["line"] = HEADER.count("\n") + (1 if rec["form"] == "plain" else 2)
    try:
        so = cybuild.build_module(ctx, "c02_replay", src, cflags=rec["cflags"], opt=rec["opt"])
    except cybuild.BuildError as e:
        ctx.tie_break("D-c build replay", e.stage + ": " + e.log[-600:], rp)
        return
    calls, _ = scan_c(os.path.join(os.path.dirname(so), "c02_replay.c"))
    evaluate(ctx, E, so, [rec], calls, {}, rp.get("config", "replay"), only={"f0": [rp["x"]] + neighbours(ctx, rp["x"])[:40]})

"""C35 — reference counts stay balanced on every path (partial: allocator discipline + refnanny checker proved,
the code generator itself only searched by fault injection)."""
import glob
import json
import os

import lib
from props import c35_fs, c35_gen, c35_fault, c35_nanny


def get_nanny(ctx):
    """the staged refnanny.pyx compiled by the staged compiler; None (and a broken-tie record) if that fails"""
    if not hasattr(ctx, "_nanny"):
        try:
            ctx._nanny = c35_fault.build_refnanny(ctx)
        except Exception as e:
            ctx._nanny = None
            log = getattr(e, "log", "") or repr(e)
            ctx.tie_break("refnanny-build", "the staged compiler cannot build Cython/Runtime/refnanny.pyx (legs 3 and 4 skipped): " + log[-250:],
                          {"leg": "build", "what": "refnanny.pyx"})
    return ctx._nanny


def programs(ctx):
    """generated modules shared by the compile-recording leg and the fault-injection leg"""
    g = c35_gen.Gen(ctx.rng)
    mods = [("c35fixed", "# cython: language_level=3\n" + c35_gen.HELPERS + c35_gen.FIXED, list(c35_gen.FIXED_NAMES))]
    mods.append(("c35known", "# cython: language_level=3\n" + c35_gen.KNOWN, list(c35_gen.KNOWN_NAMES)))
    for i in range(ctx.n(3, 12)):
        src, names = g.module(8, prefix="g%d_" % i)
        mods.append(("c35gen%d" % i, src, names))
    return mods


def leg_fault(ctx, mods):
    nanny = get_nanny(ctx)
    if nanny is None:
        return
    sos = c35_fault.build_programs(ctx, mods)
    nfail = 0
    for (mn, src, funcs), so in zip(mods, sos):
        if isinstance(so, Exception):
            nfail += 1
            ctx.notes.setdefault("fault_build_errors", []).append((mn, getattr(so, "stage", "?"), getattr(so, "log", "")[-300:]))
            continue
        marks = c35_fault.py_line_map(so, mn)
        fixed = set(c35_gen.FIXED_NAMES) | set(c35_gen.KNOWN_NAMES)
        for group in ([[f] for f in funcs] if mn == "c35known" else [funcs]):      # a known crasher gets its own child
            results, crashed, init = c35_fault.run_module(ctx, nanny, mn, so, src, group, cap=40 if ctx.quick else 120)
            c35_fault.judge(ctx, mn, src, results, crashed, init, fixed, marks)
    seen = set(v["key"] for v in ctx.violations)
    ctx.notes["known_witnesses"] = {
        "cascadedcmp (kf_cascade_bool / kf_cascade_operand)": "reproduces" if any("cascadedcmp" in k for k in seen) else "witness no longer reproduces",
        "pending-return-when-finally-raises (fx_with / fx_return_in_finally_loop)":
            "reproduces" if any("pending-return" in k for k in seen) else "witness no longer reproduces"}
    if nfail > len(mods) // 2:
        ctx.tie_break("program-build", "most generated modules fail to build with the staged compiler: %r" % (ctx.notes.get("fault_build_errors"),),
                      {"leg": "build", "what": "generated programs"})


def zombie_call_sites(ctx):
    """every call of allocate_temp(..., reusable=False) in the staged compiler passes manage_ref=False
    (hypothesis ZombieFree of the *_partial theorems), extracted from the source with ast"""
    import ast
    sites, bad = [], []
    cdir = os.path.join(ctx.stage, "Cython", "Compiler")
    for fn in sorted(os.listdir(cdir)):
        if not fn.endswith(".py"):
            continue
        try:
            tree = ast.parse(open(os.path.join(cdir, fn)).read())
        except SyntaxError:
            continue
        for node in ast.walk(tree):
            if isinstance(node, ast.Call) and isinstance(node.func, ast.Attribute) and node.func.attr == "allocate_temp":
                kw = {k.arg: k.value for k in node.keywords}
                reusable = kw.get("reusable", node.args[3] if len(node.args) > 3 else None)
                if reusable is None or (isinstance(reusable, ast.Constant) and reusable.value is True):
                    continue
                manage = kw.get("manage_ref", node.args[1] if len(node.args) > 1 else None)
                ok = isinstance(manage, ast.Constant) and manage.value is False
                sites.append("%s:%d manage_ref=%s" % (fn, node.lineno, ast.unparse(manage) if manage is not None else "?"))
                if not ok:
                    bad.append(sites[-1])
    ctx.obligation("C35.zombie_call_sites", not bad and bool(sites),
                   "every allocate_temp(..., reusable=False) call site passes the literal manage_ref=False: %s%s"
                   % ("; ".join(sites), (" :: VIOLATED by " + "; ".join(bad)) if bad else ""))
    return not bad


def witness_partition(ctx, Code, T):
    """fullFreeUnion_false replayed on the real class"""
    case = ((), ("a100:0:1000", "r1", "q"), False)
    outs, bad = c35_fs.run_impl(Code, T, case[0], case[1])
    q = outs[-1]
    repro = "M[1]" in q and "H[]" in q and "F[]" in q
    ctx.notes["fullFreeUnion_false"] = ("reproduces on the real class: " + q) if repro else ("witness no longer reproduces: " + q)
    c35_fs.check_batch(ctx, Code, T, [case], "witness")


def measure_coverage(ctx, Code, T, cases):
    """line coverage of the modelled FunctionState methods by the differential inputs (sys.settrace)"""
    import sys
    FS = Code.FunctionState
    names = ["allocate_temp", "release_temp", "temps_in_use", "temps_holding_reference", "all_managed_temps",
             "all_free_managed_temps", "start_collecting_temps", "stop_collecting_temps"]
    codes = {getattr(FS, n).__code__: n for n in names}
    hit = set()

    def tracer(frame, event, arg):
        if frame.f_code in codes:
            def local(fr, ev, a):
                if ev == "line":
                    hit.add((codes[fr.f_code], fr.f_lineno))
                return local
            hit.add((codes[frame.f_code], frame.f_lineno))
            return local
        return None
    sys.settrace(tracer)
    try:
        for tk, ops, cppl in cases:
            try:
                c35_fs.run_impl(Code, T, tk, ops, cpp_locals=cppl, debug=True)
            except Exception:
                pass
    finally:
        sys.settrace(None)
    import dis
    missed = []
    total = 0
    for code, n in codes.items():
        # nested comprehension code objects run in their own frames; count the lines of the method body itself
        lines = set(l for _, l in dis.findlinestarts(code) if l is not None and l != code.co_firstlineno)
        total += len(lines)
        for l in sorted(lines):
            if (n, l) not in hit:
                missed.append("%s:%d" % (n, l))
    ctx.notes["line_coverage"] = {"file": "Cython/Compiler/Code.py", "methods": names, "executable_lines": total, "not_executed": missed}


def run(ctx):
    import Cython.Compiler.Code as Code
    if not Code.__file__.endswith(".py") or not Code.__file__.startswith(ctx.stage):
        raise lib.Infra("staged pure-Python Code.py not in use: %s" % Code.__file__)
    T = c35_fs.Types()
    legs = os.environ.get("C35_LEGS", "fs,compile,nanny,fault").split(",")
    ctx.rule = ("(1) FunctionState: ALL allocate/release histories of length <= L (L = 3 quick / 4 thorough) over 7 request kinds "
                "(managed / unmanaged / non-reusable object temps, C int incl. manage_ref=True and const) and releases of names 1..3 and an unknown "
                "name, all query sets compared after every operation; seeded random histories (8..300 ops) over a pool of 30 real PyrexTypes "
                "(cv-qualified, references, fake and rvalue references, C functions, memoryview slices, C++ class with cpp_locals), with wrong "
                "releases, names_taken, non-reusable temps, collect stacks; (2) the histories of real compilations of the generated programs "
                "(wrapped allocate_temp/release_temp/error_goto/all_*_temps), replayed through the model, cleanup-cover spec checked at every "
                "error_goto; (3) event streams on the compiled staged refnanny through its C function table (fixed, random, balanced by "
                "construction, one event dropped / duplicated / NULL inserted) and the event streams the abstract-function model emits for "
                "disciplined statement sequences built on the real FunctionState; (4) fault injection: every generated function once per "
                "fallible call k with the k-th call raising. non-trivial = history with an allocate and a release / stream longer than one "
                "event / run with at least one fallible call; distinct by full history / stream / (function text, k)")
    ctx.explanation = ("PARTIAL. Theorems cover (i) the temp allocator FunctionState for all histories: no double hand-out, key-preserving reuse, "
                       "rejected releases, cleanup lists computed later cover the managed temps in use at every earlier point; (ii) the refnanny Context: "
                       "sound and complete w.r.t. the counting spec for all event streams; (iii) an ABSTRACT function obeying the temp discipline is "
                       "balanced on the error path and the return path. NOT covered by any theorem: that the code generators in ExprNodes.py / Nodes.py "
                       "obey that discipline (every owned reference GOTREFed, disposed or given away exactly once, temps cleared after disposal), "
                       "references held in local variables, closures, arguments, exception state, memoryview / buffer acquisition counts, utility "
                       "code written in C. That part of the property is only SEARCHED by leg (4) (fault injection with CYTHON_REFNANNY=1, tracked "
                       "objects, argument refcounts, comparison with CPython).")
    ctx.assumptions = ["names_taken is finite (the name search loop terminates)",
                       "no refcount-managed temp is requested with reusable=False (hypothesis of the *_partial theorems; obligation C35.zombie_call_sites checks every call site)",
                       "refnanny runs with a non-NULL context and under the GIL; object identity = address, objects stay alive while registered"]
    ctx.extra_trusted = ["ctypes access to the RefNannyAPI function table of the compiled staged refnanny.pyx (the module is compiled by the staged compiler itself)",
                         "the fault-injecting helper classes and the CPython run of the same source as the reference outcome (harness/props/c35_gen.py)"]
    rc = getattr(ctx, "replay_case", None)
    if rc and "case" in rc:
        replay(ctx, Code, T, rc["case"])
        return
    zombie_call_sites(ctx)
    corpus = []
    for fn in sorted(glob.glob(os.path.join(lib.VERIF, "corpus", "C35", "*.json"))):
        corpus.append(json.load(open(fn)))
    for c in corpus:
        replay(ctx, Code, T, c)
    mods = programs(ctx)
    if "fault" in legs:
        leg_fault(ctx, mods)
    nanny = get_nanny(ctx) if "nanny" in legs else None
    if nanny is not None:
        fixed = ["A0 G0:1 D0:2", "A0 G0:1", "A0 G0:1 D0:2 D0:3", "GN:4", "DN:5 VN:6 IN:7", "gN:1 vN:2 iN:3 dN:4", "A0 G0:1 I0:2 I0:3 V0:4 D0:5 D0:6",
                 "A0 G0:1 A1 G1:2 D0:3 I0:4 D1:5 D0:6", "V0:1", "I0:1 I1:2 I0:3", "A0 G0:5 V0:6 A0 G0:7 D0:8"]
        c35_nanny.check_streams(ctx, nanny, fixed, "fixed")
        rs = []
        for _ in range(ctx.n(1500, 20000)):
            rs.append(c35_nanny.random_stream(ctx.rng, ctx.rng.choice((1, 2, 4, 8, 20, 60)), ctx.rng.choice((1, 2, 3, 6)),
                                              ctx.rng.choice(("random", "balanced", "balanced", "drop", "dup", "null"))))
        rs.sort(key=len)
        c35_nanny.check_streams(ctx, nanny, rs, "random")
        c35_nanny.check_func_machine(ctx, Code, T, c35_fs, nanny, ctx.n(600, 6000))
    if "compile" in legs:
        nrec = 0
        for mn, src, funcs in mods:
            recs = c35_fs.compile_recorded(ctx, Code, T, mn, src)
            if recs is not None:
                nrec += len(recs)
                c35_fs.check_recording(ctx, mn, src, recs)
        ctx.notes["recorded_funcstates"] = nrec
    if "fs" not in legs:
        return
    witness_partition(ctx, Code, T)
    # (1) FunctionState: exhaustive + random histories
    L = 3 if ctx.quick else 4
    ex = list(c35_fs.enum_histories(L))
    for i in range(0, len(ex), 20000):
        c35_fs.check_batch(ctx, Code, T, ex[i:i + 20000], "exhaustive")
    rnd = []
    for _ in range(ctx.n(1500, 20000)):
        taken = tuple(sorted(ctx.rng.sample(range(1, 12), ctx.rng.choice((0, 0, 0, 2, 5)))))
        ops = c35_fs.random_history(ctx.rng, Code, T, ctx.rng.choice((8, 20, 50, 120, 300)), ctx.rng.choice((1, 2, 4, 8)),
                                    ctx.rng.choice((0.0, 0.05, 0.3)), ctx.rng.choice((0.05, 0.3)), taken)
        rnd.append((taken, ops, ctx.rng.random() < 0.3))
    rnd.sort(key=lambda c: len(c[1]))
    c35_fs.check_batch(ctx, Code, T, rnd, "random")
    measure_coverage(ctx, Code, T, ex[::max(1, len(ex) // 400)] + rnd[:200] + rnd[-30:])


def replay(ctx, Code, T, case):
    leg = case.get("leg")
    if leg == "fs":
        c35_fs.check_batch(ctx, Code, T, [(tuple(case.get("taken", ())), tuple(case["ops"]), bool(case.get("cpp_locals")))], "replay")
    elif leg == "nanny":
        if get_nanny(ctx):
            c35_nanny.check_streams(ctx, get_nanny(ctx), [case["events"]], "replay")
    elif leg == "func":
        nanny = get_nanny(ctx)
        mo = ctx.drv.batch([case["line"]])[0]
        if nanny and " => " in mo:
            c35_nanny.check_streams(ctx, nanny, [mo[3:].split(" => ")[0]], "replay")
    elif leg in ("fault", "compile"):
        src = case["module_source"]
        mn = case.get("module", "c35replay")
        funcs = [case["function"]] if case.get("function") and leg == "fault" else None
        if leg == "compile":
            recs = c35_fs.compile_recorded(ctx, Code, T, mn, src)
            if recs is not None:
                c35_fs.check_recording(ctx, mn, src, recs)
            return
        if funcs is None:
            import re
            funcs = [f for f in re.findall(r"^def (\w+)\(a, b, c\)", src, re.M)]
        leg_fault(ctx, [(mn, src, funcs)])

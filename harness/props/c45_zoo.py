"""C45 fixed scenarios ("zoo"): function kinds and exits the random mini-language does not produce."""

ZOO_SRC = '''from c45cb import cb_ok, cb_raise, CM
from cython.parallel import prange
def rec(n):                         #@rec
    if n > 0:                       #@rec_if
        rec(n - 1)                  #@rec_call
class K:
    def meth(self):                 #@meth
        x = 1                       #@meth_s
        return 1                    #@meth_r
lam = lambda: cb_ok()               #@lam
cpdef int cp_ok():                  #@cp_ok
    return 1                        #@cp_ok_r
cpdef int cp_bad() except -1:       #@cp_bad
    raise ValueError("c")           #@cp_bad_f
def call_cp():                      #@call_cp
    cp_ok()                         #@call_cp_k
cdef int ng() noexcept nogil:       #@ng
    return 1                        #@ng_r
cdef int ng_bad() except -1 nogil:  #@ng_bad
    with gil:                       #@ng_bad_w
        raise ValueError("n")       #@ng_bad_f
def call_ng():                      #@call_ng
    ng()                            #@call_ng_k
    ng_bad()                        #@call_ng_k2
cdef int par_ret(int n) noexcept:   #@par_ret
    cdef int i
    for i in prange(n, nogil=True): #@par_for
        if i == 0:                  #@par_if
            return i                #@par_r
    return -1
def call_par():                     #@call_par
    par_ret(3)                      #@call_par_k
def with_ret():                     #@with_ret
    with CM():                      #@with_w
        return 1                    #@with_r
def fin_ret_raise():                #@frr
    try:                            #@frr_t
        return 1                    #@frr_r
    finally:
        raise KeyError("k")         #@frr_f
def plain():                        #@plain
    x = 1                           #@plain_s
    return 1                        #@plain_r
def gen0():                         #@gen0
    yield 0                         #@gen0_y
cdef class B2:
    cpdef int m(self):              #@b2m
        return 1                    #@b2m_r
cdef class C2(B2):
    cpdef int m(self):              #@c2m
        return B2.m(self) + 1       #@c2m_r
def call_super():                   #@csup
    C2().m()                        #@csup_k
def kerr():                         #@kerr
    raise KeyError("k")             #@kerr_f
def catch_other():                  #@cother
    try:                            #@cother_t
        kerr()                      #@cother_k
    except ValueError:              #@cother_x
        x = 1                       #@cother_s
cb_ok()                             #@mod_k
'''


def marks():
    m = {}
    lines = ZOO_SRC.split("\n")
    for i, l in enumerate(lines):
        if "#@" in l:
            m[l.split("#@")[1].strip()] = i + 1
    m["__last__"] = len([l for l in lines]) - 1
    return m


def build(Fn, CB, mode):
    """Returns (cases, names, ranges, fuzzy).  Each case: dict(name, kind, args, fn (model root) or None, key (finding
    key expected when the oracle rejects), modes)."""
    m = marks()
    fid = [100]

    def fn(name, kind, first, last, body):
        fid[0] += 1
        f = Fn(fid[0], kind)
        f.name, f.first, f.last, f.body = name, m[first], m[last], body
        return f

    def cbw(name):
        i, first, last, bl = CB[name]
        w = ["s%d:%d:%d" % (i, first, last)] + (["l%d:%d:0" % (i, bl)] if mode == "t" else []) + ["r%d:0:0" % i]
        return w

    S = lambda k: {"t": "S", "ln": m[k]}
    R = lambda k: {"t": "R", "ln": m[k]}
    F = lambda k, c=1: {"t": "F", "ln": m[k], "c": c}
    K = lambda k, f: {"t": "K", "ln": m[k], "fn": f}
    X = lambda k, cb: {"t": "X", "ln": m[k], "cb": cb}
    rec0 = fn("rec", "def", "rec", "rec_call", [])
    rec1 = fn("rec", "def", "rec", "rec_call", [K("rec_call", rec0)])
    rec2 = fn("rec", "def", "rec", "rec_call", [K("rec_call", rec1)])
    meth = fn("meth", "def", "meth", "meth_r", [S("meth_s"), R("meth_r")])
    lam = fn("<lambda>", "def", "lam", "lam", [X("lam", "cb_ok"), R("lam")])
    cp_ok = fn("cp_ok", "cpdefpy", "cp_ok", "cp_ok_r", [R("cp_ok_r")])
    cp_bad = fn("cp_bad", "cpdefpy", "cp_bad", "cp_bad_f", [F("cp_bad_f")])
    cp_in = fn("cp_ok", "def", "cp_ok", "cp_ok_r", [R("cp_ok_r")])
    call_cp = fn("call_cp", "def", "call_cp", "call_cp_k", [K("call_cp_k", cp_in)])
    ng = fn("ng", "nogil", "ng", "ng_r", [R("ng_r")])
    ng_bad = fn("ng_bad", "nogil", "ng_bad", "ng_bad_f", [F("ng_bad_f")])
    call_ng = fn("call_ng", "def", "call_ng", "call_ng_k2", [K("call_ng_k", ng), K("call_ng_k2", ng_bad)])
    par = fn("par_ret", "def", "par_ret", "par_r", [{"t": "P", "ln": m["par_r"]}])
    par.last = m["par_r"] + 1
    call_par = fn("call_par", "def", "call_par", "call_par_k", [K("call_par_k", par)])
    with_ret = fn("with_ret", "def", "with_ret", "with_r", [
        {"t": "XW", "ln": m["with_w"], "raises": 0, "w": cbw("__enter__")},
        {"t": "TF", "ln": m["with_w"], "body": [R("with_r")],
         "fin": [{"t": "XW", "ln": m["with_w"], "raises": 0, "w": cbw("__exit__")}]}])
    frr = fn("fin_ret_raise", "def", "frr", "frr_f", [{"t": "TF", "ln": m["frr_t"], "body": [R("frr_r")], "fin": [F("frr_f", 0)]}])
    plain = fn("plain", "def", "plain", "plain_r", [S("plain_s"), R("plain_r")])
    gen0 = fn("gen0", "gen", "gen0", "gen0_y", [{"t": "Y", "ln": m["gen0_y"], "v": 0}])
    b2m = fn("m", "cskip", "b2m", "b2m_r", [R("b2m_r")])
    c2m = fn("m", "def", "c2m", "c2m_r", [K("c2m_r", b2m), R("c2m_r")])
    csup = fn("call_super", "def", "csup", "csup_k", [K("csup_k", c2m)])
    kerr = fn("kerr", "def", "kerr", "kerr_f", [F("kerr_f", 0)])
    cother = fn("catch_other", "def", "cother", "cother_s", [
        {"t": "TE", "ln": m["cother_t"], "body": [K("cother_k", kerr)], "lnx": m["cother_x"], "h": [S("cother_s")]}])
    cases = [
        dict(name="catch_other", kind="fn", fn=cother),     # a callee's exception the except clause does not match
        dict(name="rec", kind="fn", args=[2], fn=rec2),
        dict(name="K.meth", kind="fn", fn=meth),
        dict(name="lam", kind="fn", fn=lam),
        dict(name="call_cp", kind="fn", fn=call_cp),
        dict(name="call_ng", kind="fn", fn=call_ng),
        dict(name="plain", kind="fn", fn=plain),
        dict(name="cp_ok", kind="fn", fn=cp_ok, key="cpdef-from-python-error-two-returns", no_witness=True,
             key_t="settrace-cpdef-from-python-typeerror"),
        dict(name="cp_bad", kind="fn", fn=cp_bad, key="cpdef-from-python-error-two-returns",
             key_t="settrace-cpdef-from-python-typeerror"),
        dict(name="call_par", kind="fn", fn=call_par, key="return-in-parallel-no-return-event"),
        dict(name="with_ret", kind="fn", fn=with_ret, key="return-event-before-finally",
             # what CPython reports for the same source: __exit__ runs INSIDE the bracket of with_ret
             nested=[("call", "with_ret"), ("call", "__enter__"), ("return", "__enter__"), ("call", "__exit__"),
                     ("return", "__exit__"), ("return", "with_ret")]),
        dict(name="fin_ret_raise", kind="fn", fn=frr, key="return-event-before-finally"),
        dict(name="call_super", kind="fn", fn=csup, key="cpdef-base-call-skips-start-event",
             key_t="settrace-cpdef-from-python-typeerror", same_name_ranges={"m": ("b2m", "c2m_r")}),
        dict(name="gen0", kind="gen", first="close", fn=None),      # closed before the first resume: no events
        dict(name="gen0", kind="gen", first="throw", fn=None),      # thrown into before the first resume
        dict(name="gen0", kind="gen", fn=gen0),
    ]
    if mode == "t":
        cases.append(dict(name="plain", kind="fn", fn=None, mode="n", key="settrace-local-tracer-none-typeerror"))
    allf = [rec2, meth, lam, cp_ok, cp_bad, call_cp, ng, ng_bad, call_ng, par, call_par, with_ret, frr, plain, gen0, csup, kerr, cother]
    names, ranges = {}, {}
    for f in allf + [rec1, rec0, cp_in]:
        names[f.fid] = f.name
        ranges[f.name] = (f.first, f.last)
    names[b2m.fid] = names[c2m.fid] = "m"
    ranges["m"] = (m["b2m"], m["c2m_r"])      # two methods share the name: the oracle gets the union of their ranges
    fuzzy = {m[k] for k in ("rec_if", "lam", "ng_bad_w", "par_for", "par_if", "with_w", "frr_f", "c2m_r", "cother_x")}
    return cases, names, ranges, fuzzy, m
